"""Queue BACKENDS of `IteratorQueue` (round 10, package SC04b) -- used by C04 / C05.

The buffer under `IteratorQueue` is a constructor PARAMETER (`queue_or_size`): an int makes the class build its default
(`queue.SimpleQueue()` / `queue.Queue(n)`; `AsyncIteratorQueue`: `asyncio.Queue(n)`), anything else is taken as is -- a
`queue.Queue`, a `queue.SimpleQueue`, an `asyncio.Queue`, or any object with `put_nowait` / `get_nowait` / `empty`
(`_QueueLike`).  Each backend signals "full" / "empty" with ITS OWN exception classes:

    queue.Queue(n)        put_nowait on a full buffer -> queue.Full          get_nowait on an empty one -> queue.Empty
    queue.SimpleQueue()   never full                                        get_nowait on an empty one -> queue.Empty
    asyncio.Queue(n)      put_nowait on a full buffer -> asyncio.QueueFull   get_nowait on an empty one -> asyncio.QueueEmpty

The Lean LTS (`Model/Queue.lean`) is backend-independent (an abstract FIFO with capacity; the contract it assumes is
`Model/QueueBackend.lean`), so the schedule-replay tie of `lib_queue` must hold for EVERY backend.  This file provides

  * scheduler shims of the three backends (every `put_nowait` / `get_nowait` / `empty` is a yield point of
    `harness/sched/shim.py`, labelled as the LTS labels them) raising the REAL exception classes of their backend, plus
    protocol-minimal duck-typed buffers (exactly the three methods of `_QueueLike`);
  * `make_queue(iter_utils, sched, case)`: builds the queue object of a case for every way the constructors accept one;
  * `patched(sched, modules)`: `shim.patched` + an `asyncio` facade whose `Queue` is the shim (so that
    `AsyncIteratorQueue(n)` -- `_default_queue` -> `asyncio.Queue(maxsize=n)` -- gets a scheduler-driven buffer);
  * `contract_cases` / `run_contract`: the SAME random operation sequences on the real CPython object, on the shim and on
    the Lean `Backend` instance (driver model "queuebackend"): value / exception class of every call must agree;
  * `real_thread_runs`: the real, un-shimmed backends under OS threads (producers first), checked by the C04 oracle;
  * the deterministic event loop and the runner of the async API (`async_enqueue_from_iterator`, `async for`,
    `async_get`, `async_get_batch`): see `run_async`.
"""
import asyncio
import collections
import queue as _real_queue
import types as _types

from harness.sched import shim

# ---------------------------------------------------------------------------------------------- backends

# name -> (family of exception classes, may be bounded, how it reaches the queue)
#   'default'             IteratorQueue(n)                      -> SimpleQueue() / Queue(n) built by _default_queue
#   'queue.Queue'         IteratorQueue(queue.Queue(n))         object passed in
#   'queue.SimpleQueue'   IteratorQueue(queue.SimpleQueue())    object passed in (never bounded)
#   'asyncio.Queue'       IteratorQueue(asyncio.Queue(n))       object passed in
#   'AsyncIteratorQueue'  AsyncIteratorQueue(n)                 asyncio.Queue(n) built by _default_queue (no max_enqueuer)
#   'from_queue'          IteratorQueue.from_queue(asyncio.Queue(n))   the classmethod constructor
#   'duck' / 'duck_async' an object with exactly put_nowait / get_nowait / empty raising queue.* / asyncio.Queue* classes
BACKENDS = {
    'default': dict(family='queue', bounded=(False, True)),
    'queue.Queue': dict(family='queue', bounded=(False, True)),
    'queue.SimpleQueue': dict(family='queue', bounded=(False,)),
    'asyncio.Queue': dict(family='asyncio', bounded=(False, True)),
    'AsyncIteratorQueue': dict(family='asyncio', bounded=(False, True)),
    'from_queue': dict(family='asyncio', bounded=(False, True)),
    'duck': dict(family='queue', bounded=(False, True)),
    'duck_async': dict(family='asyncio', bounded=(False, True)),
}
FAMILY = {
    'queue': (_real_queue.Full, _real_queue.Empty),
    'asyncio': (asyncio.QueueFull, asyncio.QueueEmpty),
}
# backends whose queue class has no `max_enqueuer` argument: the producer count cannot be declared (model: max_enq = 0)
UNDECLARED = ('AsyncIteratorQueue', 'from_queue')


def arms(api=('sync',)):
  """the coverage arms: backend x bounded/unbounded x API"""
  return [f'{b}/{"bounded" if bd else "unbounded"}/{a}' for b, d in BACKENDS.items() for bd in d['bounded'] for a in api]


def arm(case, api='sync'):
  return f"{case.get('backend') or 'default'}/{'bounded' if case['cap'] else 'unbounded'}/{api}"


class FifoShim:
  """An atomic FIFO with capacity whose three non-blocking calls are scheduler yield points (labels as in the LTS:
  `get_nowait q1`, `put_nowait q1`, `empty q1`) and which raises the exception classes of ITS backend."""
  FULL, EMPTY = _real_queue.Full, _real_queue.Empty

  def __init__(self, sched, maxsize=0, name='q1'):
    self._s, self.name, self._maxsize = sched, name, maxsize
    self._items = collections.deque()

  def _is_full(self):
    return self._maxsize > 0 and len(self._items) >= self._maxsize

  def get_nowait(self):
    def eff(alt):
      if not self._items:
        raise self.EMPTY()
      return self._items.popleft()
    return self._s.op(f'get_nowait {self.name}', lambda: True, eff)

  def put_nowait(self, v):
    def eff(alt):
      if self._is_full():
        raise self.FULL()
      self._items.append(v)
    return self._s.op(f'put_nowait {self.name}', lambda: True, eff)

  def empty(self):
    return self._s.op(f'empty {self.name}', lambda: True, lambda alt: not self._items)


class QueueShim(FifoShim):
  """queue.Queue(maxsize): maxsize <= 0 is unbounded; queue.Full / queue.Empty"""

  @property
  def maxsize(self):
    return self._maxsize

  def qsize(self):
    return len(self._items)

  def full(self):
    return self._is_full()


class SimpleQueueShim(FifoShim):
  """queue.SimpleQueue(): no capacity at all, put_nowait never raises; queue.Empty"""

  def __init__(self, sched, name='q1'):
    super().__init__(sched, 0, name)

  def qsize(self):
    return len(self._items)


class AsyncioQueueShim(QueueShim):
  """asyncio.Queue(maxsize): asyncio.QueueFull / asyncio.QueueEmpty (the blocking coroutines get / put are not used by
  IteratorQueue and are deliberately absent: a call would be an AttributeError, not a silent hang)"""
  FULL, EMPTY = asyncio.QueueFull, asyncio.QueueEmpty


class _Duck:
  """exactly the `_QueueLike` protocol: put_nowait / get_nowait / empty, nothing else (no qsize / full / maxsize)"""
  __slots__ = ('_f',)

  def __init__(self, fifo):
    self._f = fifo

  def get_nowait(self):
    return self._f.get_nowait()

  def put_nowait(self, v):
    return self._f.put_nowait(v)

  def empty(self):
    return self._f.empty()


def asyncio_module(sched):
  """facade of `asyncio` for the repo module: everything is the real thing except `Queue`"""
  m = _types.ModuleType('asyncio_shim')
  for k in dir(asyncio):
    if not k.startswith('__'):
      setattr(m, k, getattr(asyncio, k))
  m.Queue = lambda maxsize=0: AsyncioQueueShim(sched, maxsize, 'q1')
  return m


class patched(shim.patched):
  """`shim.patched` (threading / queue / futures) + the asyncio facade"""

  def __enter__(self):
    super().__enter__()
    fac = asyncio_module(self.sched)
    for mod in self.modules:
      if hasattr(mod, 'asyncio'):
        self.saved.append((mod, 'asyncio', mod.asyncio))
        mod.asyncio = fac
    return self


def make_queue(iter_utils, sched, case, timeout, **kw):
  """The queue of a case, built the way `case['backend']` says (inside `patched`)."""
  b = case.get('backend') or 'default'
  cap = case['cap']
  if b not in BACKENDS:
    raise ValueError(f'unknown backend {b}')
  if cap and True not in BACKENDS[b]['bounded']:
    raise ValueError(f'backend {b} cannot be bounded')
  if b == 'default':
    return iter_utils.IteratorQueue(cap, max_enqueuer=case['max_enq'], timeout=timeout, **kw)
  if b == 'AsyncIteratorQueue':
    assert case['max_enq'] == 0, 'AsyncIteratorQueue has no max_enqueuer argument'
    return iter_utils.AsyncIteratorQueue(cap, timeout=timeout, **kw)
  if b == 'from_queue':
    assert case['max_enq'] == 0, 'from_queue has no max_enqueuer argument'
    return iter_utils.IteratorQueue.from_queue(AsyncioQueueShim(sched, cap), timeout=timeout)
  buf = {
      'queue.Queue': lambda: QueueShim(sched, cap),
      'queue.SimpleQueue': lambda: SimpleQueueShim(sched),
      'asyncio.Queue': lambda: AsyncioQueueShim(sched, cap),
      'duck': lambda: _Duck(QueueShim(sched, cap)),
      'duck_async': lambda: _Duck(AsyncioQueueShim(sched, cap)),
  }[b]()
  return iter_utils.IteratorQueue(buf, max_enqueuer=case['max_enq'], timeout=timeout, **kw)


# ---------------------------------------------------------------------------------------------- contract check

REAL = {
    'queue.Queue': lambda cap: _real_queue.Queue(cap),
    'queue.SimpleQueue': lambda cap: _real_queue.SimpleQueue(),
    'asyncio.Queue': lambda cap: asyncio.Queue(cap),
}
_CLS = {_real_queue.Full: 'queue.Full', _real_queue.Empty: 'queue.Empty',
        asyncio.QueueFull: 'asyncio.QueueFull', asyncio.QueueEmpty: 'asyncio.QueueEmpty'}


def contract_cases(rng, n):
  """random single-threaded operation sequences on a backend: ['put', v] | ['get'] | ['empty']"""
  out = []
  for k in range(n):
    b = ['queue.Queue', 'queue.SimpleQueue', 'asyncio.Queue'][k % 3]
    cap = 0 if b == 'queue.SimpleQueue' else rng.choice([0, 1, 1, 2, 3])
    ops = []
    for i in range(rng.randrange(1, 14)):
      r = rng.random()
      ops.append(['put', 10 * k + i] if r < 0.5 else ['get'] if r < 0.85 else ['empty'])
    out.append(dict(backend=b, cap=cap, ops=ops))
  return out


def _drive(q, ops):
  res = []
  for op in ops:
    try:
      if op[0] == 'put':
        q.put_nowait(op[1])
        res.append(['ok'])
      elif op[0] == 'get':
        res.append(['val', q.get_nowait()])
      else:
        res.append(['bool', bool(q.empty())])
    except BaseException as e:  # pylint: disable=broad-except
      res.append(['raise', _CLS.get(type(e), type(e).__module__ + '.' + type(e).__name__)])
  return res


def run_contract(case):
  """the same operations on the REAL CPython backend and on its scheduler shim (driven from an unmanaged thread: every
  operation executes immediately)"""
  sched = shim.Scheduler(lambda opts, s: 0)
  mk = {'queue.Queue': lambda: QueueShim(sched, case['cap']), 'queue.SimpleQueue': lambda: SimpleQueueShim(sched),
        'asyncio.Queue': lambda: AsyncioQueueShim(sched, case['cap'])}[case['backend']]
  return dict(real=_drive(REAL[case['backend']](case['cap']), case['ops']), shim=_drive(mk(), case['ops']))


def contract_request(case):
  return dict(model='queuebackend', op='run', backend=case['backend'], cap=case['cap'], ops=case['ops'])


# ---------------------------------------------------------------------------------------------- case generation / coverage

def gen_backend_case(rng, k, b, bounded, maxlen, fail_p=0.0, stopper=None, timeout=False):
  """One schedule-replay case of `lib_queue` on backend `b` (k = running index: the schedule kind rotates).  Bounded
  cases have a source longer than the capacity; a quarter of the schedules are PHASED producers-first (the producers run
  until every one of them is parked on the full buffer or done; only then the consumers start), so that `put` finds the
  buffer full; a quarter consumers-first (they find the buffer empty); the rest seeded uniform-random / PCT."""
  cap = rng.choice([1, 1, 2, 3]) if bounded else 0
  undeclared = b in UNDECLARED
  nprod = 1 if undeclared else rng.randrange(1, 4)
  ncons = rng.randrange(1, 3)
  ths = []
  for p in range(nprod):
    n = rng.randrange(0, maxlen + 1)
    if bounded and p == 0:
      n = max(n, min(cap + rng.randrange(1, 3), maxlen + 2))
    src = [p * 100 + i for i in range(n)]
    if fail_p and rng.random() < fail_p:
      src.insert(rng.randrange(0, n + 1), 'fail')
    ths.append(dict(kind='producer', src=src, ret=900 + p))
  for _ in range(ncons):
    if rng.random() < 0.5:
      ths.append(dict(kind='batch', max=rng.choice([1, 2, 3, 1024]), block=rng.random() < 0.4))
    else:
      ths.append(dict(kind='get'))
  if stopper is not None:
    ths.append(stopper)
  prods, rest = list(range(nprod)), list(range(nprod, len(ths)))
  mode = k % 4
  if mode == 0:      # producers ahead: `put` meets the backend's Full
    sched = dict(kind='phased', seed=rng.randrange(10**9), tw=0.1 if timeout else 0.0, phases=[dict(tids=prods), dict(tids=rest)])
  elif mode == 1:    # consumers ahead: `get_nowait` meets the backend's Empty
    sched = dict(kind='phased', seed=rng.randrange(10**9), tw=0.1 if timeout else 0.0, phases=[dict(tids=rest), dict(tids=prods)])
  else:
    sched = dict(kind='random' if mode == 2 else 'pct', seed=rng.randrange(10**9), tw=0.1,
                 changes=rng.randrange(1, 6), horizon=rng.choice([50, 150, 400]))
  return dict(cap=cap, max_enq=0 if undeclared else nprod, timeout=timeout, backend=b, threads=ths, sched=sched)


def sync_arm_list():
  return [(b, bd) for b, d in BACKENDS.items() for bd in d['bounded']]


COV = collections.Counter()       # main process: what the runs of this check exercised, per arm
VERDICT = collections.Counter()   # main process: disagreements / new oracle failures seen (coverage is then not enforced)


def note_run(case, obs, api='sync'):
  """called (main process) for every run: which arm, and did it meet the backend's Full / Empty?"""
  if not isinstance(obs, dict) or 'trace' not in obs:
    return
  a = arm(case, api)
  COV[a] += 1
  labels = {l for _, l in obs['trace']}
  if 'wait cond2' in labels:
    COV[a + ':full'] += 1       # a producer found the buffer full and parked on the enqueue condition
  if 'wait cond1' in labels:
    COV[a + ':empty'] += 1      # a consumer found the buffer empty and parked on the dequeue condition


def required(api=('sync',)):
  req = []
  for b, d in BACKENDS.items():
    for bd in d['bounded']:
      for a in api:
        k = f'{b}/{"bounded" if bd else "unbounded"}/{a}'
        req += [k, k + ':empty'] + ([k + ':full'] if bd else [])
  return req


def enforce(ctx, api=('sync',), extra_required=()):
  """Coverage promise per backend x bounded/unbounded x API: every arm ran, met Empty, and (bounded) met Full.  A
  coverage guard must never mask a verdict: not enforced when a disagreement / new oracle failure was seen."""
  from harness.core import InfraError
  ctx.hist['backend'] = dict(sorted(COV.items()))
  missing = [k for k in list(required(api)) + list(extra_required) if not COV.get(k)]
  ctx.notes.append(f'backends: {len(required(api)) + len(extra_required)} arms promised (backend x bounded/unbounded x API, each with the '
                   f"backend's Empty met, bounded ones with its Full met), missing {missing}")
  if sum(VERDICT.values()) or ctx.extra_disagreements or ctx.extra_oracle_failures:
    ctx.notes.append(f'backend coverage not enforced: {dict(VERDICT)} (a verdict is reported instead)')
    return
  if missing:
    raise InfraError(f'{ctx.pid}: promised backend arms not exercised: {missing}')
