"""Queue BACKENDS of `IteratorQueue` (round 10, package SC04b) -- used by C04 / C05.

The buffer under `IteratorQueue` is a constructor PARAMETER (`queue_or_size`): an int makes the class build its default
(`queue.SimpleQueue()` / `queue.Queue(n)`; `AsyncIteratorQueue`: `asyncio.Queue(n)`), anything else is taken as is -- a
`queue.Queue`, a `queue.SimpleQueue`, an `asyncio.Queue`, or any object with `put_nowait` / `get_nowait` / `empty`
(`_QueueLike`).  Each backend signals "full" / "empty" with ITS OWN exception classes:

    queue.Queue(n)        put_nowait on a full buffer -> queue.Full          get_nowait on an empty one -> queue.Empty
    queue.SimpleQueue()   never full                                        get_nowait on an empty one -> queue.Empty
    asyncio.Queue(n)      put_nowait on a full buffer -> asyncio.QueueFull   get_nowait on an empty one -> asyncio.QueueEmpty

The Lean LTS (`Model/Queue.lean`) is backend-independent (an abstract FIFO with capacity; the contract it assumes is
`Model/QueueBackend.lean`), so the schedule-replay tie of `lib_queue` must hold for EVERY backend.  This file provides

  * scheduler shims of the three backends (every `put_nowait` / `get_nowait` / `empty` is a yield point of
    `harness/sched/shim.py`, labelled as the LTS labels them) raising the REAL exception classes of their backend, plus
    protocol-minimal duck-typed buffers (exactly the three methods of `_QueueLike`);
  * `make_queue(iter_utils, sched, case)`: builds the queue object of a case for every way the constructors accept one;
  * `patched(sched, modules)`: `shim.patched` + an `asyncio` facade whose `Queue` is the shim (so that
    `AsyncIteratorQueue(n)` -- `_default_queue` -> `asyncio.Queue(maxsize=n)` -- gets a scheduler-driven buffer);
  * `contract_cases` / `run_contract`: the SAME random operation sequences on the real CPython object, on the shim and on
    the Lean `Backend` instance (driver model "queuebackend"): value / exception class of every call must agree;
  * `real_thread_runs`: the real, un-shimmed backends under OS threads (producers first), checked by the C04 oracle;
  * the deterministic event loop and the runner of the async API (`async_enqueue_from_iterator`, `async for`,
    `async_get`, `async_get_batch`): see `run_async`.
"""
import asyncio
import collections
import queue as _real_queue
import types as _types

from harness.sched import shim

# ---------------------------------------------------------------------------------------------- backends

# name -> (family of exception classes, may be bounded, how it reaches the queue)
#   'default'             IteratorQueue(n)                      -> SimpleQueue() / Queue(n) built by _default_queue
#   'queue.Queue'         IteratorQueue(queue.Queue(n))         object passed in
#   'queue.SimpleQueue'   IteratorQueue(queue.SimpleQueue())    object passed in (never bounded)
#   'asyncio.Queue'       IteratorQueue(asyncio.Queue(n))       object passed in
#   'AsyncIteratorQueue'  AsyncIteratorQueue(n)                 asyncio.Queue(n) built by _default_queue (no max_enqueuer)
#   'from_queue'          IteratorQueue.from_queue(asyncio.Queue(n))   the classmethod constructor
#   'duck' / 'duck_async' an object with exactly put_nowait / get_nowait / empty raising queue.* / asyncio.Queue* classes
BACKENDS = {
    'default': dict(family='queue', bounded=(False, True)),
    'queue.Queue': dict(family='queue', bounded=(False, True)),
    'queue.SimpleQueue': dict(family='queue', bounded=(False,)),
    'asyncio.Queue': dict(family='asyncio', bounded=(False, True)),
    'AsyncIteratorQueue': dict(family='asyncio', bounded=(False, True)),
    'from_queue': dict(family='asyncio', bounded=(False, True)),
    'duck': dict(family='queue', bounded=(False, True)),
    'duck_async': dict(family='asyncio', bounded=(False, True)),
}
FAMILY = {
    'queue': (_real_queue.Full, _real_queue.Empty),
    'asyncio': (asyncio.QueueFull, asyncio.QueueEmpty),
}
# backends whose queue class has no `max_enqueuer` argument: the producer count cannot be declared (model: max_enq = 0)
UNDECLARED = ('AsyncIteratorQueue', 'from_queue')


def arms(api=('sync',)):
  """the coverage arms: backend x bounded/unbounded x API"""
  return [f'{b}/{"bounded" if bd else "unbounded"}/{a}' for b, d in BACKENDS.items() for bd in d['bounded'] for a in api]


def arm(case, api='sync'):
  return f"{case.get('backend') or 'default'}/{'bounded' if case['cap'] else 'unbounded'}/{api}"


class FifoShim:
  """An atomic FIFO with capacity whose three non-blocking calls are scheduler yield points (labels as in the LTS:
  `get_nowait q1`, `put_nowait q1`, `empty q1`) and which raises the exception classes of ITS backend."""
  FULL, EMPTY = _real_queue.Full, _real_queue.Empty

  def __init__(self, sched, maxsize=0, name='q1'):
    self._s, self.name, self._maxsize = sched, name, maxsize
    self._items = collections.deque()

  def _is_full(self):
    return self._maxsize > 0 and len(self._items) >= self._maxsize

  def get_nowait(self):
    def eff(alt):
      if not self._items:
        raise self.EMPTY()
      return self._items.popleft()
    return self._s.op(f'get_nowait {self.name}', lambda: True, eff)

  def put_nowait(self, v):
    def eff(alt):
      if self._is_full():
        raise self.FULL()
      self._items.append(v)
    return self._s.op(f'put_nowait {self.name}', lambda: True, eff)

  def empty(self):
    return self._s.op(f'empty {self.name}', lambda: True, lambda alt: not self._items)


class QueueShim(FifoShim):
  """queue.Queue(maxsize): maxsize <= 0 is unbounded; queue.Full / queue.Empty"""

  @property
  def maxsize(self):
    return self._maxsize

  def qsize(self):
    return len(self._items)

  def full(self):
    return self._is_full()


class SimpleQueueShim(FifoShim):
  """queue.SimpleQueue(): no capacity at all, put_nowait never raises; queue.Empty"""

  def __init__(self, sched, name='q1'):
    super().__init__(sched, 0, name)

  def qsize(self):
    return len(self._items)


class AsyncioQueueShim(QueueShim):
  """asyncio.Queue(maxsize): asyncio.QueueFull / asyncio.QueueEmpty (the blocking coroutines get / put are not used by
  IteratorQueue and are deliberately absent: a call would be an AttributeError, not a silent hang)"""
  FULL, EMPTY = asyncio.QueueFull, asyncio.QueueEmpty


class _Duck:
  """exactly the `_QueueLike` protocol: put_nowait / get_nowait / empty, nothing else (no qsize / full / maxsize)"""
  __slots__ = ('_f',)

  def __init__(self, fifo):
    self._f = fifo

  def get_nowait(self):
    return self._f.get_nowait()

  def put_nowait(self, v):
    return self._f.put_nowait(v)

  def empty(self):
    return self._f.empty()


def asyncio_module(sched):
  """facade of `asyncio` for the repo module: everything is the real thing except `Queue`"""
  m = _types.ModuleType('asyncio_shim')
  for k in dir(asyncio):
    if not k.startswith('__'):
      setattr(m, k, getattr(asyncio, k))
  m.Queue = lambda maxsize=0: AsyncioQueueShim(sched, maxsize, 'q1')
  return m


class patched(shim.patched):
  """`shim.patched` (threading / queue / futures) + the asyncio facade"""

  def __enter__(self):
    super().__enter__()
    fac = asyncio_module(self.sched)
    for mod in self.modules:
      if hasattr(mod, 'asyncio'):
        self.saved.append((mod, 'asyncio', mod.asyncio))
        mod.asyncio = fac
    return self


def make_queue(iter_utils, sched, case, timeout, **kw):
  """The queue of a case, built the way `case['backend']` says (inside `patched`)."""
  b = case.get('backend') or 'default'
  cap = case['cap']
  if b not in BACKENDS:
    raise ValueError(f'unknown backend {b}')
  if cap and True not in BACKENDS[b]['bounded']:
    raise ValueError(f'backend {b} cannot be bounded')
  if b == 'default':
    return iter_utils.IteratorQueue(cap, max_enqueuer=case['max_enq'], timeout=timeout, **kw)
  if b == 'AsyncIteratorQueue':
    assert case['max_enq'] == 0, 'AsyncIteratorQueue has no max_enqueuer argument'
    return iter_utils.AsyncIteratorQueue(cap, timeout=timeout, **kw)
  if b == 'from_queue':
    assert case['max_enq'] == 0, 'from_queue has no max_enqueuer argument'
    return iter_utils.IteratorQueue.from_queue(AsyncioQueueShim(sched, cap), timeout=timeout)
  buf = {
      'queue.Queue': lambda: QueueShim(sched, cap),
      'queue.SimpleQueue': lambda: SimpleQueueShim(sched),
      'asyncio.Queue': lambda: AsyncioQueueShim(sched, cap),
      'duck': lambda: _Duck(QueueShim(sched, cap)),
      'duck_async': lambda: _Duck(AsyncioQueueShim(sched, cap)),
  }[b]()
  return iter_utils.IteratorQueue(buf, max_enqueuer=case['max_enq'], timeout=timeout, **kw)


# ---------------------------------------------------------------------------------------------- contract check

REAL = {
    'queue.Queue': lambda cap: _real_queue.Queue(cap),
    'queue.SimpleQueue': lambda cap: _real_queue.SimpleQueue(),
    'asyncio.Queue': lambda cap: asyncio.Queue(cap),
}
_CLS = {_real_queue.Full: 'queue.Full', _real_queue.Empty: 'queue.Empty',
        asyncio.QueueFull: 'asyncio.QueueFull', asyncio.QueueEmpty: 'asyncio.QueueEmpty'}


def contract_cases(rng, n):
  """random single-threaded operation sequences on a backend: ['put', v] | ['get'] | ['empty']"""
  out = []
  for k in range(n):
    b = ['queue.Queue', 'queue.SimpleQueue', 'asyncio.Queue'][k % 3]
    cap = 0 if b == 'queue.SimpleQueue' else rng.choice([0, 1, 1, 2, 3])
    ops = []
    for i in range(rng.randrange(1, 14)):
      r = rng.random()
      ops.append(['put', 10 * k + i] if r < 0.5 else ['get'] if r < 0.85 else ['empty'])
    out.append(dict(backend=b, cap=cap, ops=ops))
  return out


def _drive(q, ops):
  res = []
  for op in ops:
    try:
      if op[0] == 'put':
        q.put_nowait(op[1])
        res.append(['ok'])
      elif op[0] == 'get':
        res.append(['val', q.get_nowait()])
      else:
        res.append(['bool', bool(q.empty())])
    except BaseException as e:  # pylint: disable=broad-except
      res.append(['raise', _CLS.get(type(e), type(e).__module__ + '.' + type(e).__name__)])
  return res


def run_contract(case):
  """the same operations on the REAL CPython backend and on its scheduler shim (driven from an unmanaged thread: every
  operation executes immediately)"""
  sched = shim.Scheduler(lambda opts, s: 0)
  mk = {'queue.Queue': lambda: QueueShim(sched, case['cap']), 'queue.SimpleQueue': lambda: SimpleQueueShim(sched),
        'asyncio.Queue': lambda: AsyncioQueueShim(sched, case['cap'])}[case['backend']]
  return dict(real=_drive(REAL[case['backend']](case['cap']), case['ops']), shim=_drive(mk(), case['ops']))


def contract_request(case):
  return dict(model='queuebackend', op='run', backend=case['backend'], cap=case['cap'], ops=case['ops'])


# ---------------------------------------------------------------------------------------------- case generation / coverage

def gen_backend_case(rng, k, b, bounded, maxlen, fail_p=0.0, stopper=None, timeout=False):
  """One schedule-replay case of `lib_queue` on backend `b` (k = running index: the schedule kind rotates).  Bounded
  cases have a source longer than the capacity; a quarter of the schedules are PHASED producers-first (the producers run
  until every one of them is parked on the full buffer or done; only then the consumers start), so that `put` finds the
  buffer full; a quarter consumers-first (they find the buffer empty); the rest seeded uniform-random / PCT."""
  cap = rng.choice([1, 1, 2, 3]) if bounded else 0
  undeclared = b in UNDECLARED
  nprod = 1 if undeclared else rng.randrange(1, 4)
  ncons = rng.randrange(1, 3)
  ths = []
  for p in range(nprod):
    n = rng.randrange(0, maxlen + 1)
    if bounded and p == 0:
      n = max(n, min(cap + rng.randrange(1, 3), maxlen + 2))
    src = [p * 100 + i for i in range(n)]
    if fail_p and rng.random() < fail_p:
      src.insert(rng.randrange(0, n + 1), 'fail')
    ths.append(dict(kind='producer', src=src, ret=900 + p))
  for _ in range(ncons):
    if rng.random() < 0.5:
      ths.append(dict(kind='batch', max=rng.choice([1, 2, 3, 1024]), block=rng.random() < 0.4))
    else:
      ths.append(dict(kind='get'))
  if stopper is not None:
    ths.append(stopper)
  prods, rest = list(range(nprod)), list(range(nprod, len(ths)))
  mode = k % 4
  if mode == 0:      # producers ahead: `put` meets the backend's Full
    sched = dict(kind='phased', seed=rng.randrange(10**9), tw=0.1 if timeout else 0.0, phases=[dict(tids=prods), dict(tids=rest)])
  elif mode == 1:    # consumers ahead: `get_nowait` meets the backend's Empty
    sched = dict(kind='phased', seed=rng.randrange(10**9), tw=0.1 if timeout else 0.0, phases=[dict(tids=rest), dict(tids=prods)])
  else:
    sched = dict(kind='random' if mode == 2 else 'pct', seed=rng.randrange(10**9), tw=0.1,
                 changes=rng.randrange(1, 6), horizon=rng.choice([50, 150, 400]))
  return dict(cap=cap, max_enq=0 if undeclared else nprod, timeout=timeout, backend=b, threads=ths, sched=sched)


def sync_arm_list():
  return [(b, bd) for b, d in BACKENDS.items() for bd in d['bounded']]


COV = collections.Counter()       # main process: what the runs of this check exercised, per arm
VERDICT = collections.Counter()   # main process: disagreements / new oracle failures seen (coverage is then not enforced)


def note_run(case, obs, api='sync'):
  """called (main process) for every run: which arm, and did it meet the backend's Full / Empty?"""
  if not isinstance(obs, dict) or 'trace' not in obs:
    return
  a = arm(case, api)
  COV[a] += 1
  labels = {l for _, l in obs['trace']}
  if 'wait cond2' in labels:
    COV[a + ':full'] += 1       # a producer found the buffer full and parked on the enqueue condition
  if 'wait cond1' in labels:
    COV[a + ':empty'] += 1      # a consumer found the buffer empty and parked on the dequeue condition


def required(api=('sync',)):
  req = []
  for b, d in BACKENDS.items():
    for bd in d['bounded']:
      for a in api:
        k = f'{b}/{"bounded" if bd else "unbounded"}/{a}'
        req += [k, k + ':empty'] + ([k + ':full'] if bd else [])
  return req


def enforce(ctx, api=('sync',), extra_required=()):
  """Coverage promise per backend x bounded/unbounded x API: every arm ran, met Empty, and (bounded) met Full.  A
  coverage guard must never mask a verdict: not enforced when a disagreement / new oracle failure was seen."""
  from harness.core import InfraError
  ctx.hist['backend'] = dict(sorted(COV.items()))
  missing = [k for k in list(required(api)) + list(extra_required) if not COV.get(k)]
  ctx.notes.append(f'backends: {len(required(api)) + len(extra_required)} arms promised (backend x bounded/unbounded x API, each with the '
                   f"backend's Empty met, bounded ones with its Full met), missing {missing}")
  if sum(VERDICT.values()) or ctx.extra_disagreements or ctx.extra_oracle_failures:
    ctx.notes.append(f'backend coverage not enforced: {dict(VERDICT)} (a verdict is reported instead)')
    return
  if missing:
    raise InfraError(f'{ctx.pid}: promised backend arms not exercised: {missing}')


def contract_oracle(case, obs):
  """The contract itself (written from the documentation of the three backends): an atomic FIFO with capacity that
  raises ITS Full exactly on a full buffer and ITS Empty exactly on an empty one -- evaluated on the REAL object."""
  full, empty = FAMILY['asyncio' if case['backend'] == 'asyncio.Queue' else 'queue']
  cap = 0 if case['backend'] == 'queue.SimpleQueue' else case['cap']
  buf = []
  for op, r in zip(case['ops'], obs['real']):
    if op[0] == 'put':
      want = ['raise', _CLS[full]] if cap > 0 and len(buf) >= cap else ['ok']
      if want == ['ok']:
        buf.append(op[1])
    elif op[0] == 'get':
      want = ['val', buf.pop(0)] if buf else ['raise', _CLS[empty]]
    else:
      want = ['bool', not buf]
    if r != want:
      return f"real {case['backend']}({case['cap']}): {op} answered {r}, the documented contract says {want}"
  return None


def contract_compare(obs, m):
  if obs['real'] != obs['shim']:
    return f"scheduler shim differs from the real CPython backend: real {obs['real']} shim {obs['shim']}"
  if obs['real'] != m['results']:
    return f"Lean Backend instance differs from the real CPython backend: real {obs['real']} lean {m['results']}"
  return None


# ---------------------------------------------------------------------------------------------- the table read off the source

def table_check(ctx, iter_utils_path):
  """Validates `Generated/QueueExc.lean` (read by translate/queue_exc.py) against Python's own semantics: every `except`
  expression of the four sites is EVALUATED in the namespace of the imported module and real exception classes are
  dispatched with `issubclass`; the Lean side answers with `dispatch` over the generated table (driver op "table").  Also
  the buffers `_default_queue` really builds.  Returns a list of mismatches."""
  import ast
  import importlib
  import os
  import sys
  tdir = os.path.join(os.path.dirname(os.path.dirname(os.path.abspath(__file__))), 'translate')
  if tdir not in sys.path:
    sys.path.insert(0, tdir)
  qx = importlib.import_module('queue_exc')
  from ml_metrics._src.utils import iter_utils

  class _Other(Exception):
    pass
  real = {'queue.Empty': _real_queue.Empty, 'queue.Full': _real_queue.Full, 'asyncio.QueueEmpty': asyncio.QueueEmpty,
          'asyncio.QueueFull': asyncio.QueueFull, 'StopIteration': StopIteration, 'TimeoutError': TimeoutError,
          'ValueError': ValueError, 'OtherException': _Other, 'Exception': Exception, 'BaseException': BaseException}
  lean = ctx.lean.ask_many([dict(model='queuebackend', op='table')])[0]
  bad = []
  tree = ast.parse(open(iter_utils_path).read())
  for field, meth, call in qx.SITES:
    fn = qx.method(tree, 'IteratorQueue', meth)
    tr = qx.find_try(fn, call) if fn is not None else None
    if tr is None:
      bad.append(f'{field}: no try statement around {call} found in IteratorQueue.{meth}')
      continue
    tuples = []
    for h in tr.handlers:
      t = BaseException if h.type is None else eval(compile(ast.Expression(body=h.type), '<except>', 'eval'), vars(iter_utils))  # pylint: disable=eval-used
      tuples.append(t)
    clauses = lean[field]['clauses']
    if len(clauses) != len(tuples):
      bad.append(f'{field}: {len(tuples)} except clauses in the source, {len(clauses)} in the generated table')
      continue
    for name, cls in real.items():
      idx = next((i for i, t in enumerate(tuples) if issubclass(cls, t)), None)
      want = None if idx is None else clauses[idx]['role']
      got = lean[field]['dispatch'][name]
      ctx.count('backend_table', f'{field}:{name}->{got}')
      if got != want:
        bad.append(f'{field}: Python dispatches {name} to clause {idx} ({want}), the generated table to {got}')
  kinds = {_real_queue.SimpleQueue: 'queue.SimpleQueue', _real_queue.Queue: 'queue.Queue', asyncio.Queue: 'asyncio.Queue'}
  for n in range(4):
    for key, cls in (('defaultSync', iter_utils.IteratorQueue), ('defaultAsync', iter_utils.AsyncIteratorQueue)):
      built = kinds.get(type(cls._default_queue(n)), 'unknown')    # pylint: disable=protected-access
      if built != lean[key][n]:
        bad.append(f'{cls.__name__}._default_queue({n}) builds {built}, the generated table says {lean[key][n]}')
  for b, ok in lean['classified'].items():
    ctx.count('backend_table', f'classified:{b}={ok}')
  return bad


# ---------------------------------------------------------------------------------------------- real backends, OS threads

REAL_THREAD_CONFIGS = [
    ('IteratorQueue(2)', 'default', 2, 2), ('IteratorQueue(queue.Queue(2))', 'queue.Queue', 2, 2),
    ('IteratorQueue(queue.SimpleQueue())', 'queue.SimpleQueue', 0, 2),
    ('IteratorQueue(asyncio.Queue(1))', 'asyncio.Queue', 1, 2), ('IteratorQueue(asyncio.Queue())', 'asyncio.Queue', 0, 2),
    ('AsyncIteratorQueue(2)', 'AsyncIteratorQueue', 2, 1), ('AsyncIteratorQueue(0)', 'AsyncIteratorQueue', 0, 1),
    ('IteratorQueue.from_queue(asyncio.Queue(2))', 'from_queue', 2, 1),
]


def real_thread_cases(rng):
  out = []
  for label, b, cap, nprod in REAL_THREAD_CONFIGS:
    out.append(dict(kind='real_threads', label=label, backend=b, cap=cap, nprod=nprod, n=rng.randrange(8, 16),
                    consumer=rng.choice(['get', 'batch', 'iter'])))
  return out


def run_real_threads(case, deadline=60.0):
  """The REAL, un-shimmed backend under OS threads: the producers start first and the consumer only once the buffer has
  been filled (`q.progress.cnt` = number of elements enqueued so far reaches the capacity), so a producer finds the
  buffer full.  Any interleaving is legal; the run is judged by the C04 oracle (exactly once, order, end of stream)."""
  import logging
  import threading
  import time
  from ml_metrics._src.utils import iter_utils
  logging.disable(logging.CRITICAL)
  b, cap, nprod, n = case['backend'], case['cap'], case['nprod'], case['n']
  if b == 'default':
    q = iter_utils.IteratorQueue(cap, max_enqueuer=nprod)
  elif b == 'AsyncIteratorQueue':
    q = iter_utils.AsyncIteratorQueue(cap)
  elif b == 'from_queue':
    q = iter_utils.IteratorQueue.from_queue(asyncio.Queue(cap))
  else:
    q = iter_utils.IteratorQueue(REAL[b](cap), max_enqueuer=nprod)
  errors, received, outcome = {}, [], {}

  def gen(p):
    for i in range(n):
      yield p * 100 + i
    return 900 + p

  def produce(p):
    try:
      q.enqueue_from_iterator(gen(p))
    except BaseException as e:  # pylint: disable=broad-except
      errors[p] = type(e).__module__ + '.' + type(e).__name__

  def consume():
    try:
      if case['consumer'] == 'get':
        while True:
          received.append(q.get())
      elif case['consumer'] == 'batch':
        while True:
          received.extend(q.get_batch())
      else:
        it = iter(q)
        while True:
          received.append(next(it))
    except StopIteration as e:
      outcome['stop'] = list(e.args)
    except BaseException as e:  # pylint: disable=broad-except
      outcome['error'] = type(e).__module__ + '.' + type(e).__name__
  ps = [threading.Thread(target=produce, args=(p,), daemon=True) for p in range(nprod)]
  for t in ps:
    t.start()
  t0 = time.time()
  while cap and q.progress.cnt < cap and time.time() - t0 < 5.0 and any(t.is_alive() for t in ps):
    time.sleep(0.002)
  time.sleep(0.02)
  c = threading.Thread(target=consume, daemon=True)
  c.start()
  c.join(deadline)
  blocked = ['consumer'] if c.is_alive() else []
  for p, t in enumerate(ps):
    t.join(1.0 if blocked else deadline)
    if t.is_alive():
      blocked.append(f'producer {p}')
  logging.disable(logging.NOTSET)
  return dict(received=list(received), outcome=dict(outcome), errors={str(k): v for k, v in errors.items()}, blocked=blocked)


def real_threads_oracle(case, obs):
  lab = case['label']
  if obs['blocked']:
    return f'{lab}: still blocked after the deadline: {obs["blocked"]}'
  if obs['errors']:
    return f'{lab}: producers raised {obs["errors"]} (no source failed, no stop request)'
  if 'error' in obs['outcome']:
    return f'{lab}: the consumer ended with {obs["outcome"]["error"]} instead of the end of the stream'
  want = sorted(p * 100 + i for p in range(case['nprod']) for i in range(case['n']))
  if sorted(obs['received']) != want:
    return f'{lab}: delivered {sorted(obs["received"])} != produced {want}'
  for p in range(case['nprod']):
    sub = [v for v in obs['received'] if v // 100 == p]
    if sub != sorted(sub):
      return f'{lab}: producer {p} received out of order: {sub}'
  if sorted(obs['outcome'].get('stop', [])) != [900 + p for p in range(case['nprod'])]:
    return f'{lab}: end of stream carries {obs["outcome"].get("stop")}'
  return None


# ---------------------------------------------------------------------------------------------- dispatch by case kind

def kind(case):
  return case.get('kind') or 'schedule'


def run_impl(case, run_schedule):
  k = kind(case)
  if k == 'contract':
    return run_contract(case)
  if k == 'real_threads':
    return run_real_threads(case)
  if k == 'async':
    return run_async(case)
  return run_schedule(case)


def note_kind(case, obs):
  k = kind(case)
  if k == 'contract':
    COV['contract:' + case['backend']] += 1
    for r in obs['real']:
      if r[0] == 'raise':
        COV[f"contract:{case['backend']}:{r[1]}"] += 1
  elif k == 'real_threads':
    COV['real_threads:' + case['label']] += 1
  elif k == 'async':
    note_async(case, obs)


CONTRACT_REQUIRED = ['contract:queue.Queue:queue.Full', 'contract:queue.Queue:queue.Empty', 'contract:queue.SimpleQueue:queue.Empty',
                     'contract:asyncio.Queue:asyncio.QueueFull', 'contract:asyncio.Queue:asyncio.QueueEmpty']


# ---------------------------------------------------------------------------------------------- the async API

import selectors as _selectors   # noqa: E402


class _DetSelector(_selectors.SelectSelector):
  """The event loop's only blocking point.  With callbacks ready (timeout 0) it polls nothing and returns; idle, it is
  a scheduler yield point `loop_wait`, enabled once another thread has handed the loop a callback
  (`call_soon_threadsafe`, e.g. the completion of a `run_in_executor` job).  A pending timer is not waited for: the
  virtual clock jumps to it."""

  def __init__(self, sched):
    super().__init__()
    self._sched, self.loop = sched, None

  def select(self, timeout=None):
    loop = self.loop
    if timeout is not None and timeout <= 0:
      return []
    if timeout is not None and not loop._ready:     # pylint: disable=protected-access
      loop.clock += timeout
      return []
    self._sched.op('loop_wait', lambda: bool(loop._ready), lambda alt: None)   # pylint: disable=protected-access
    return []


class DetLoop(asyncio.SelectorEventLoop):
  """A deterministic event loop: virtual clock (`time()`), no real waiting (see `_DetSelector`), executor jobs are
  managed threads of the scheduler."""

  def __init__(self, sched, executor):
    sel = _DetSelector(sched)
    self.clock = 0.0
    super().__init__(selector=sel)
    sel.loop = self
    self._det_executor = executor

  def time(self):
    return self.clock

  def _write_to_self(self):
    pass      # the wake-up of an idle loop is the scheduler's business: `loop_wait` becomes enabled

  def run_in_executor(self, executor, func, *args):
    return super().run_in_executor(executor if executor is not None else self._det_executor, func, *args)


class _OwnedExecutor(shim.ThreadPoolExecutor):
  """executor jobs are managed threads; each remembers the LOGICAL thread (asyncio task) that submitted it"""

  def __init__(self, sched, owner, current):
    super().__init__(sched, thread_name_prefix='pool')
    self._owner, self._current = owner, current

  def submit(self, fn, *args, **kwargs):
    lid = self._current()
    n = len(self._s.threads)
    fut = super().submit(fn, *args, **kwargs)
    for t in self._s.threads[n:]:
      self._owner[t.tid] = lid
    return fut


LTS_LABEL = ('acquire ', 'release ', 'wait ', 'wake ', 'notify ', 'notify_all ', 'get_nowait ', 'put_nowait ', 'empty ')
ASYNC_BUFFERS = {None: (False, True), 'queue.Queue': (False, True), 'queue.SimpleQueue': (False,),
                 'asyncio.Queue': (False, True), 'duck_async': (False, True)}


def async_arm(case):
  return f"AsyncIteratorQueue[{case.get('abackend') or 'int'}]/{'bounded' if case['cap'] else 'unbounded'}/async"


def async_required():
  req = []
  for b, bds in ASYNC_BUFFERS.items():
    for bd in bds:
      k = f"AsyncIteratorQueue[{b or 'int'}]/{'bounded' if bd else 'unbounded'}/async"
      req += [k, k + ':empty'] + ([k + ':full'] if bd else [])
  return req + ['async_api:async_enqueue_from_iterator', 'async_api:async_for', 'async_api:anext', 'async_api:async_get',
                'async_api:async_get_batch', 'async_api:sync']


def gen_async_case(rng, k, abackend, bounded, maxlen):
  """An AsyncIteratorQueue (buffer `abackend`: an int, or an object passed in) with ONE producer (the class has no
  max_enqueuer argument) and 1-2 consumers; every thread uses the async API (a task of the one event loop) or the sync
  one (a thread), rotating; schedules: producers-first / consumers-first (by LOGICAL thread) / random / PCT."""
  cap = rng.choice([1, 1, 2]) if bounded else 0
  n = rng.randrange(cap + 1, maxlen + 3) if bounded else rng.randrange(1 if k % 4 == 1 else 0, maxlen + 1)
  max_batch = rng.choice([1, 2, 3, 4096])
  ths = [dict(kind='producer', src=list(range(n)), ret=900, api='sync' if k % 5 == 4 else 'async')]
  for j in range(rng.randrange(1, 3)):
    api = ['async_for', 'anext', 'async_get', 'async_get_batch', 'sync'][(k + j) % 5]
    if api == 'async_get':
      ths.append(dict(kind='get', api=api))
    elif api == 'sync':
      ths.append(dict(kind='get', api=api) if rng.random() < 0.5 else
                 dict(kind='batch', max=rng.choice([1, 2, 1024]), block=rng.random() < 0.4, api=api))
    else:
      ths.append(dict(kind='batch', max=max_batch, block=False, api=api))
  mode = k % 4
  sched = dict(kind=['producers_first', 'consumers_first', 'random', 'pct'][mode], seed=rng.randrange(10**9),
               changes=rng.randrange(1, 6), horizon=rng.choice([50, 150, 400]))
  return dict(kind='async', cap=cap, max_enq=0, timeout=False, abackend=abackend, max_batch=max_batch, threads=ths, sched=sched)


def gen_async_fault_case(rng, k, abackend, bounded, maxlen):
  """as gen_async_case, with one C05 event: the async producer's source raises / a sync thread calls maybe_stop() /
  maybe_stop(ValueError); sources long enough that a producer which does not stop is seen still pulling"""
  case = gen_async_case(rng, k, abackend, bounded, maxlen)
  ev = ['fail', 'stop', 'excstop'][k % 3]
  src = list(range(rng.randrange(4, maxlen + 4)))
  if ev == 'fail':
    src.insert(rng.randrange(0, len(src)), 'fail')
  else:
    case['threads'].append(dict(kind='stopper', api='sync', **(dict(exc='ValueError') if ev == 'excstop' else {})))
  case['threads'][0]['src'] = src
  case['event'] = ev
  case['sched'] = dict(kind=['random', 'pct', 'producers_first'][(k // 3) % 3], seed=rng.randrange(10**9),
                       changes=rng.randrange(1, 6), horizon=rng.choice([50, 150, 400]))
  return case


def _logical_chooser(spec, record, logical_of, first):
  """prefers, among the enabled normal options, those of the logical threads in `first` (the loop thread, which all
  tasks share, belongs to every group)"""
  import random
  rng = random.Random(spec['seed'])

  def choose(opts, sched):
    record.append([[t, a] for t, a in opts])
    normal = [i for i, (_, a) in enumerate(opts) if a is None] or list(range(len(opts)))
    pref = [i for i in normal if logical_of(opts[i][0]) in first or logical_of(opts[i][0]) is None]
    return rng.choice(pref or normal)
  return choose


def run_async(case, max_steps=8000):
  """The REAL AsyncIteratorQueue with its async API on a deterministic event loop.  Managed threads: tid 0 = the event
  loop (every async logical thread is a task of it); then one thread per sync logical thread; then one per executor job
  (`run_in_executor` of async_put / async_get / async_get_batch).  Every operation of the trace is attributed to its
  LOGICAL thread (index in case['threads']); `projected` = the operations of the LTS alphabet with their logical thread:
  the await points and the executor hand-overs are invisible, the synchronisation operations are the LTS's."""
  import logging
  from ml_metrics._src.utils import iter_utils
  from harness import lib_queue as lq
  logging.disable(logging.CRITICAL)
  rec = []
  owner = {}            # tid of an executor job / sync thread -> logical thread
  attr = {}             # trace index -> logical thread, for operations of the loop thread
  cur = [None]          # logical thread of the task the loop thread is executing
  nth = len(case['threads'])
  prods = {i for i, p in enumerate(case['threads']) if p['kind'] == 'producer'}

  def logical_of(tid):
    if tid == 0:      # the loop thread: the task it is executing (idle / plumbing: nobody's)
      pend = sched.threads[0].pending
      return cur[0] if pend is not None and pend.label in ('task_start', 'next') or (pend is not None and pend.label.startswith(LTS_LABEL)) else None
    return owner.get(tid)
  sk = case['sched']['kind']
  if sk in ('producers_first', 'consumers_first'):
    chooser = _logical_chooser(case['sched'], rec, logical_of, prods if sk == 'producers_first' else set(range(nth)) - prods)
  else:
    chooser = lq.make_chooser(case['sched'], rec)
  sched = shim.Scheduler(chooser, max_steps=max_steps)
  orig_op = sched.op

  def op(label, enabled, effect, alts=None):
    t = sched.current()
    if t is not None and t.tid == 0:
      lid = cur[0]

      def eff(alt):
        attr[len(sched.trace) - 1] = lid
        return effect(alt)
      return orig_op(label, enabled, eff, alts)
    return orig_op(label, enabled, effect, alts)
  sched.op = op
  outcomes, injected = {}, []

  def ended(i, got, e):
    if isinstance(e, shim._Killed):      # pylint: disable=protected-access
      raise e
    if isinstance(e, StopAsyncIteration):      # the async spelling of the end of the stream
      outcomes[i] = dict(received=got, outcome={'raise': 'StopIteration', 'args': list(e.args)},
                         exc=dict(cls='StopIteration', same=False))
      return
    o, info = lq.exc_obs(e, injected)
    outcomes[i] = dict(received=got, outcome=o, exc=info)

  class ASource:
    def __init__(self, items, ret):
      self.items, self.ret, self.i = list(items), ret, 0

    def __aiter__(self):
      return self

    async def __anext__(self):
      sched.step('next')
      if self.i >= len(self.items):
        raise StopAsyncIteration(self.ret)
      self.i += 1
      it = self.items[self.i - 1]
      if lq.is_fail(it):
        e = lq.FAULTS[it](f'source failed at {self.i - 1}')
        injected.append(e)
        raise e
      return it

  with patched(sched, [iter_utils]):
    pool = _OwnedExecutor(sched, owner, lambda: cur[0])
    ab, cap = case.get('abackend'), case['cap']
    buf = cap if ab is None else {
        'queue.Queue': lambda: QueueShim(sched, cap), 'queue.SimpleQueue': lambda: SimpleQueueShim(sched),
        'asyncio.Queue': lambda: AsyncioQueueShim(sched, cap), 'duck_async': lambda: _Duck(AsyncioQueueShim(sched, cap))}[ab]()
    q = iter_utils.AsyncIteratorQueue(buf, thread_pool=pool, max_batch_size=case['max_batch'])

    async def logical(i, p):
      cur[0] = i
      sched.step('task_start')     # the LTS's `start` step of this logical thread
      got = []
      outcomes[i] = dict(received=got, outcome=None, running=True)
      try:
        if p['kind'] == 'producer':
          await _track(i, q.async_enqueue_from_iterator(ASource(p['src'], p['ret'])))
          outcomes[i] = dict(received=[], outcome=None)
        elif p['api'] == 'async_for':
          async for v in _tracked_iter(i, q):
            got.append(v)
          outcomes[i] = dict(received=got, outcome={'raise': 'StopIteration', 'args': list(q.returned)})
        elif p['api'] == 'anext':
          it = q.__aiter__()
          while True:
            got.append(await _track(i, it.__anext__()))
        elif p['api'] == 'async_get':
          while True:
            got.append(await _track(i, q.async_get()))
        elif p['api'] == 'async_get_batch':
          while True:
            got.extend(await _track(i, q.async_get_batch()))
      except BaseException as e:  # pylint: disable=broad-except
        ended(i, got, e)

    async def _track(i, aw):
      """awaits `aw`, restoring the logical thread whenever the task is resumed"""
      aw = aw.__await__()
      val = None
      while True:
        cur[0] = i
        try:
          fut = aw.send(val)
        except StopIteration as e:
          return e.value
        val = await _Resume(fut)

    class _Resume:
      def __init__(self, fut):
        self.fut = fut

      def __await__(self):
        return (yield self.fut)

    class _tracked_iter:
      def __init__(self, i, qq):
        self.i, self.it = i, qq.__aiter__()

      def __aiter__(self):
        return self

      async def __anext__(self):
        return await _track(self.i, self.it.__anext__())

    def loop_thread():
      loop = DetLoop(sched, pool)
      try:
        async def main():
          tasks = [loop.create_task(logical(i, p)) for i, p in enumerate(case['threads']) if p.get('api', 'sync') != 'sync']
          for t in tasks:
            await t
        loop.run_until_complete(main())
      finally:
        try:
          loop.close()
        except BaseException:  # pylint: disable=broad-except
          pass

    def sync_thread(i, p):
      got = []
      outcomes[i] = dict(received=got, outcome=None, running=True)
      try:
        if p['kind'] == 'producer':
          q.enqueue_from_iterator(lq.Source(sched, p['src'], p['ret'], injected))
          outcomes[i] = dict(received=[], outcome=None)
        elif p['kind'] == 'stopper':
          q.maybe_stop(None if p.get('exc') is None else ValueError('stop requested'))
          outcomes[i] = dict(received=[], outcome=None)
        elif p['kind'] == 'get':
          while True:
            got.append(q.get())
        else:
          while True:
            got.extend(q.get_batch(p['max'], block=p['block']))
      except BaseException as e:  # pylint: disable=broad-except
        ended(i, got, e)

    sched.spawn('loop', loop_thread)
    for i, p in enumerate(case['threads']):
      if p.get('api', 'sync') == 'sync':
        t = sched.spawn(f't{i}', sync_thread, i, p)
        owner[t.tid] = i
    err = None
    try:
      outcome = sched.run()
    except shim.SchedulerError as e:
      outcome, err = 'schedule_rejected', str(e)
  logging.disable(logging.NOTSET)
  sync_tids = {t for t, i in owner.items() if i is not None and case['threads'][i].get('api', 'sync') == 'sync'}
  projected, pchoices = [], []
  for k, ((tid, label), (_, alt)) in enumerate(zip(sched.trace, sched.choices)):
    base = label.split(':')[0]
    if tid == 0:
      lid = attr.get(k)
      keep = lid is not None and (base in ('task_start', 'next') or base.startswith(LTS_LABEL))
      label = 'start' if base == 'task_start' else label
    elif tid in sync_tids:
      lid, keep = owner[tid], True
    else:
      lid = owner.get(tid)
      keep = lid is not None and base != 'start'
    if keep:
      projected.append([lid, label])
      pchoices.append([lid, alt])
  threads = []
  for i in range(nth):
    o = outcomes.get(i)
    threads.append(dict(done=bool(o is not None and not o.get('running')), received=list((o or {}).get('received', [])),
                        outcome=(o or {}).get('outcome')))
  excs = [(outcomes.get(i) or {}).get('exc') for i in range(nth)]
  return dict(outcome=outcome, err=err, trace=projected, choices=pchoices, threads=threads, **(dict(excs=excs) if any(excs) else {}),
              raw_steps=len(sched.trace), blocked=[list(b) for b in sched.blocked],
              plumbing=sorted({l for (t, l) in sched.trace if not l.startswith(LTS_LABEL) and l not in ('start', 'next', 'task_start')}))


def async_model_request(case, obs):
  ths = []
  for p in case['threads']:
    p2 = {k: v for k, v in p.items() if k != 'api'}
    if p2['kind'] == 'producer':
      p2['src'] = ['fail' if isinstance(v, str) else v for v in p2['src']]
    ths.append(p2)
  return dict(model='queue', cap=case['cap'], max_enq=0, timeout=False, ignore_error=False, threads=ths,
              schedule=[c[0] if c[1] is None else [c[0], c[1]] for c in obs['choices']])


def async_compare(obs, r):
  """the projection of the real run onto the LTS alphabet must BE an execution of the LTS: every choice enabled, the same
  labels, the same final per-thread outcomes (the enabled SETS are not compared: between two LTS operations of a logical
  thread the real code goes through await points / executor hand-overs during which it is not offered to the scheduler)"""
  if obs['outcome'] == 'schedule_rejected':
    return f"real code rejected the schedule: {obs['err']}"
  if not r['accepted']:
    k = len(r['trace'])
    return f"model rejects projected choice #{k} {obs['choices'][k] if k < len(obs['choices']) else None} taken by the real code"
  if obs['trace'] != r['trace']:
    for k, (a, b) in enumerate(zip(obs['trace'], r['trace'])):
      if a != b:
        return f'operation #{k}: real {a} vs model {b}'
    return f"trace lengths differ: real {len(obs['trace'])} model {len(r['trace'])}"
  # The loop head of async_enqueue_from_iterator (`while not self.enqueue_done`) is read when the coroutine RESUMES, one
  # await point after `put` returned in the executor thread; the LTS fuses that read into put's last step.  A producer
  # the LTS leaves in front of its next pull (last operation: put's / _start_enqueue's final release) while the real one
  # has meanwhile seen the stop request / failure and returned is the same behaviour one read later: accepted, counted.
  late = []
  for i, (a, b) in enumerate(zip(obs['threads'], r['threads'])):
    if a != b and a['done'] and a['outcome'] is None and not b['done'] and b['outcome'] is None and a['received'] == b['received']:
      mine = [l for t, l in obs['trace'] if t == i]
      if mine and mine[-1] in ('release cond2', 'release rlock1'):
        late.append(i)
  obs['late_loop_check'] = late
  if [t for i, t in enumerate(obs['threads']) if i not in late] != [t for i, t in enumerate(r['threads']) if i not in late]:
    return f"thread outcomes differ: real {obs['threads']} vs model {r['threads']}"
  if obs['outcome'] == 'done' and not r['all_done'] and not late:
    return 'the real run ended, the model has unfinished threads'
  if obs['outcome'] == 'deadlock' and r['enabled']:
    return f"the real run is stuck, the model still has enabled choices {r['enabled']}"
  return None


def note_async(case, obs):
  a = async_arm(case)
  COV[a] += 1
  labels = {l for _, l in obs['trace']}
  if 'wait cond2' in labels:
    COV[a + ':full'] += 1
  if 'wait cond1' in labels:
    COV[a + ':empty'] += 1
  for p in case['threads']:
    COV['async_api:' + ('async_enqueue_from_iterator' if p['kind'] == 'producer' and p.get('api') == 'async' else p.get('api', 'sync'))] += 1
