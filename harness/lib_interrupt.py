"""Asynchronous exceptions (KeyboardInterrupt) delivered DETERMINISTICALLY to a managed thread (round 8, C05/C13).

No real signal is involved.  `InterruptScheduler` (a `shim.Scheduler`) offers, for the victim thread and while the
harness has armed it (`sched.arm(tid)` ... `sched.disarm()` around the victim's `next()`), one more scheduler
alternative `(tid, 'interrupt')` at the victim's yield points; when the chooser takes it, the victim's pending operation
is NOT performed and the exception is raised from inside it instead -- exactly where CPython raises a pending
KeyboardInterrupt in the main thread: on entry to / inside a blocking `lock.acquire()`, inside `Condition.wait()`, or
between two bytecodes.  At most one interrupt per run.

Where an interrupt is deliverable (stated in the evidence):
  * at every yield point of the victim EXCEPT a lock `release`: an asynchronous exception between the entry of
    `__exit__` / `finally:` and the C-level release strands the lock whatever the Python code does (the well-known
    limitation of `with` under asynchronous exceptions); it is outside the property;
  * a thread parked in `Condition.wait()` (pending `wake`) is interrupted only when the condition's lock is free:
    `wait()` re-acquires the lock in its `finally` before the exception propagates (as the timeout alternative does);
  * a thread blocked in `acquire` is interruptible whether or not the lock is free (the lock is then NOT acquired).
Labels: `<label>:interrupt`.
  * not while the victim is already handling another exception (an interrupt that lands inside an `except:` /
    `finally:` clean-up -- e.g. inside MultiplexIterator's own maybe_stop() after a producer failed -- aborts that
    clean-up: the same limitation); `queue.Empty`, which get() / get_batch() handle by waiting, does not count.
Labels: `<label>:interrupt`.
"""
import asyncio
import queue as _queue
import sys

from harness.sched import shim


def _in_cleanup():
  """is the calling thread inside an except / finally block for anything but the queue's internal Empty?"""
  e = sys.exception()
  return e is not None and not isinstance(e, (_queue.Empty, asyncio.QueueEmpty))


class InterruptScheduler(shim.Scheduler):

  def __init__(self, chooser, max_steps=20000, exc_class=KeyboardInterrupt, at=None):
    super().__init__(chooser, max_steps=max_steps)
    self.exc_class = exc_class
    self.at = at               # None: never interrupt (the alternative is not even offered)
    self.victim = None
    self.fired = None          # (label, step) once delivered
    self.raised = []           # the exception objects raised
    self.offers = 0            # number of scheduler decisions at which the alternative was on offer

  def arm(self, tid):
    if self.fired is None:
      self.victim = tid

  def disarm(self):
    self.victim = None

  def deliverable(self, t, label):
    return (self.at is not None and self.fired is None and self.victim is not None and t.tid == self.victim and
            not label.startswith(('release ', 'start', 'wake ')))

  def _raise(self, label):
    self.fired = (label, self.steps)
    e = self.exc_class('interrupt')
    self.raised.append(e)
    raise e

  def op(self, label, enabled, effect, alts=None):
    t = self.current()
    if t is None or label.startswith('wake ') or _in_cleanup():
      return super().op(label, enabled, effect, alts)

    def alts2():
      base = list(alts()) if alts is not None else []
      return base + (['interrupt'] if self.deliverable(t, label) else [])

    def effect2(alt):
      if alt == 'interrupt':
        self._raise(label)
      return effect(alt)
    return super().op(label, enabled, effect2, alts2)


class Condition(shim.Condition):
  """shim.Condition whose parked wait can also be ended by the interrupt alternative (lock free: wait() re-acquires
  the lock, leaves the waiter list, then the exception propagates)."""

  def wait(self, timeout=None):
    s = self._s
    me = self._lock._me()
    saved = {}

    def park(alt):
      if self._lock.owner != me:
        raise RuntimeError('cannot wait on un-acquired lock')
      saved['st'] = self._lock._release_save()
      self.waiters.append(me)
    s.op(f'wait {self.name}', lambda: True, park)

    def wake(alt):
      if alt in ('timeout', 'interrupt'):
        if me in self.waiters:
          self.waiters.remove(me)
        self.notified.discard(me)
        self._lock._acquire_restore(saved['st'])
        if alt == 'interrupt':
          s._raise(f'wake {self.name}')
        return False
      self.notified.discard(me)
      self._lock._acquire_restore(saved['st'])
      return True
    lock_free = lambda: self._lock.owner is None
    cleanup = _in_cleanup()

    def alts():
      out = []
      if timeout is not None and lock_free() and me not in self.notified:
        out.append('timeout')
      if (isinstance(s, InterruptScheduler) and s.at is not None and s.fired is None and s.victim is not None and s.victim == me
          and lock_free() and not cleanup):
        out.append('interrupt')
      return out
    return s.op(f'wake {self.name}', lambda: me in self.notified and lock_free(), wake, alts)


class patched(shim.patched):
  """as shim.patched, with the interruptible Condition"""

  def __enter__(self):
    super().__enter__()
    for mod, n, _ in self.saved:
      if n == 'threading':
        m = getattr(mod, n)
        cnt = [0]

        def mk(lock=None, m=m, cnt=cnt):
          cnt[0] += 1
          return Condition(self.sched, lock, f'cond{cnt[0]}')
        m.Condition = mk
    return self


def interrupting_chooser(inner, at):
  """`inner` never sees the interrupt alternatives; the `at`-th decision at which one is on offer takes it."""
  def choose(opts, sched):
    keep = [i for i, (_, a) in enumerate(opts) if a != 'interrupt']
    intr = [i for i, (_, a) in enumerate(opts) if a == 'interrupt']
    if intr:
      sched.offers += 1
      if at is not None and sched.offers == at + 1:
        return intr[0]
    if not keep:
      return intr[0]           # only the interrupt can move: nothing else is enabled
    sub = [opts[i] for i in keep]
    j = inner(sub, sched)
    return None if j is None else keep[j]
  return choose
