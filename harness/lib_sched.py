"""Shared machinery of the C06 / C16 checks: runs the repo's distributed runners over harness.fakecourier.

What it provides
* `setup()`              installs the fake `courier`, imports the repo's courier modules, silences absl logging,
                         puts a `GuardClock` under their `time` attribute (hard wall-clock guard, see below).
* `Cluster`              one case's servers (real `PrefetchedCourierServer` instances on unique fake addresses),
                         a real `WorkerPool`, the fault plans and the death/rejoin monitor.
* pipelines / metrics    small `TreeTransform` pipelines over `SequenceDataSource(range(n))` with aggregates whose
                         result shows which elements were merged how often (`Collect`).
* `run_guarded(fn, t)`   runs `fn` on a thread under a hard wall-clock limit; a run that does not come back is
                         reported as a hang (its spin loops are unwound through the guard clock) - a check never hangs.

Fault semantics (the same as `MlModel.Sched.Worker.issue`): the i-th *counted* call on a worker gets
  ok | deadline | deadline_after | app_error     as in harness.fakecourier
  die      the worker is unreachable from this call on (the call hangs); the death is announced to the master
           (`worker_registry().unregister(addr)`, what a stopping CourierServer does through its heartbeat)
  restart  as `die`, and the worker rejoins (`revive` + `register`) once the master has nothing in flight on it
Counted are the calls that carry work (`maybe_make`, `init_generator`, `next_batch_from_generator`); heartbeats
and `stop_prefetch` are not (their number depends on timing).
"""
from __future__ import annotations

import collections
import dataclasses
import itertools
import os
import queue as _queue
import signal
import threading
import time as _real_time

from harness import fakecourier

_UID = itertools.count()
_SETUP = {}
COUNTED = ('maybe_make', 'init_generator', 'next_batch_from_generator')


class Abort(BaseException):
  """Raised inside a run that exceeded its wall-clock limit (through the guard clock)."""


class GuardClock:
  """Stand-in for the `time` module inside the repo's courier modules: real time, but every `time()` / `sleep()`
  of a thread marked as aborted raises `Abort` - the repo's spin loops (`while not done: time.sleep(0)`,
  the main loop of `WorkerPool.iterate` which reads `time.time()` once per iteration) are unwound instead of
  spinning for ever."""

  def __init__(self):
    self.aborted = set()
    self.abort_all = False     # after a hang: every thread of the dead run that touches the clock is unwound
    self.immune = set()

  def _guard(self):
    if self.abort_all:
      if threading.get_ident() not in self.immune:
        raise Abort()
    elif self.aborted and threading.get_ident() in self.aborted:
      raise Abort()

  def time(self):
    self._guard()
    return _real_time.time()

  def sleep(self, dt=0.0):
    self._guard()
    _real_time.sleep(dt)

  def __getattr__(self, name):
    return getattr(_real_time, name)


CLOCK = GuardClock()


def setup():
  """Idempotent.  Returns a namespace with the repo modules (imported only after the fake is installed)."""
  if _SETUP:
    return _SETUP['ns']
  fakecourier.install()
  try:
    from absl import logging as absl_logging
    absl_logging.set_verbosity(absl_logging.FATAL)
    absl_logging.set_stderrthreshold('fatal')
  except Exception:  # pragma: no cover
    pass
  import logging
  logging.getLogger('absl').setLevel(logging.CRITICAL)
  logging.getLogger('asyncio').setLevel(logging.CRITICAL)   # "Task was destroyed but it is pending" of cancelled attempts
  from ml_metrics._src.chainables import courier_server, courier_worker, orchestrate, transform, io, lazy_fns
  from ml_metrics._src.utils import courier_utils, iter_utils
  from ml_metrics._src.aggregates import base
  fakecourier.patch_time(CLOCK)
  # exceptions escaping daemon threads of an aborted / failed run are expected noise
  threading.excepthook = lambda args: None
  ns = dict(courier_server=courier_server, courier_worker=courier_worker, orchestrate=orchestrate,
            transform=transform, io=io, lazy_fns=lazy_fns, courier_utils=courier_utils, iter_utils=iter_utils,
            base=base)
  ns = type('NS', (), ns)
  _SETUP['ns'] = ns
  return ns


# ------------------------------------------------------------------------------------------ guarded execution

def run_guarded(fn, timeout):
  """Runs fn() on a daemon thread.  -> (hang: bool, value, exception)."""
  box = {}

  def body():
    try:
      box['value'] = fn()
    except Abort:
      box['aborted'] = True
    except BaseException as e:  # pylint: disable=broad-except
      box['exc'] = e

  th = threading.Thread(target=body, daemon=True, name='case-body')
  th.start()
  th.join(timeout)
  if th.is_alive():
    # unwind the run: first its own thread, then every helper thread it left spinning (stage loops,
    # wait_until_alive loops ...) - otherwise non-daemon helpers keep the process alive for ever
    CLOCK.aborted.add(th.ident)
    th.join(1.0)
    CLOCK.immune = {threading.get_ident()}
    CLOCK.abort_all = True
    th.join(2.0)
    _real_time.sleep(0.3)
    CLOCK.abort_all = False
    CLOCK.aborted.discard(th.ident)
    return True, None, None
  return False, box.get('value'), box.get('exc')


# ------------------------------------------------------------------------------------------ metrics and pipelines

@dataclasses.dataclass
class Collect:
  """Mergeable metric whose state is the multiset of the values it has seen: the final result shows exactly
  which elements were aggregated, and how many times."""
  seen: dict = dataclasses.field(default_factory=dict)

  def add(self, x):
    k = int(x)
    self.seen[k] = self.seen.get(k, 0) + 1

  def merge(self, other):
    for k, v in other.seen.items():
      self.seen[k] = self.seen.get(k, 0) + v

  def result(self):
    return sorted(self.seen.items())


@dataclasses.dataclass
class SumCount:
  total: int = 0
  count: int = 0

  def add(self, x):
    self.total += int(x)
    self.count += 1

  def merge(self, other):
    self.total += other.total
    self.count += other.count

  def result(self):
    return (self.total, self.count)


def _double(x):
  return x * 2


def slow_double(x, delay):
  _real_time.sleep(delay)
  return x * 2


def _inc(x):
  return x + 1


def _triple(x):
  return x * 3


class FailAt:
  """Row function raising at one value (a non-retriable task error inside the pipeline)."""

  def __init__(self, value, exc=ValueError):
    self.value, self.exc = value, exc

  def __call__(self, x):
    if x == self.value:
      raise self.exc(f'task error at {x}')
    return x


def define_pipeline(n, pipe='p0', fail_at=None, shard_index=0, num_shards=1):
  """The pipeline of the sharded runs; `shard_index/num_shards` are supplied by the orchestrator."""
  ns = setup()
  T = ns.transform.TreeTransform
  ds = ns.io.SequenceDataSource(range(n)).shard(shard_index, num_shards)
  t = T.new(name='ds').data_source(ds)
  if fail_at is not None:
    t = t.apply(fn=FailAt(fail_at))
  return add_stages(t, pipe)


def add_stages(t, pipe):
  """The stages after the data source (shared with harness.lib_sched_ext.gated_pipeline)."""
  ns = setup()
  T = ns.transform.TreeTransform
  if pipe == 'p0':
    t = t.apply(fn=_double).aggregate(output_keys='seen', fn=ns.base.as_agg_fn(Collect))
  elif pipe == 'p1':
    t = (t.apply(fn=_inc).apply(fn=_triple)
         .aggregate(output_keys='seen', fn=ns.base.as_agg_fn(Collect))
         .add_aggregate(output_keys='sc', fn=ns.base.as_agg_fn(SumCount)))
  elif pipe == 'p2':   # aggregate in a separately named, chained transform
    t = t.apply(fn=_inc).chain(T.new(name='agg').aggregate(output_keys='seen', fn=ns.base.as_agg_fn(Collect)))
  elif pipe == 'p3':   # a chain in which TWO stages aggregate (each stage's states are merged separately)
    t = (t.apply(fn=_inc).aggregate(output_keys='seen', fn=ns.base.as_agg_fn(Collect))
         .chain(T.new(name='post').apply(fn=_triple).aggregate(output_keys='sc', fn=ns.base.as_agg_fn(SumCount))))
  elif pipe == 'p4':   # three aggregating stages
    t = (t.apply(fn=_inc).aggregate(output_keys='seen', fn=ns.base.as_agg_fn(Collect))
         .chain(T.new(name='mid').apply(fn=_double).aggregate(output_keys='sc', fn=ns.base.as_agg_fn(SumCount)))
         .chain(T.new(name='post').apply(fn=_inc).aggregate(output_keys='seen2', fn=ns.base.as_agg_fn(Collect))))
  elif pipe == 'noagg':
    t = t.apply(fn=_double)
  else:
    raise ValueError(pipe)
  return t


def row_fn(pipe):
  return {'p0': lambda x: x * 2, 'p1': lambda x: (x + 1) * 3, 'p2': lambda x: x + 1, 'noagg': lambda x: x * 2,
          'p3': lambda x: (x + 1) * 3, 'p4': lambda x: (x + 1) * 2 + 1}[pipe]


def seen_fn(pipe):
  """What the `seen` aggregate (a `Collect`) of the pipeline records for element x."""
  return {'p3': lambda x: x + 1, 'p4': lambda x: x + 1}.get(pipe) or row_fn(pipe)


def in_process(n, pipe):
  """Reference: the same pipeline run in this process, in one piece.  -> (batches, agg_result dict)"""
  ns = setup()
  it = define_pipeline(n, pipe).make().iterate(with_agg_result=True)
  out = list(ns.transform.iterate_with_returned(it))
  returned = out.pop()
  agg = returned.agg_result if returned is not None else None
  return out, canon_agg(agg)


def canon_agg(agg):
  if agg is None:
    return None
  out = {}
  try:
    items = dict(agg).items()
  except Exception:  # pylint: disable=broad-except
    return {'__unreadable__': type(agg).__name__}      # e.g. tree.NullMap: the result of an empty merge
  for k, v in items:
    out[str(k)] = [list(x) if isinstance(x, tuple) else x for x in v] if isinstance(v, (list, tuple)) else v
  return out


def shard_sizes(n, k):
  ns = setup()
  return [len(ns.io.SequenceDataSource(range(n)).shard(i, k)) for i in range(k)]


# ------------------------------------------------------------------------------------------ cluster

class Cluster:
  """Servers + pool + fault plans of one case."""

  def __init__(self, n_workers, plans=(), *, prefetched=True, counted=COUNTED, master=False):
    self.ns = ns = setup()
    self.world = fakecourier.world()
    if self.world.mode != 'threaded':
      fakecourier.reset(mode='threaded')
    self._signals = {s: signal.getsignal(s) for s in (signal.SIGINT, signal.SIGTERM, signal.SIGABRT)}
    uid = f'p{os.getpid()}c{next(_UID)}'
    self.names = [f'{uid}w{i}' for i in range(n_workers)]
    cls = ns.courier_server.PrefetchedCourierServer if prefetched else ns.courier_server.CourierServer
    self.servers = [cls(nm) for nm in self.names]
    self.master = ns.courier_server.CourierServer(f'{uid}m') if master else None
    self._restore_signals()
    for s in self.servers:
      s.start()
    self.pool = ns.courier_worker.WorkerPool(self.names)
    self.pool.wait_until_alive(10, minimum_num_workers=n_workers)
    self.registry = ns.courier_utils.worker_registry()
    self.log0 = len(self.world.log)
    self.dead = [False] * n_workers
    self.can_rejoin = [False] * n_workers
    self.rejoins = 0
    self.plans = [list(p) for p in plans] + [[] for _ in range(n_workers - len(plans))]
    for i, nm in enumerate(self.names):
      fakecourier.set_fault_plan(nm, self._plan(i), count=lambda m: m in counted)
    self._stop = threading.Event()
    self._monitor = None
    if any(f == 'restart' for p in self.plans for f in p):
      self._monitor = threading.Thread(target=self._watch, daemon=True, name='rejoin-monitor')
      self._monitor.start()

  def _restore_signals(self):
    for s, h in self._signals.items():
      try:
        signal.signal(s, h)
      except (ValueError, TypeError):
        pass

  def _plan(self, i):
    fates = self.plans[i]

    def plan(idx, method):
      f = fates[idx] if idx < len(fates) else 'ok'
      if self.dead[i]:
        return 'ok'      # the address is down: the transport lets the call hang whatever we answer
      if f in ('die', 'restart'):
        self.kill(i, can_rejoin=(f == 'restart'))
        return 'die'
      return f

    return plan

  def kill(self, i, can_rejoin=False):
    """Worker i dies now: unreachable, and the master is told (announced death)."""
    self.dead[i] = True
    self.can_rejoin[i] = can_rejoin
    fakecourier.kill(self.names[i])
    self.registry.unregister(self.names[i])

  def rejoin(self, i):
    self.dead[i] = False
    self.can_rejoin[i] = False
    self.rejoins += 1
    fakecourier.revive(self.names[i])
    self.registry.register(self.names[i], _real_time.time())

  def _watch(self):
    workers = self.pool.all_workers
    while not self._stop.is_set():
      for i, w in enumerate(workers):
        if self.dead[i] and self.can_rejoin[i]:
          try:
            if not w.pendings:      # the master has nothing in flight on it any more
              self.rejoin(i)
          except Exception:  # pylint: disable=broad-except
            pass
      _real_time.sleep(0.0005)

  def delivered(self):
    """Fault events of this case as the transport saw them: Counter of outcomes of counted calls."""
    c = collections.Counter()
    names = set(self.names)
    for seq, addr, method, fate, outcome in self.world.log[self.log0:]:
      if addr in names and method in COUNTED:
        c[outcome] += 1
    return c

  def calls(self):
    names = {nm: i for i, nm in enumerate(self.names)}
    return [(names[a], m, o) for _, a, m, _, o in self.world.log[self.log0:] if a in names and m in COUNTED]

  def acquired(self):
    return sorted(self.names.index(w.address) for w in self.pool.acquired_workers)

  def close(self, hung=False):
    self._stop.set()
    for s in self.servers + ([self.master] if self.master is not None else []):
      try:
        if s.has_started:
          s.stop()
      except Exception:  # pylint: disable=broad-except
        pass
    for nm in self.names:
      self.world.plans.pop(nm, None)
    if hung:
      fakecourier.reset(mode='threaded')
    self._restore_signals()


def drain_queue(q, wait):
  """All items that arrive on a SimpleQueue within `wait` seconds of quiet."""
  out = []
  while True:
    try:
      out.append(q.get(timeout=wait))
      wait = 0.02
    except _queue.Empty:
      return out
