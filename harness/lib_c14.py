"""Callables used by the C14 check on top of harness/lib_c17.py (mirrored by `Prog` in
lean/MlModel/Model/Remote.lean): constructors of exception instances, a function that raises, a
generator with a chosen end, a finished IteratorQueue.

Must stay importable by name: cloudpickle then pickles these functions by reference, as it does for
any library code a user traces and sends to a server.
"""

EXC = {
    'ValueError': ValueError, 'TypeError': TypeError, 'KeyError': KeyError, 'IndexError': IndexError,
    'TimeoutError': TimeoutError, 'RuntimeError': RuntimeError, 'AssertionError': AssertionError,
    'AttributeError': AttributeError, 'NotImplementedError': NotImplementedError,
    'ZeroDivisionError': ZeroDivisionError, 'Exception': Exception,
}

MARKER = 'S3CR3T-value-that-must-stay-on-the-server'


def make_exc(kind, msg, code=0):
  """An exception *instance* as an ordinary value (optionally with a `code` attribute)."""
  e = EXC[kind](msg)
  if code:
    e.code = code
  return e


def raise_(kind, msg, code=0):
  raise make_exc(kind, msg, code)


def gen(items, stop=None, fail=None):
  """Generator: yields `items`, then returns `stop[0]` (if given) or raises `fail`=(kind, msg, code)."""
  for x in items:
    yield x
  if fail is not None:
    raise make_exc(*fail)
  if stop:
    return stop[0]


def make_queue(items, stop=None, fail=None):
  """An IteratorQueue whose single enqueuer has already finished (normally or with `fail`)."""
  from ml_metrics._src.utils import iter_utils
  q = iter_utils.IteratorQueue(0, name='c14', timeout=5)
  try:
    q.enqueue_from_iterator(gen(items, stop, fail))
  except Exception:  # pylint: disable=broad-except  (recorded in q.exception)
    pass
  return q


def slow_ident(x, delay=0.0):
  import time
  if delay:
    time.sleep(delay)
  return x


# ---- calls in flight (C14 'span' cases): the remote callable blocks until the harness releases it
import threading as _threading

GATES = {}    # token -> {'started': [Event...], 'release': [Event...]}


def make_gates(token, n):
  GATES[token] = {'started': [_threading.Event() for _ in range(n)],
                  'release': [_threading.Event() for _ in range(n)]}
  return GATES[token]


def blocked(token, i, fail=None, value=None):
  """Signals that the handler is evaluating, waits for the harness, then raises `fail` or returns `value`."""
  g = GATES[token]
  g['started'][i].set()
  if not g['release'][i].wait(30):
    raise RuntimeError('c14: never released')
  if fail is not None:
    raise make_exc(*fail)
  return value


# ---- arguments whose == is ambiguous / that are unhashable but picklable (C14 'arr' cases)

class Amb:
  """Unhashable, picklable, and `==` has no truth value (like an ndarray)."""
  __hash__ = None

  def __init__(self, data):
    self.data = list(data)

  def __eq__(self, other):
    raise ValueError('The truth value of an Amb comparison is ambiguous')


def as_arg(kind, weights):
  import numpy as np
  if kind == 'ndarray':
    return np.array(weights, dtype=float)
  if kind == 'ndarray2d':
    return np.array([weights, weights], dtype=float)
  if kind == 'list':
    return list(weights)
  if kind == 'dict':
    return {'w': list(weights)}
  if kind == 'amb':
    return Amb(weights)
  if kind == 'tuple':
    return tuple(weights)
  raise ValueError(kind)


class Scaler:
  """A 'model' that is expensive to build, hence built once and cached; counts its calls."""

  def __init__(self, weights):
    import numpy as np
    if isinstance(weights, dict):
      weights = weights['w']
    elif isinstance(weights, Amb):
      weights = weights.data
    self.weights = np.asarray(weights, dtype=float).reshape(-1)
    self.calls = 0

  def __call__(self, x):
    self.calls += 1
    return (self.weights * x).tolist(), self.calls
