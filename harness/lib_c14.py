"""Callables used by the C14 check on top of harness/lib_c17.py (mirrored by `Prog` in
lean/MlModel/Model/Remote.lean): constructors of exception instances, a function that raises, a
generator with a chosen end, a finished IteratorQueue.

Must stay importable by name: cloudpickle then pickles these functions by reference, as it does for
any library code a user traces and sends to a server.
"""

EXC = {
    'ValueError': ValueError, 'TypeError': TypeError, 'KeyError': KeyError, 'IndexError': IndexError,
    'TimeoutError': TimeoutError, 'RuntimeError': RuntimeError, 'AssertionError': AssertionError,
    'AttributeError': AttributeError, 'NotImplementedError': NotImplementedError,
    'ZeroDivisionError': ZeroDivisionError, 'Exception': Exception,
}

MARKER = 'S3CR3T-value-that-must-stay-on-the-server'


def make_exc(kind, msg, code=0):
  """An exception *instance* as an ordinary value (optionally with a `code` attribute)."""
  e = EXC[kind](msg)
  if code:
    e.code = code
  return e


def raise_(kind, msg, code=0):
  raise make_exc(kind, msg, code)


def gen(items, stop=None, fail=None):
  """Generator: yields `items`, then returns `stop[0]` (if given) or raises `fail`=(kind, msg, code)."""
  for x in items:
    yield x
  if fail is not None:
    raise make_exc(*fail)
  if stop:
    return stop[0]


def make_queue(items, stop=None, fail=None):
  """An IteratorQueue whose single enqueuer has already finished (normally or with `fail`)."""
  from ml_metrics._src.utils import iter_utils
  q = iter_utils.IteratorQueue(0, name='c14', timeout=5)
  try:
    q.enqueue_from_iterator(gen(items, stop, fail))
  except Exception:  # pylint: disable=broad-except  (recorded in q.exception)
    pass
  return q


def slow_ident(x, delay=0.0):
  import time
  if delay:
    time.sleep(delay)
  return x
