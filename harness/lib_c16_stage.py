"""C16, package C16S: ONE interleaved stage of the real runner, step by step against the `Stage` LTS (Model/Stage.lean).

What runs (all of it the repo's code, over harness.fakecourier in *manual* mode, under the deterministic scheduler
harness/sched/shim.py, on the deterministic event loop `lib_queue_backends.DetLoop`):

  previous stage   a thread: `inq.enqueue_from_iterator(<ds transform>.make().iterate())`, inq = the stage input, an
                   `AsyncIteratorQueue` as `_async_run_single_stage` builds it
  master           a real `CourierServer` (handlers only, its housekeeping thread is not started) answering the workers'
                   `RemoteIteratorQueue.get_batch` on `inq`
  main loop        a thread doing, per worker, what `iterate_with_worker_pool` does:
                   `asyncio.run_coroutine_threadsafe(result_q.async_enqueue_from_iterator(worker.async_iter(lazy_iterator)), loop)`
                   (worker = the real `CourierClient`; acquisition of pool workers is not part of the Stage LTS)
  event loop       a thread running the DetLoop: the coroutines `AsyncIteratorQueue.async_enqueue_from_iterator`,
                   `CourierClient.async_iter`, `async_get_result`, `RemoteIteratorQueue.async_get_batch`; the loop's idle
                   wait and every turn in which only `asyncio.sleep(0)` spinners are ready are scheduler yield points
  workers          real `CourierServer`s; `maybe_make(.., return_immediately=True)` hands the pipeline
                   `trace(transform).make().iterate(RemoteIteratorQueue)` -> worker-side `IteratorQueue.enqueue_from_iterator`
                   to the server's thread pool: a managed thread
  RPCs             every call is a managed thread: its FIRST scheduling = delivery of the request (the handler runs), a
                   second yield point before the future completes = delivery of the reply; heartbeats are answered inline
  consumer         a thread iterating `result_q` (what the user of `runner.result_queue` does)

Projection onto the Stage alphabet (every event is recorded inside the atomic effect of a scheduler step, so the recorded
order is the real order):
  produce      successful `put_nowait` on inq's buffer        closeInput   `_stop_enqueue` of the producer on inq
  schedule w   the main loop hands over coroutine w             created w    the kick-off `maybe_make(return_immediately)` is SENT
  ack w        `_start_enqueue()` on result_q in coroutine w    pull w       successful `get_nowait` on inq's buffer in a handler
  pullEnd w    first empty-and-`enqueue_done` probe of inq      forward w    successful `put_nowait` on result_q's buffer (job of w)
               in a handler serving worker w                    finish w     `_stop_enqueue` on result_q in coroutine w
  consume      successful `get_nowait` on result_q's buffer     consumerEnd  the consumer's first trailing probe of result_q
               by the consumer                                               that found it empty and `enqueue_done`
`_start_enqueue` / `_stop_enqueue` are private names of IteratorQueue: they are wrapped for the duration of a run and the
event is placed at the acquisition of `_states_lock` inside them (the increment follows it without a yield point).

The projection is replayed by the Lean driver (model "stage", mode "turn" = `stepT`): it must be accepted step by step and
end in the same observations (consumed sequence, consumer done, `enqueue_done`, every coroutine finished).
"""
import asyncio
import collections
import concurrent.futures as cf
import contextvars
import logging
import random
import signal

from harness import fakecourier
from harness import lib_queue_backends as B
from harness import lib_sched as L
from harness.sched import shim

CUR_W = contextvars.ContextVar('c16_stage_worker', default=None)
_RUN = collections.Counter()
SPIN = ('loop_turn', 'rpc_wait', 'spin')


class _EvQueue(B.AsyncioQueueShim):
  """the buffer of inq / result_q: successful and failing non-blocking operations are recorded inside the atomic effect"""

  def __init__(self, sched, maxsize, name, rec, done):
    super().__init__(sched, maxsize, name)
    self._rec, self._done = rec, done

  def get_nowait(self):
    def eff(alt):
      if not self._items:
        self._rec('get_empty', self.name, self._done())
        raise self.EMPTY()
      v = self._items.popleft()
      self._rec('get', self.name, v)
      return v
    return self._s.op(f'get_nowait {self.name}', lambda: True, eff)

  def put_nowait(self, v):
    def eff(alt):
      if self._is_full():
        raise self.FULL()
      self._items.append(v)
      self._rec('put', self.name, v)
    return self._s.op(f'put_nowait {self.name}', lambda: True, eff)

  def empty(self):
    def eff(alt):
      e = not self._items
      if e:
        self._rec('get_empty', self.name, self._done())
      return e
    return self._s.op(f'empty {self.name}', lambda: True, eff)


class _StageLoop(B.DetLoop):
  """DetLoop whose turns with ready callbacks only (tasks spinning on `asyncio.sleep(0)`) are yield points too"""

  def __init__(self, sched, executor):
    super().__init__(sched, executor)
    sel = self._selector
    base = sel.select

    def select(timeout=None):
      if timeout is not None and timeout <= 0:
        sched.op('loop_turn', lambda: True, lambda alt: None)
        return []
      return base(timeout)
    sel.select = select


class _YTime:
  """`time` of courier_utils: the clock stands still; `sleep` (the spin of `get_result`) waits for the caller's last RPC"""

  def __init__(self, sched, last_fut):
    self._s, self._last = sched, last_fut

  def time(self):
    return 1_000_000.0

  monotonic = perf_counter = time

  def sleep(self, dt=0.0):
    t = self._s.current()
    if t is None:
      return
    f = self._last.get(t.tid)
    self._s.op('rpc_wait', (lambda: True) if f is None else f.done, lambda alt: None)

  def __getattr__(self, name):
    import time as real
    return getattr(real, name)


def make_chooser(spec, record):
  """random / PCT chooser over (tid, alt); spin steps (a yield that only re-polls) are taken when nothing else is enabled
  or with probability `spin_p`; `replay`: the recorded choices, strictly"""
  if spec['kind'] == 'replay':
    inner = shim.replay_chooser([list(x) if isinstance(x, (list, tuple)) else x for x in spec['choices']], strict=True)

    def choose_r(opts, sched):
      record.append(None)
      return inner(opts, sched)
    return choose_r
  rng = random.Random(spec['seed'])
  spin_p = spec.get('spin_p', 0.15)
  prio = {}
  pct = spec['kind'] == 'pct'
  first = spec.get('first')           # thread-name prefixes preferred while enabled (directed schedules)

  def choose(opts, sched):
    record.append(None)
    normal = [i for i, (_, a) in enumerate(opts) if a is None] or list(range(len(opts)))
    work = [i for i in normal if not ((sched.threads[opts[i][0]].pending.label or '').startswith(SPIN))]
    cand = work if work and rng.random() > spin_p else normal
    if first:
      pref = [i for i in cand if sched.threads[opts[i][0]].name.startswith(tuple(first))]
      if pref and rng.random() < spec.get('first_p', 0.9):
        cand = pref
    if pct:
      for i in cand:
        prio.setdefault(opts[i][0], rng.random())
      if rng.random() < spec.get('change_p', 0.03) and prio:
        t = max(prio, key=prio.get)
        prio[t] = min(prio.values()) - 1
      return max(cand, key=lambda i: prio[opts[i][0]])
    return rng.choice(cand)
  return choose


def run_stage(case, max_steps=60000):
  """case: dict(n=<batches>, workers=W, buffer=<result/input buffer size>, sched=dict(kind, seed, ...)).
  Returns the observation (see module docstring)."""
  ns = L.setup()
  iter_utils, courier_utils, courier_server, lazy_fns = ns.iter_utils, ns.courier_utils, ns.courier_server, ns.lazy_fns
  logging.disable(logging.CRITICAL)
  _RUN['n'] += 1
  import os
  prefix = f'c16s{os.getpid()}r{_RUN["n"]}_'
  n, nw, buf = case['n'], case['workers'], case.get('buffer', 0)
  rec_choices = []
  sched = shim.Scheduler(make_chooser(case['sched'], rec_choices), max_steps=max_steps)
  events = []            # [pos, seq, kind, ...]
  seq = [0]

  def rec(kind, *a, pos=None, tid=None):
    seq[0] += 1
    t = sched.current()
    events.append([len(sched.trace) if pos is None else pos, seq[0] if pos is None else -1, kind,
                   (t.tid if t is not None else None) if tid is None else tid, CUR_W.get(), *a])

  world = fakecourier.world()
  fakecourier.reset(mode='manual', time_fn=lambda: 1_000_000.0)
  sigs = {s: signal.getsignal(s) for s in (signal.SIGINT, signal.SIGTERM, signal.SIGABRT)}
  owner = {}             # tid -> worker index (worker pipeline threads, executor jobs of coroutine w, rpc threads serving w)
  last_fut = {}          # tid -> future of the thread's last RPC
  cur_call = {}          # rpc tid -> call
  addr_w = {}
  saved = []
  err = None
  consumer = dict(got=[], ended=None)
  coro_out = {}

  def patch(obj, name, val):
    saved.append((obj, name, getattr(obj, name)))
    setattr(obj, name, val)

  # -- probes on the private registration methods (event placed at the acquisition of _states_lock inside them)
  def probe(name, kind):
    orig = getattr(iter_utils.IteratorQueue, name)

    def wrapped(self, *a):
      t = sched.current()
      n0 = len(sched.trace)
      w = CUR_W.get()
      try:
        return orig(self, *a)
      finally:
        if t is not None:
          idx = next((i for i in range(n0, len(sched.trace)) if sched.trace[i][0] == t.tid and sched.trace[i][1].startswith('acquire')), None)
          qn = qname.get(id(self))
          if qn is not None:
            seq[0] += 1
            events.append([(idx + 1) if idx is not None else len(sched.trace), -1, kind, t.tid, w, qn])
    patch(iter_utils.IteratorQueue, name, wrapped)
  qname = {}

  try:
    with B.patched(sched, [iter_utils, courier_utils, courier_server]):
      probe('_start_enqueue', 'start')
      probe('_stop_enqueue', 'stop')
      patch(courier_utils, 'time', _YTime(sched, last_fut))
      patch(courier_server, 'time', _YTime(sched, last_fut))

      # -- the worker servers' thread pool: jobs are managed threads owned by the worker whose handler submitted them
      class WorkerPoolExec(shim.ThreadPoolExecutor):
        def submit(self, fn, *a, **k):
          me = sched.current()
          call = cur_call.get(me.tid) if me is not None else None
          fut = super().submit(fn, *a, **k)
          # (the new thread is the last task: no yield point between the effect of `submit` and this line)
          owner[self.tasks[-1][0].tid] = addr_w.get(call.address) if call is not None else None
          return fut
      patch(courier_server, '_THREAD_POOL', WorkerPoolExec(sched, thread_name_prefix='wjob'))

      # -- the transport: one managed thread per call
      netpool = shim.ThreadPoolExecutor(sched, thread_name_prefix='rpc')
      orig_submit, orig_finish = world.submit, world._finish     # pylint: disable=protected-access

      def run_call(call, w):
        me = sched.current()
        cur_call[me.tid] = call
        owner[me.tid] = w
        world._execute(call)      # pylint: disable=protected-access

      def submit(address, method, args, kwargs, timeout=None):
        fut = orig_submit(address, method, args, kwargs, None)
        with world.lock:
          call = next(c for c in world.pending if c.future is fut)
          world.pending.remove(call)
        if method == 'heartbeat':
          world._execute(call)      # pylint: disable=protected-access
          return fut
        me = sched.current()
        w = owner.get(me.tid) if me is not None else None
        if me is not None:
          last_fut[me.tid] = fut
        if method == 'maybe_make' and kwargs.get('return_immediately') and address in addr_w:
          rec('kickoff', addr_w[address])
        netpool.submit(run_call, call, w)
        netpool.tasks[-1][0].name = f'rpc>{"master" if address == master_addr else "w" + str(addr_w.get(address))}'
        return fut

      def finish(call, **kw):
        me = sched.current()
        if me is not None and call.method != 'heartbeat' and me.tid in cur_call:
          sched.step('reply')
        return orig_finish(call, **kw)
      world.submit, world._finish = submit, finish      # pylint: disable=protected-access

      master_addr = prefix + 'master'
      master = courier_server.CourierServer(master_addr)
      master.build_server().Start()
      workers = []
      for i in range(nw):
        a = f'{prefix}w{i}'
        addr_w[a] = i
        srv = courier_server.CourierServer(a)
        srv.build_server().Start()
        workers.append(srv)
      for s_, h in sigs.items():
        try:
          signal.signal(s_, h)
        except (ValueError, TypeError):
          pass

      class JobsExec(shim.ThreadPoolExecutor):
        """the runner's thread pool (`run_in_executor` of async_put / async_get_batch): a job belongs to the coroutine that submitted it"""

        def submit(self, fn, *a, **k):
          w = CUR_W.get()
          fut = super().submit(fn, *a, **k)
          owner[self.tasks[-1][0].tid] = w
          return fut
      jobs = JobsExec(sched, thread_name_prefix='pool')
      T = ns.transform.TreeTransform
      inq = iter_utils.AsyncIteratorQueue(_EvQueue(sched, buf, 'inq', rec, lambda: inq.enqueue_done), name='ds(output)', thread_pool=jobs)
      resq = iter_utils.AsyncIteratorQueue(_EvQueue(sched, buf, 'resq', rec, lambda: resq.enqueue_done), name='apply(output)',
                                           thread_pool=jobs)
      qname[id(inq)], qname[id(resq)] = 'inq', 'resq'
      ds = T.new(name='ds').data_source(ns.io.SequenceDataSource(range(n)))
      apply_ = T.new(name='apply').apply(fn=L._double)      # pylint: disable=protected-access
      loop_box = {}

      def producer():
        inq.enqueue_from_iterator(ds.make().iterate())

      def loop_thread():
        loop = _StageLoop(sched, jobs)
        loop_box['loop'] = loop
        asyncio.set_event_loop(loop)
        try:
          loop.run_forever()
        finally:
          try:
            loop.close()
          except BaseException:  # pylint: disable=broad-except
            pass

      async def tagged(w, coro):
        CUR_W.set(w)
        return await coro

      def main_loop():
        # orchestrate.py:289-336 (iterate_with_worker_pool), without the acquisition of pool workers
        sched.op('wait_loop', lambda: 'loop' in loop_box, lambda alt: None)
        loop = loop_box['loop']
        client_to_server = courier_utils.CourierClient(master_addr, call_timeout=None)
        remote_input_q = courier_utils.RemoteIteratorQueue.new(inq, server_addr=client_to_server, name=f'apply(input@{master_addr})')
        lazy_iterator = lazy_fns.trace(apply_).make().iterate(remote_input_q, with_result=True, with_agg_result=False)
        states = {}
        for w in case.get('order') or range(nw):
          sched.step(f'schedule {w}')
          rec('schedule', w)
          worker = courier_utils.CourierClient(f'{prefix}w{w}')
          remote_iterator = worker.async_iter(lazy_iterator, name='apply(remote_iter)')
          states[w] = asyncio.run_coroutine_threadsafe(tagged(w, resq.async_enqueue_from_iterator(remote_iterator)), loop)
        for w, st in states.items():
          sched.op(f'join {w}', st.done, lambda alt: None)
          e = st.exception()
          coro_out[w] = 'returned' if e is None else f'{type(e).__name__}: {e}'[:200]
        loop.call_soon_threadsafe(loop.stop)

      def consume():
        try:
          for b in resq:
            consumer['got'].append(b)
          consumer['ended'] = 'StopIteration'
        except shim._Killed:      # pylint: disable=protected-access
          raise
        except BaseException as e:  # pylint: disable=broad-except
          consumer['ended'] = f'{type(e).__name__}: {e}'[:200]

      tl = sched.spawn('loop', loop_thread)
      tp = sched.spawn('producer', producer)
      tm = sched.spawn('main', main_loop)
      tc = sched.spawn('consumer', consume)
      try:
        outcome = sched.run()
      except shim.SchedulerError as e:
        outcome, err = 'schedule_rejected', str(e)
  except shim.SchedulerError as e:
    outcome, err = 'schedule_rejected', str(e)
  finally:
    for obj, name, val in reversed(saved):
      setattr(obj, name, val)
    for attr in ('submit', '_finish'):
      try:
        delattr(world, attr)
      except AttributeError:
        pass
    fakecourier.reset(mode='threaded')
    # objects of this run that outlive it (singletons, finalizers) hold shim locks of THIS scheduler: OS thread idents are
    # reused, so a later run's thread must never be mistaken for one of this scheduler's managed threads
    sched._by_ident.clear()      # pylint: disable=protected-access
    try:
      lazy_fns.clear_cache()
    except Exception:  # pylint: disable=broad-except
      pass
    logging.disable(logging.NOTSET)

  # ---------------------------------------------------------------- projection
  events.sort(key=lambda e: (e[0], e[1]))
  labels, notes = [], []
  ended = set()
  cons_tid = tc.tid
  # the consumer's decision: first trailing empty-and-done probe after its last successful get
  last_get = max([i for i, e in enumerate(events) if e[2] == 'get' and e[5] == 'resq' and e[3] == cons_tid], default=-1)
  cend = None
  if consumer['ended'] == 'StopIteration':
    cend = next((i for i, e in enumerate(events) if i > last_get and e[2] == 'get_empty' and e[5] == 'resq' and e[3] == cons_tid and e[6]), None)
  for i, e in enumerate(events):
    kind, tid, cw = e[2], e[3], e[4]
    if kind == 'schedule':
      labels.append(['schedule', e[5]])
    elif kind == 'kickoff':
      labels.append(['created', e[5]])
      if cw != e[5]:
        notes.append(f'kick-off to worker {e[5]} sent from coroutine {cw}')
    elif kind == 'start' and e[5] == 'resq':
      labels.append(['ack', cw])
    elif kind == 'stop' and e[5] == 'resq':
      labels.append(['finish', cw])
    elif kind == 'stop' and e[5] == 'inq':
      labels.append('closeInput')
    elif kind == 'put' and e[5] == 'inq':
      labels.append('produce')
    elif kind == 'put' and e[5] == 'resq':
      labels.append(['forward', owner.get(tid)])
    elif kind == 'get' and e[5] == 'inq':
      labels.append(['pull', owner.get(tid)])
    elif kind == 'get' and e[5] == 'resq':
      labels.append('consume' if tid == cons_tid else ['foreign_get', tid])
    elif kind == 'get_empty' and e[5] == 'inq' and e[6]:
      w = owner.get(tid)
      if w is not None and w not in ended:
        ended.add(w)
        labels.append(['pullEnd', w])
    elif kind == 'get_empty' and e[5] == 'resq' and i == cend:
      labels.append('consumerEnd')
  plumbing = collections.Counter(l.split(' ')[0].split(':')[0] for _, l in sched.trace)
  return dict(outcome=outcome, err=err, labels=labels, notes=notes,
              consumed=[int(b) for b in consumer['got']], consumer_ended=consumer['ended'],
              enqueue_done=bool(resq.enqueue_done), coroutines=[coro_out.get(w) for w in range(nw)],
              blocked=[list(b) for b in sched.blocked][:8], steps=len(sched.trace),
              choices=[[t, a] for t, a in sched.choices], plumbing=dict(plumbing), threads=len(sched.threads))


# ------------------------------------------------------------------------------------------------ model side

def model_request(case, obs):
  return dict(model='stage', op='replay', batches=list(range(case['n'])), workers=case['workers'], mode='turn',
              schedule=[l for l in obs['labels']])


def compare(case, obs, r):
  """the projection of the real run must be an execution of `stepT` ending in the same observations"""
  if obs['outcome'] == 'schedule_rejected':
    return None     # a replayed schedule that no longer fits the code: reported by the caller
  if not r['accepted']:
    return (f"real run is not a Stage execution: step {r['accepted_steps']} {r['rejected']} not enabled in the model "
            f"(model enabled: {r['enabled']}); prefix {obs['labels'][max(0, r['accepted_steps'] - 6):r['accepted_steps']]}")
  st = r['state']
  real = dict(consumed=[v // 2 for v in obs['consumed']], consumer_done=obs['consumer_ended'] == 'StopIteration',
              enqueue_done=obs['enqueue_done'], finished=[c == 'returned' for c in obs['coroutines']])
  model = dict(consumed=st['consumed'], consumer_done=st['consumer_done'], enqueue_done=st['enqueue_done'],
               finished=[x['phase'] == 'done' for x in st['workers']])
  if obs['outcome'] == 'done' and real != model:
    return f'observations differ: real {real} model {model}'
  if obs['outcome'] == 'done' and r['enabled']:
    return f"real run ended, the model still has enabled steps {r['enabled']}"
  return None


def oracle(case, obs):
  """the statement, on the real output: the consumer of the stage's result sees exactly the in-process multiset"""
  if obs['outcome'] == 'schedule_rejected':
    return None
  if obs['outcome'] == 'deadlock':
    return f"interleaved stage deadlocked: {obs['blocked']}"
  if obs['outcome'] != 'done':
    return None       # step bound: no verdict from this schedule (counted)
  bad = [c for c in obs['coroutines'] if c != 'returned']
  if bad:
    return f'fault-free stage: a worker coroutine failed: {bad}'
  if obs['consumer_ended'] != 'StopIteration':
    return f"the consumer of the stage's result queue ended with {obs['consumer_ended']}"
  want = collections.Counter(2 * i for i in range(case['n']))
  if collections.Counter(obs['consumed']) != want:
    return (f"interleaved stage delivered {sorted(obs['consumed'])}, the in-process run "
            f"{sorted(want.elements())} (schedule of {obs['steps']} steps recorded in the replay)")
  return None


REQUIRED_POINTS = ['produce', 'closeInput', 'schedule', 'created/first', 'created/others-registered', 'ack/empty-handed',
                   'ack/already-holding', 'pull/registered', 'pull/unregistered', 'pullEnd/empty-handed', 'pullEnd/holding',
                   'forward', 'finish/last', 'finish/others-running', 'consume', 'consumerEnd/final']
# reachable in the LTS (driver `explore`) but only under schedules the generator is not required to hit every run
OPTIONAL_POINTS = ['created/after-transient-done', 'consumerEnd/transient(F22)', 'pullEnd/unregistered']


def gen_cases(rng, quick):
  out = []
  k = 0
  for w in (1, 2, 3):
    for n in ((1, 3) if quick else (0, 1, 2, 3, 5)):
      for kind in ('random', 'pct'):
        for buf in ((0, 1) if quick else (0, 1, 2)):
          k += 1
          if quick and (k % 3 == 0):
            continue
          out.append(dict(kind='stage', n=n, workers=w, buffer=buf,
                          sched=dict(kind=kind, seed=rng.randrange(10**9), spin_p=rng.choice([0.05, 0.15, 0.4]))))
  # directed: the worker pulls between kick-off and registration (threads first), late registration (F22 shape)
  for first in (['rpc', 'wjob'], ['producer', 'rpc', 'wjob'], ['consumer', 'rpc'], ['producer', 'loop', 'pool']):
    for w in (2, 3):
      out.append(dict(kind='stage', n=3, workers=w, buffer=0,
                      sched=dict(kind='random', seed=rng.randrange(10**9), first=first, first_p=0.92)))
  for _ in range(6 if quick else 200):
    out.append(dict(kind='stage', n=rng.randrange(0, 6), workers=rng.randrange(1, 4), buffer=rng.choice([0, 0, 1, 2]),
                    sched=dict(kind=rng.choice(['random', 'pct']), seed=rng.randrange(10**9), spin_p=rng.choice([0.05, 0.15, 0.4]))))
  return out
