"""'hist' cases shared by the C14 and C17 checks: STATEFUL objects observed over a history.

A case is one list of ops on a few mutable objects (classes of harness/lib_c14_state.py, mirrored in
lean/MlModel/Model/RemoteState.lean):

  {'op': 'mk',   'cls': C, 'args': [pv]}                     a new object, held by handle (lazy_result_=True)
  {'op': 'get',  'h': k, 'links': [link], 'lazy': bool}      handle.<links> materialised (flag-free; `lazy`: the last call
                                                            carries lazy_result_=True -> a new handle, maybe an alias)
  {'op': 'getf', 'h': k, 'links': [link + cache/lazy flags]} the same with explicit cache_result / lazy_result flags
  {'op': 'iter', 'h': k, 'links': [link]}                    iter(handle.<links>) -> a handle to the iterator
  {'op': 'next', 'h': k}                                     next(iterator handle)
  {'op': 'clear'}                                            lazy_fns.clear_cache() in the evaluating process
  link = {'l': 'attr', 'name': s} | {'l': 'item', 'key': pv} | {'l': 'call', 'args': [pv]};  pv = None | {'i'} | {'s'} | {'ints'}
  `h` = index of the earlier op that returned the handle.

Three ways to run a history:
  remote   through CourierClient / RemoteObject / RemoteIterator against a server (C14, the code under test)
  lazy     lazy_fns.maybe_make on LazyObject handles in this process, no server, no client (C14: the oracle's
           'local evaluation' of the same lazy expressions; C17: the code under test)
  twin     ordinary Python on ordinary objects: no lazy expression, no cache, no id (the oracle's 'local object');
           `getf` cache flags are honoured by a textbook LRU written from the property statement
"""
import inspect
import re

from harness import lib_c14_state as S
from harness import lib_c17

READS = {
    'Counter': [['total'], ['step'], ['calls'], ['double'], ['missing']],
    'Account': [['owner'], ['balance'], ['history'], ['last'], ['history', ('item', {'i': 0})],
                ['history', ('item', {'i': -1})], ['history', ('item', {'i': 3})],
                ['limits', ('item', {'s': 'daily'})], ['limits', ('item', {'s': 'weekly'})], ['limits', 'size'],
                ['limits', 'writes'], ['missing']],
    'Store': [[('item', {'s': 'daily'})], [('item', {'s': 'weekly'})], [('item', {'i': 1})], ['size'], ['writes'],
              ['get', ('call', [{'s': 'weekly'}, {'i': -1}])]],
}


def L_attr(n): return {'l': 'attr', 'name': n}
def L_item(k): return {'l': 'item', 'key': k}
def L_call(args): return {'l': 'call', 'args': list(args)}


def _links(spec):
  out = []
  for x in spec:
    if isinstance(x, str):
      out.append(L_attr(x))
    elif x[0] == 'item':
      out.append(L_item(x[1]))
    else:
      out.append(L_call(x[1]))
  return out


def _pv(rng):
  return rng.choice([{'i': rng.randrange(-2, 40)}, {'s': rng.choice(['bob', 'eve'])}, None, {'ints': [1, 2]}])


def _mutation(rng, kind):
  """A call that (usually) changes the object: [method, args]."""
  r = rng.random()
  if kind == 'Counter':
    if r < 0.55:
      return ['add', [{'i': rng.choice([-2, 1, 3, 5])}]]
    if r < 0.7:
      return ['bump', []]
    if r < 0.8:
      return ['reset', []]
    if r < 0.9:
      return ['add', [{'s': 'x'}]]             # TypeError, nothing changes
    return ['add', []]                         # arity
  if kind == 'Account':
    if r < 0.4:
      return ['deposit', [{'i': rng.choice([5, 12, 30])}]]
    if r < 0.5:
      return ['deposit', [{'i': rng.choice([-1, 0])}]]      # ValueError
    if r < 0.55:
      return ['deposit', [{'s': 'x'}]]
    if r < 0.7:
      return ['rename', [_pv(rng)]]
    if r < 0.9:
      return ['set_limit', [{'s': rng.choice(['daily', 'weekly'])}, {'i': rng.randrange(1, 9)}]]
    return ['new_limits', []]
  if kind == 'Store':
    if r < 0.7:
      return ['put', [rng.choice([{'s': 'daily'}, {'s': 'weekly'}, {'i': 1}]), {'i': rng.randrange(1, 9)}]]
    if r < 0.9:
      return ['pop', [rng.choice([{'s': 'daily'}, {'s': 'weekly'}])]]
    return ['put', [{'s': 'daily'}]]            # arity
  raise ValueError(kind)


def gen_hist_ops(rng, n_ops, flags=False):
  """Random history.  `flags`: also explicit cache_result / lazy_result flags (getf) and clear_cache."""
  ops, kinds = [], []          # kinds[i] = class behind the handle op i returns (None: no handle)

  def handles(*want):
    return [i for i, k in enumerate(kinds) if k in want]

  def add(op, kind=None):
    ops.append(op)
    kinds.append(kind)

  cls = rng.choice(['Counter', 'Account', 'Account', 'Store'])
  add({'op': 'mk', 'cls': cls, 'args': _mk_args(rng, cls)}, cls)
  reads = []
  while len(ops) < n_ops:
    objs = handles('Counter', 'Account', 'Store')
    r = rng.random()
    if r < 0.06:
      cls = rng.choice(['Counter', 'Account', 'Store'])
      add({'op': 'mk', 'cls': cls, 'args': _mk_args(rng, cls)}, cls)
      continue
    if r < 0.08:
      add({'op': 'mk', 'cls': 'Counter', 'args': [{'s': 'x'}]})       # constructor raises
      continue
    if handles('iter') and rng.random() < 0.18:
      it = rng.choice(handles('iter'))
      if rng.random() < 0.12:
        add({'op': 'iter', 'h': it, 'links': []}, 'iter')            # iter(iterator) is the iterator
      else:
        add({'op': 'next', 'h': it})
      continue
    h = rng.choice(objs)
    k = kinds[h]
    if r < 0.40:
      old = [sp for (hh, sp) in reads if hh == h]
      spec = rng.choice(old) if old and rng.random() < 0.6 else rng.choice(READS[k])
      reads.append((h, spec))
      links = _links(spec)
      if flags and rng.random() < 0.5:
        fl = [dict(l, cache=rng.random() < 0.6) for l in links]
        add({'op': 'getf', 'h': h, 'links': fl})
      else:
        add({'op': 'get', 'h': h, 'links': links, 'lazy': False})
    elif r < 0.70:
      m, args = _mutation(rng, k)
      links = [L_attr(m), L_call(args)]
      if flags and rng.random() < 0.15:
        add({'op': 'getf', 'h': h, 'links': [dict(links[0], cache=rng.random() < 0.5),
                                              dict(links[1], cache=rng.random() < 0.5)]})
      else:
        add({'op': 'get', 'h': h, 'links': links, 'lazy': False})
    elif r < 0.76 and k == 'Account':
      if flags and rng.random() < 0.3:
        # a lazy_result_ call in the MIDDLE of an expression: the handle is dereferenced by the outer link
        add({'op': 'getf', 'h': h, 'links': [dict(L_attr('get_limits')), dict(L_call([]), lazy=True),
                                              dict(L_item({'s': 'daily'}))]})
      else:
        add({'op': 'get', 'h': h, 'links': [L_attr('get_limits'), L_call([])], 'lazy': True}, 'Store')    # alias handle
    elif r < 0.82 and k == 'Counter':
      add({'op': 'iter', 'h': h, 'links': [L_attr('ticks'), L_call([{'i': rng.randrange(0, 4)}])]}, 'iter')
    elif r < 0.85 and k == 'Account':
      add({'op': 'iter', 'h': h, 'links': [L_attr('history')]}, 'iter')
    elif r < 0.87:
      add({'op': 'iter', 'h': h, 'links': [L_attr(rng.choice(['missing', 'calls', 'balance', 'writes']))]})  # raises
    elif r < 0.95:
      add({'op': 'get', 'h': h, 'links': [], 'lazy': False})          # the whole object (a pickled copy)
    elif r < 0.96:
      add({'op': 'next', 'h': h})                                     # not an iterator
    elif r < 0.97:
      m, _ = _mutation(rng, k)
      add({'op': 'get', 'h': h, 'links': [L_attr(m)], 'lazy': False})  # a bound method
    elif flags:
      add({'op': 'clear'})
    else:
      spec = rng.choice(READS[k])
      add({'op': 'get', 'h': h, 'links': _links(spec), 'lazy': False})
  return ops


def _mk_args(rng, cls):
  if cls == 'Counter':
    return rng.choice([[], [{'i': rng.randrange(0, 20)}], [{'i': rng.randrange(0, 20)}, {'i': rng.randrange(1, 4)}]])
  if cls == 'Account':
    return [rng.choice([{'s': 'alice'}, {'s': 'bob'}, None])]
  return []


def get(h, *spec, lazy=False):
  return {'op': 'get', 'h': h, 'links': _links(spec), 'lazy': lazy}


def fixed_hist_ops():
  """Hand-written histories: (name, ops, flags?)."""
  out = []
  # the demo of seeded/C14-m3: read, re-bind through a call, read again (attribute, property, nested container)
  out.append(('account', [
      {'op': 'mk', 'cls': 'Account', 'args': [{'s': 'alice'}]},
      get(0, 'balance'), get(0, 'owner'), get(0, 'last'), get(0, 'deposit', ('call', [{'i': 30}])),
      get(0, 'balance'), get(0, 'last'), get(0, 'history', ('item', {'i': 0})),
      get(0, 'deposit', ('call', [{'i': -1}])), get(0, 'deposit', ('call', [{'i': 12}])), get(0, 'history'),
      get(0, 'limits', ('item', {'s': 'daily'})), get(0, 'set_limit', ('call', [{'s': 'daily'}, {'i': 5}])),
      get(0, 'limits', ('item', {'s': 'daily'})), get(0, 'rename', ('call', [{'s': 'bob'}])), get(0, 'owner'),
      get(0, 'missing'), get(0, 'history', ('item', {'i': 3})), get(0, 'deposit'), get(0)], False))
  out.append(('counter + live generator', [
      {'op': 'mk', 'cls': 'Counter', 'args': [{'i': 10}, {'i': 2}]}, get(0, 'total'),
      {'op': 'iter', 'h': 0, 'links': _links(['ticks', ('call', [{'i': 2}])])}, {'op': 'next', 'h': 2},
      get(0, 'add', ('call', [{'i': 5}])), {'op': 'next', 'h': 2}, {'op': 'next', 'h': 2}, {'op': 'next', 'h': 2},
      get(0, 'double'), get(0, 'total'), get(0, 'reset', ('call', [])), get(0, 'total'), get(0, 'calls')], False))
  out.append(('alias handle to a nested object', [
      {'op': 'mk', 'cls': 'Account', 'args': [None]}, get(0, 'get_limits', ('call', []), lazy=True),
      get(1, ('item', {'s': 'daily'})), get(0, 'set_limit', ('call', [{'s': 'daily'}, {'i': 7}])),
      get(1, ('item', {'s': 'daily'})), get(1, 'put', ('call', [{'s': 'weekly'}, {'i': 3}])),
      get(0, 'limits', 'size'), get(0, 'limits', 'writes'), get(0, 'new_limits', ('call', [])),
      get(0, 'limits', 'size'), get(1, 'size'), get(1, 'pop', ('call', [{'s': 'daily'}])),
      get(1, ('item', {'s': 'daily'})), get(1)], False))
  out.append(('tuple iterator + store', [
      {'op': 'mk', 'cls': 'Account', 'args': [{'s': 'a'}]}, get(0, 'deposit', ('call', [{'i': 5}])),
      get(0, 'deposit', ('call', [{'i': 12}])), {'op': 'iter', 'h': 0, 'links': [L_attr('history')]},
      {'op': 'next', 'h': 3}, get(0, 'deposit', ('call', [{'i': 30}])), {'op': 'next', 'h': 3}, {'op': 'next', 'h': 3},
      {'op': 'iter', 'h': 3, 'links': []}, {'op': 'next', 'h': 8}, {'op': 'mk', 'cls': 'Store', 'args': []},
      get(10, ('item', {'i': 1})), get(10, 'put', ('call', [{'i': 1}, {'i': 4}])), get(10, ('item', {'i': 1})),
      get(10, 'put', ('call', [{'i': 1}, {'i': 6}])), get(10, ('item', {'i': 1})), get(10, 'writes'),
      {'op': 'next', 'h': 10}, {'op': 'iter', 'h': 0, 'links': [L_attr('balance')]}], False))
  # explicit cache flags: a cached member access pins the first value until clear_cache / eviction
  cached_total = {'op': 'getf', 'h': 0, 'links': [dict(L_attr('total'), cache=True)]}
  out.append(('cached member access', [
      {'op': 'mk', 'cls': 'Counter', 'args': [{'i': 1}]}, cached_total, get(0, 'add', ('call', [{'i': 4}])),
      cached_total, get(0, 'total'), {'op': 'clear'}, cached_total, get(0, 'bump', ('call', [])), cached_total,
      {'op': 'getf', 'h': 0, 'links': [dict(L_attr('double'), cache=True)]},
      {'op': 'getf', 'h': 0, 'links': [dict(L_attr('step'), cache=True)]}, cached_total, get(0, 'total')], True))
  out.append(('cached call, cached method lookup', [
      {'op': 'mk', 'cls': 'Counter', 'args': []},
      {'op': 'getf', 'h': 0, 'links': [dict(L_attr('add'), cache=True), dict(L_call([{'i': 2}]))]},
      {'op': 'getf', 'h': 0, 'links': [dict(L_attr('add'), cache=True), dict(L_call([{'i': 2}]))]},
      {'op': 'getf', 'h': 0, 'links': [dict(L_attr('add')), dict(L_call([{'i': 2}]), cache=True)]},
      {'op': 'getf', 'h': 0, 'links': [dict(L_attr('add')), dict(L_call([{'i': 2}]), cache=True)]},
      get(0, 'total'), get(0, 'calls'),
      {'op': 'mk', 'cls': 'Account', 'args': [{'s': 'z'}]},
      {'op': 'getf', 'h': 7, 'links': [dict(L_attr('get_limits')), dict(L_call([]), lazy=True), dict(L_item({'s': 'daily'}))]},
      {'op': 'getf', 'h': 7, 'links': [dict(L_attr('limits'), cache=True), dict(L_item({'s': 'daily'}))]},
      get(7, 'set_limit', ('call', [{'s': 'daily'}, {'i': 1}])),
      {'op': 'getf', 'h': 7, 'links': [dict(L_attr('limits'), cache=True), dict(L_item({'s': 'daily'}))]},
      get(7, 'new_limits', ('call', [])),
      {'op': 'getf', 'h': 7, 'links': [dict(L_attr('limits'), cache=True), dict(L_attr('size'))]},
      get(7, 'limits', 'size')], True))
  return out


# ----------------------------------------------------------------------------- running a history

def _is_handle(lf, x):
  return isinstance(x, lf.LazyObject) and not isinstance(x, lf.LazyFn) and x.cache_result


def enc_result(x, cu, lf):
  if cu is not None and isinstance(x, cu.RemoteObject):
    return {'remote': x.id}
  if cu is not None and isinstance(x, cu.RemoteIterator):
    return {'remote': x.iterator.id}
  if _is_handle(lf, x):
    return {'remote': x.id}
  if type(x) in S.CLASSES.values():
    return {'snap': S.snapshot(x)}
  if inspect.ismethod(x):
    return {'method': True}
  return {'val': S.snapshot(x)}


def enc_err(e, err_kind):
  return {'err': err_kind(e), 'msg': re.sub(r'id=\d+', 'id=#', str(e))[:160]}


def _apply_links(x, links, lf, last_lazy=False):
  """Build `x.<links>` through the public API of the object `x` is (RemoteObject or LazyObject)."""
  n = len(links)
  for i, l in enumerate(links):
    cache, lazy = bool(l.get('cache')), bool(l.get('lazy')) or (last_lazy and i == n - 1)
    if l['l'] == 'call':
      kw = {}
      if cache:
        kw['cache_result_'] = True
      if lazy:
        kw['lazy_result_'] = True
      x = x(*[S.pv(a) for a in l['args']], **kw)
    else:
      # flagged member access can only be written on a LazyObject: LazyFn.new(getattr, ..., cache_result=True)
      if cache or lazy:
        import operator
        f, arg = (getattr, l['name']) if l['l'] == 'attr' else (operator.getitem, S.pv(l['key']))
        x = lf.LazyFn.new(f, args=(x, arg), cache_result=cache, lazy_result=lazy)
      elif l['l'] == 'attr':
        x = getattr(x, l['name'])
      else:
        x = x[S.pv(l['key'])]
  return x


def run_lazy(ops, lf, cu, client, err_kind, pickle=False):
  """`client` given: through CourierClient / RemoteObject / RemoteIterator;  None: lazy_fns.maybe_make in process
  (`pickle`: of the pickled expression)."""
  remote = client is not None
  results, obs = [], []

  def ev(expr):
    if remote:
      return client.get_result(expr)
    return lf.maybe_make(lf.pickler.dumps(expr) if pickle else expr)

  for op in ops:
    k = op['op']
    h = results[op['h']] if 'h' in op and op['h'] < len(results) else None
    res = None
    thunk = None
    if k == 'mk':
      thunk = lambda: ev(lf.trace(S.CLASSES[op['cls']])(*[S.pv(a) for a in op['args']], lazy_result_=True))
    elif k == 'clear':
      if remote:
        client.clear_cache().result(timeout=30)     # the courier method `clear_cache`, as a client reaches it
      else:
        lf.clear_cache()
      ob = {'val': None}
    elif h is None:
      ob = {'skip': True}
    elif k == 'get':
      if remote:
        root = h if isinstance(h, cu.RemoteObject) else h.iterator
        thunk = lambda: _apply_links(root, op['links'], lf, op.get('lazy', False)).result_()
      else:
        thunk = lambda: ev(_apply_links(h, op['links'], lf, op.get('lazy', False)))
    elif k == 'getf':
      # explicit flags: the expression is written on the LazyObject the handle carries and sent as it is
      root = (h.value if isinstance(h, cu.RemoteObject) else h.iterator.value) if remote else h
      thunk = lambda: ev(_apply_links(root, op['links'], lf))
    elif k == 'iter':
      if remote:
        root = h if isinstance(h, cu.RemoteObject) else h.iterator
        thunk = lambda: iter(_apply_links(root, op['links'], lf))
      else:
        thunk = lambda: ev(lf.trace(iter)(_apply_links(h, op['links'], lf), lazy_result_=True))
    elif k == 'next':
      if remote:
        it = h if isinstance(h, cu.RemoteIterator) else cu.RemoteIterator(h)
        thunk = lambda: next(it)
      else:
        thunk = lambda: ev(lf.trace(next)(h))
    if thunk is not None:
      try:
        r = thunk()
        ob = enc_result(r, cu, lf)
        if 'remote' in ob:
          res = r
      except Exception as e:  # pylint: disable=broad-except
        ob = enc_err(e, err_kind)
    info = lf.cache_info()
    ob['fn'] = [info.hits, info.misses, info.currsize]
    results.append(res)
    obs.append(ob)
  return obs


class _Key:
  """structural key of a cached link for the reference LRU: (root object identity, links so far)"""

  def __init__(self, root, path):
    self.k = (root, path)       # root = index of the handle (two handles to one object are two expressions)

  def __eq__(self, other):
    return self.k == other.k

  def __hash__(self):
    return hash(self.k)


def twin_chain(lru, root, x0, links):
  """`x0.<links>` by ordinary Python; links marked cache_result go through the textbook LRU `lru`."""
  from harness.core import jdump
  # `x0.<links>` is ONE nested expression: link n applied to the sub-expression `x0.<links[:n-1]>`.  An expression is
  # evaluated from the OUTSIDE: a cached expression is looked up first; on a hit it is the stored object and its
  # sub-expressions are not evaluated at all (so they are neither looked up nor refreshed in the LRU); on a miss the
  # sub-expression is evaluated (recursively, with its own look-ups and insertions), the link is applied and the
  # result is stored LAST.  With a small bound the order matters: the inner cached link is inserted before the
  # outer one, so the outer one is the most recent entry (an inside-out loop over the links looks the inner link up
  # first and, at capacity 1, evicts the outer entry a hit on which would have made the inner look-up unnecessary).
  paths, path = [], ()
  for l in links:
    path = path + (jdump({k: l[k] for k in ('l', 'name', 'key', 'args') if k in l}),)
    paths.append(path)

  def ev(n):
    if n == 0:
      return x0
    l = links[n - 1]
    if l.get('cache'):
      hit, v = lru.get(_Key(root, paths[n - 1]))
      if hit:
        return v
    x = ev(n - 1)
    if isinstance(x, _Held):
      x = x.obj                    # a lazy result in the middle of an expression is the object itself
    if l['l'] == 'attr':
      y = getattr(x, l['name'])
    elif l['l'] == 'item':
      y = x[S.pv(l['key'])]
    else:
      y = x(*[S.pv(a) for a in l['args']])
    if l.get('lazy'):
      y = _Held(y)
    if l.get('cache'):
      lru.put(_Key(root, paths[n - 1]), y)
    return y

  return ev(len(links))


def run_twin(ops, fn_max, err_kind):
  """Ordinary Python on ordinary objects.  A link marked cache_result is looked up in a textbook LRU of capacity
  `fn_max` keyed by (object, links so far): a hit returns the stored object, a miss evaluates and stores — written
  from the property statement ('evaluates once and afterwards returns the identical object until the cache is
  cleared or evicts it')."""
  from harness.core import jdump
  vars_, obs = [], []
  lru = lib_c17.RefLRU(fn_max)

  def chain(root, x0, links):
    return twin_chain(lru, root, x0, links)

  for op in ops:
    k = op['op']
    h = vars_[op['h']] if 'h' in op and op['h'] < len(vars_) else None
    held = None
    thunk, keep = None, False
    if k == 'mk':
      thunk, keep = (lambda: S.CLASSES[op['cls']](*[S.pv(a) for a in op['args']])), True
    elif k == 'clear':
      lru.clear()
      ob = {'val': None}
    elif h is None:
      ob = {'skip': True}
    elif k == 'get':
      thunk, keep = (lambda: chain(op['h'], h.obj, op['links'])), bool(op.get('lazy')) and bool(op['links'])
    elif k == 'getf':
      thunk = lambda: chain(op['h'], h.obj, op['links'])
    elif k == 'iter':
      thunk, keep = (lambda: iter(chain(op['h'], h.obj, op['links']))), True
    elif k == 'next':
      thunk = lambda: next(h.obj)
    if thunk is not None:
      try:
        r = thunk()
        if isinstance(r, _Held):
          r, keep = r.obj, True
        if keep:
          held = _Held(r)
          ob = {'remote': ('var', len(vars_))}
        else:
          ob = enc_result(r, None, _NoLazy)
      except Exception as e:  # pylint: disable=broad-except
        ob = enc_err(e, err_kind)
    vars_.append(held)
    obs.append(ob)
  return obs


class _Held:
  def __init__(self, obj):
    self.obj = obj


class _NoLazy:
  class LazyObject:
    pass

  class LazyFn:
    pass


def renumber(obs):
  """handle ids -> order of first appearance (the real ids come from a process-wide counter)."""
  m, out = {}, []
  for ob in obs:
    ob = dict(ob)
    if 'remote' in ob:
      ob['remote'] = m.setdefault(jkey(ob['remote']), len(m))
    out.append(ob)
  return out


def jkey(x):
  return tuple(x) if isinstance(x, (list, tuple)) else x


# ----------------------------------------------------------------------------- oracle + coverage

def same_result(a, b, with_fn=False):
  ka = {k: v for k, v in a.items() if with_fn or k != 'fn'}
  kb = {k: v for k, v in b.items() if with_fn or k != 'fn'}
  return ka == kb


def first_difference(ops, xs, ys, what_x, what_y):
  from harness.core import jdump
  if len(xs) != len(ys):
    return f'{len(xs)} observations ({what_x}) vs {len(ys)} ({what_y})'
  for i, (a, b) in enumerate(zip(xs, ys)):
    if not same_result(a, b):
      return (f'step {i} {jdump(ops[i])[:200]}: {what_x} gives {jdump(_nofn(a))[:200]}, {what_y} gives '
              f'{jdump(_nofn(b))[:200]}')
  return None


def _nofn(ob):
  return {k: v for k, v in ob.items() if k != 'fn'}


def plain_op(op):
  """an op whose expression carries no explicit flag (Lean: `Op.plain`; everything RemoteObject / RemoteIterator builds)"""
  return op['op'] != 'getf' or not any(l.get('cache') or l.get('lazy') for l in op['links'])


def branches(ops, twin):
  """Coverage of a history, measured on the case and the twin (reference) pass only."""
  from harness.core import jdump
  out = []
  seen = {}            # (object var, links) -> last observation of a pure read
  alias = {}           # var index -> var index of the object it aliases (lazy get on the same object)
  mutated_since_next = {}
  cached_seen = {}
  epoch = 0
  for i, (op, ob) in enumerate(zip(ops, twin)):
    k = op['op']
    if k == 'clear':
      epoch += 1
      continue
    if ob.get('skip'):
      continue
    if 'err' in ob:
      out.append('hist raises ' + ob['err'])
    links = op.get('links', [])
    pure = k in ('get', 'getf') and links and all(l['l'] != 'call' for l in links)
    if k == 'get' and pure:
      key = (op['h'], jdump(links))
      if key in seen and seen[key] != _nofn(ob):
        first = links[0]['l'] + ('+' + links[1]['l'] if len(links) > 1 else '')
        out.append('re-read after mutation: ' + first)
        if links[0]['l'] == 'attr' and links[0]['name'] in ('double', 'last', 'size'):
          out.append('re-read after mutation: property')
      seen[key] = _nofn(ob)
    if k == 'get' and op.get('lazy') and 'remote' in ob:
      out.append('lazy call returns a second handle')
      alias[i] = op['h']
    if k in ('get', 'getf') and op['h'] in alias and pure:
      out.append('read through an alias handle')
    if k == 'get' and not links and 'snap' in ob:
      out.append('whole object copied')
    if k == 'get' and 'method' in ob:
      out.append('bound method')
    if k == 'iter' and 'remote' in ob:
      out.append('iterator handle' + (' (iter of an iterator)' if not links else ''))
    if k == 'get' and any(l['l'] == 'call' for l in links) and 'err' not in ob:
      for j in list(mutated_since_next):
        mutated_since_next[j] = True
    if k == 'next':
      if 'val' in ob and mutated_since_next.get(op['h']):
        out.append('next after the underlying object was mutated')
      if ob.get('err') == 'StopIteration':
        out.append('end of a stateful iterator')
      mutated_since_next[op['h']] = False
    if k == 'getf':
      for n, l in enumerate(links):
        if l.get('cache'):
          key = (op['h'], jdump([{a: b for a, b in x.items() if a not in ('cache', 'lazy')} for x in links[:n + 1]]))
          if key in cached_seen:
            out.append('cached link evaluated again' + (' after clear_cache' if cached_seen[key] < epoch else ''))
          cached_seen[key] = epoch
      if any(l.get('lazy') for l in links[:-1]):
        out.append('lazy result inside an expression')
  return out


NEED_PLAIN = ['re-read after mutation: attr', 're-read after mutation: property', 're-read after mutation: attr+item',
              're-read after mutation: item', 'lazy call returns a second handle', 'read through an alias handle',
              'whole object copied', 'bound method', 'iterator handle', 'iterator handle (iter of an iterator)',
              'next after the underlying object was mutated', 'end of a stateful iterator',
              'hist raises AttributeError', 'hist raises KeyError', 'hist raises ValueError', 'hist raises TypeError',
              'hist raises IndexError']
NEED_FLAGS = ['cached link evaluated again', 'cached link evaluated again after clear_cache',
              'lazy result inside an expression']


# ----------------------------------------------------------------------------- model

def model_request(case, local=False):
  return dict(model='remotestate', fn_max=case['fn_max'], ops=case['ops'], local=local)


def compare_model(ops, impl, model, what='code'):
  """observations + cache_info of the real pass vs the Lean model (exception messages are not modelled)"""
  from harness.core import jdump
  if len(impl) != len(model):
    return f'{len(impl)} observations ({what}) vs {len(model)} (model)'
  for i, (a, b) in enumerate(zip(impl, model)):
    a = {k: v for k, v in a.items() if k != 'msg'}
    if a != b:
      return f'step {i} {jdump(ops[i])[:160]}: {jdump(a)[:200]} ({what}) vs {jdump(b)[:200]} (model)'
  return None


# ----------------------------------------------------------------------------- search helpers

def drop_op(case, i):
  """the case without op i (None when a later op uses the handle it returned)"""
  import copy
  ops = case['ops']
  if any(op.get('h') == i for op in ops[i + 1:]):
    return None
  c = copy.deepcopy(case)
  del c['ops'][i]
  for op in c['ops'][i:]:
    if 'h' in op and op['h'] > i:
      op['h'] -= 1
  return c


def shrink(case, fails):
  cur, changed = case, True
  while changed:
    changed = False
    for i in reversed(range(len(cur['ops']))):
      c = drop_op(cur, i)
      if c is not None and c['ops'] and fails(c):
        cur, changed = c, True
        break
  return cur
