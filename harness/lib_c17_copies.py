"""'copies' cases of the C17 check: a cached call (`cache_result_=True`) whose arguments are unhashable and / or have an
ambiguous `==` (ndarrays, lists, dicts, tuples holding arrays, `Amb`), materialised through DISTINCT COPIES with the
same id (the pickled bytes loaded again and again — what a server does with every request), through the same object,
and through re-traced expressions.   Model: lean/MlModel/Model/LazyEq.lean, theorems: Properties/C17Eq.lean.

  {'kind': 'copies', 'fn_max': n,
   'exprs': [{'args': [[kind, weights]], 'kw': [[kind, weights]] (bias=), 'lazy_arg': bool, 'chain': None | x}],
   'steps': [['make', e, how], ['clear']]}
  how:  'same'    maybe_make(the expression object)
        'bytes'   maybe_make(pickler.dumps(expression))        -> a new copy with the same id, new argument objects
        'retrace' the call is traced again with the SAME argument objects (new id), then made
        'recopy'  traced again with COPIES of the arguments (new id), then made
  chain x: the expression is `Model(..., cache_result_=True)(x)` — the cached constructor inside an un-cached call.

Oracle (from the property statement): no exception; the value is the eager value; a cached call evaluates once and
afterwards returns the identical object until the cache is cleared or evicts it (textbook LRU of the bound); "the same
call" = the same traced expression (its id, also after any number of serialisation round trips), or — for hashable
arguments — an equal one.
"""
import copy as _copy

from harness import lib_c17 as lib

KINDS = ['ndarray', 'ndarray', 'ndarray2d', 'ndarray1', 'list', 'dict', 'amb', 'tuple', 'int', 'tuple_arr']
HASHABLE = {'tuple', 'int'}
HOWS = ['same', 'bytes', 'bytes', 'bytes', 'retrace', 'recopy']


def gen_copies_case(rng, kind=None):
  exprs = []
  for _ in range(rng.choice([1, 1, 2, 3])):
    k = kind or rng.choice(KINDS)
    w = [rng.randrange(1, 5) for _ in range(3)]
    e = {'args': [[k, w]], 'kw': [], 'lazy_arg': False, 'chain': None}
    r = rng.random()
    if r < 0.25:
      e['kw'] = [[rng.choice(KINDS), [rng.randrange(1, 5) for _ in range(3)]]]
    elif r < 0.4:
      e['lazy_arg'] = True                       # Model(ones(3), bias=<arg>): a lazy argument next to the array
      e['kw'], e['args'] = e['args'], []
    if rng.random() < 0.3:
      e['chain'] = rng.randrange(1, 4)
    exprs.append(e)
  steps = []
  for _ in range(rng.randrange(2, 9)):
    if rng.random() < 0.1:
      steps.append(['clear'])
    else:
      steps.append(['make', rng.randrange(len(exprs)), rng.choice(HOWS)])
  return {'kind': 'copies', 'fn_max': rng.choice([128, 128, 128, 1, 2]), 'exprs': exprs, 'steps': steps}


def fixed_copies_cases():
  """the demo of seeded/C17-m6 (three copies of the bytes, per argument kind), + the same object twice"""
  out = []
  for k in ['ndarray', 'ndarray2d', 'ndarray1', 'list', 'dict', 'amb', 'tuple', 'int', 'tuple_arr']:
    e = {'args': [[k, [1, 2, 3]]], 'kw': [], 'lazy_arg': False, 'chain': None}
    for chain in (None, 2):
      out.append({'kind': 'copies', 'fn_max': 128, 'exprs': [dict(e, chain=chain)],
                  'steps': [['make', 0, 'bytes'], ['make', 0, 'bytes'], ['make', 0, 'bytes'], ['make', 0, 'same'],
                            ['clear'], ['make', 0, 'same'], ['make', 0, 'same'], ['make', 0, 'bytes'],
                            ['make', 0, 'retrace'], ['make', 0, 'bytes'], ['make', 0, 'recopy'], ['make', 0, 'bytes']]})
    out.append({'kind': 'copies', 'fn_max': 128,
                'exprs': [{'args': [], 'kw': [[k, [1, 2, 3]]], 'lazy_arg': True, 'chain': None}],
                'steps': [['make', 0, 'bytes'], ['make', 0, 'bytes'], ['make', 0, 'bytes']]})
  return out


# ----------------------------------------------------------------------------- real code

def _trace_expr(lf, e, args, kw):
  pos = [lf.trace(lib.ones)(3)] if e['lazy_arg'] else []
  kwargs = {'bias': kw[0]} if kw else {}
  node = lf.trace(lib.Model)(*pos, *args, cache_result_=True, **kwargs)
  return node(e['chain']) if e['chain'] is not None else node


def run(case, err_kind):
  from ml_metrics._src.chainables import lazy_fns as lf
  fn_cache = lf.LazyFn.result_.cache_info.__self__
  saved = fn_cache.maxsize
  lf.clear_cache()
  lf.clear_object()
  fn_cache.maxsize = case['fn_max']
  lib.reset()
  base = [([lib.copy_arg(k, w) for k, w in e['args']], [lib.copy_arg(k, w) for k, w in e['kw']]) for e in case['exprs']]
  cur = [_trace_expr(lf, e, a, kw) for e, (a, kw) in zip(case['exprs'], base)]
  obs, serials = [], {}
  try:
    for st in case['steps']:
      n0 = len(lib.LOG)
      if st[0] == 'clear':
        lf.clear_cache()
        ob = {'out': 'cleared'}
      else:
        _, i, how = st
        e = case['exprs'][i]
        if how == 'retrace':
          cur[i] = _trace_expr(lf, e, *base[i])
        elif how == 'recopy':
          cur[i] = _trace_expr(lf, e, *_copy.deepcopy(base[i]))
        try:
          r = lf.maybe_make(lf.pickler.dumps(cur[i]) if how == 'bytes' else cur[i])
          if e['chain'] is not None:
            val, serial = {'call': list(r[0])}, r[1]
          else:
            val, serial = {'model': ['ones' if e['lazy_arg'] else lib.flat(r.weights), lib.flat(r.bias)]}, r.serial
          ob = {'out': 'ok', 'val': val, 'ident': serials.setdefault(serial, len(serials))}
        except Exception as ex:  # pylint: disable=broad-except
          ob = {'out': 'err', 'kind': err_kind(ex), 'msg': str(ex)[:120]}
      info = lf.cache_info()
      ob['calls'] = lib.LOG[n0:]
      ob['fn'] = [info.hits, info.misses, info.currsize]
      obs.append(ob)
  finally:
    fn_cache.maxsize = saved
    lf.clear_cache()
    lf.clear_object()
  return {'copies': obs}


# ----------------------------------------------------------------------------- oracle

def _eager(e):
  """the eager value, computed here (not through the library): weights, bias, call result"""
  args = e['args'] or []
  w = 'ones' if e['lazy_arg'] else _flat_of(*args[0])
  b = _flat_of(*e['kw'][0]) if e['kw'] else []
  if e['chain'] is not None:
    base = [1.0, 1.0, 1.0] if e['lazy_arg'] else w
    return {'call': [v * e['chain'] for v in base]}
  return {'model': [w, b]}


def _flat_of(kind, w):
  if kind == 'ndarray2d':
    return [float(v) for v in w + w]
  if kind == 'ndarray1':
    return [float(w[0])]
  if kind == 'int':
    return [float(w[0])]
  return [float(v) for v in w]


def hashable(e):
  return all(k in HASHABLE for k, _ in e['args'] + e['kw'])


def oracle(case, obs):
  lru = lib.RefLRU(case['fn_max'])
  token = list(range(len(case['exprs'])))       # which trace of expression i is current
  fresh = len(token)
  for n, (st, ob) in enumerate(zip(case['steps'], obs['copies'])):
    where = f'step {n} {st}'
    if st[0] == 'clear':
      lru.clear()
      continue
    _, i, how = st
    e = case['exprs'][i]
    if how in ('retrace', 'recopy'):
      token[i], fresh = fresh, fresh + 1
    if ob['out'] != 'ok':
      return (f'{where} (arguments {[k for k, _ in e["args"] + e["kw"]]}): materialising the cached call raised '
              f'{ob.get("kind")}: {ob.get("msg")}')
    want = _eager(e)
    if _num(ob['val']) != _num(want):
      return f'{where}: maybe_make gives {ob["val"]}, eager evaluation gives {want}'
    # hashable arguments: the call is identified by its VALUE (Model(4) is Model(4) whoever traced it)
    value = repr([[(k, _flat_of(k, w)) for k, w in e['args']], [(k, _flat_of(k, w)) for k, w in e['kw']], e['lazy_arg']])
    key = ('value', value) if hashable(e) else ('id', token[i])
    hit, stored = lru.get(key)
    built = ob['calls'].count('Model')
    if hit:
      if built or ob['ident'] != stored:
        return (f'{where}: the cached call was evaluated before and is still cached: the identical object must come '
                f'back without evaluating again; constructor ran {built}x, object #{ob["ident"]} (stored: #{stored})')
    else:
      if built != 1:
        return f'{where}: a cached call that is not in the cache evaluates exactly once; constructor ran {built}x'
      lru.put(key, ob['ident'])
  return None


def _num(v):
  k = next(iter(v))
  x = v[k]
  if k == 'call':
    return [float(a) for a in x]
  return [x[0] if x[0] == 'ones' else [float(a) for a in x[0]], [float(a) for a in x[1]]]


# ----------------------------------------------------------------------------- model

_ARGV = {'ndarray': 'arr', 'ndarray2d': 'arr', 'ndarray1': 'arr', 'list': 'list', 'dict': 'list', 'amb': 'amb',
         'tuple': 'tup', 'int': 'int', 'tuple_arr': 'tuparr'}


def _argv(kind, w):
  t = _ARGV[kind]
  if t == 'amb':
    return {'amb': True}
  if t == 'int':
    return {'int': w[0]}
  if kind == 'ndarray2d':
    return {t: w + w}
  if kind == 'ndarray1':
    return {t: w[:1]}
  return {t: list(w)}


def model_request(case, variant='real'):
  """Object identities and ids as symbolic numbers: every trace gets a new id; `bytes` gives every object a new
  identity; `retrace` keeps the argument objects, `recopy` renews them."""
  counter = [0]

  def new():
    counter[0] += 1
    return counter[0]

  def arg_vals(e):
    vals = [{'int': 1000}] if e['lazy_arg'] else []       # a lazy argument: hashable, `==` is a bool
    return vals + [_argv(k, w) for k, w in e['args'] + e['kw']]

  cur = []
  for e in case['exprs']:
    vals = arg_vals(e)
    cur.append({'oid': new(), 'id': new(), 'fn': 'Model', 'args': [{'oid': new(), 'v': v} for v in vals]})
  steps = []
  for st in case['steps']:
    if st[0] == 'clear':
      steps.append({'s': 'clear'})
      continue
    _, i, how = st
    x = cur[i]
    if how == 'retrace':
      x = cur[i] = {'oid': new(), 'id': new(), 'fn': 'Model', 'args': [dict(a) for a in x['args']]}
      if case['exprs'][i]['lazy_arg']:
        x['args'][0] = dict(x['args'][0], oid=new())       # the lazy argument is traced again
    elif how == 'recopy':
      x = cur[i] = {'oid': new(), 'id': new(), 'fn': 'Model', 'args': [dict(a, oid=new()) for a in x['args']]}
    elif how == 'bytes':
      x = {'oid': new(), 'id': x['id'], 'fn': 'Model', 'args': [dict(a, oid=new()) for a in x['args']]}
    steps.append({'s': 'make', 'x': x})
  return dict(model='lazyeq', fn_max=case['fn_max'], variant=variant, steps=steps)


def compare(case, impl, model):
  a, b = impl['copies'], model['steps']
  if len(a) != len(b):
    return f'{len(a)} observations (code) vs {len(b)} (model)'
  objs = {}
  for n, (x, y) in enumerate(zip(a, b)):
    where = f'step {n} {case["steps"][n]}'
    if y['out'] == 'cleared':
      continue
    if (x['out'] == 'err') != (y['out'] == 'raised'):
      return f'{where}: {x} (code) vs {y} (model)'
    if x['out'] == 'err':
      continue
    built = x['calls'].count('Model')
    if (built == 0) != (y['out'] == 'hit'):
      return f'{where}: constructor ran {built}x (code) vs {y["out"]} (model)'
    if objs.setdefault(y['obj'], x['ident']) != x['ident']:
      return f'{where}: object #{x["ident"]} (code) vs the object of an earlier step (model object {y["obj"]})'
    if x['fn'] != y['fn']:
      return f'{where}: cache_info {x["fn"]} (code) vs {y["fn"]} (model)'
  return None


def branches(case, obs):
  out = []
  seen = set()
  for st, ob in zip(case['steps'], obs['copies']):
    if st[0] != 'make':
      seen = set()
      continue
    _, i, how = st
    e = case['exprs'][i]
    kinds = [k for k, _ in e['args'] + e['kw']]
    amb = any(k in ('ndarray', 'ndarray2d', 'amb', 'tuple_arr') for k in kinds)
    if how == 'bytes' and (i, 'made') in seen:
      for k in kinds:
        out.append(f'second copy with the same id: {k} argument' + (' (inside a call chain)' if e['chain'] is not None
                                                                    else ''))
      if amb and e['kw'] and e['lazy_arg']:
        out.append('second copy: ambiguous keyword argument next to a lazy argument')
    if how in ('retrace', 'recopy'):
      out.append(f'{how}d call: ' + ('hashable' if hashable(e) else 'unhashable') + ' arguments')
      seen.discard((i, 'made'))
    seen.add((i, 'made'))
  return out


NEED = [f'second copy with the same id: {k} argument' for k in sorted(set(KINDS))] + \
       ['second copy with the same id: ndarray argument (inside a call chain)',
        'second copy: ambiguous keyword argument next to a lazy argument',
        'retraced call: hashable arguments', 'retraced call: unhashable arguments',
        'recopyd call: hashable arguments', 'recopyd call: unhashable arguments']


def shrink(case, fails):
  cur, changed = case, True
  while changed:
    changed = False
    for i in reversed(range(len(cur['steps']))):
      c = dict(cur, steps=cur['steps'][:i] + cur['steps'][i + 1:])
      if c['steps'] and fails(c):
        cur, changed = c, True
        break
  return cur
