"""C13, two-level composition: tie of the REAL `piter(iterator_fn, input_iterators=[i_1..i_n], max_parallism=P,
buffer_size, thread_pool)` (n >= 2: a multiplex INPUT queue feeding a shared-input OUTPUT queue in ONE pool) with the
two-queue LTS lean/MlModel/Model/Piter2.lean (driver model "piter2").

The real run is the one of harness/lib_piter.py (`api='piter2'`, deterministic scheduler); this module builds the
model request (the configuration is derived by `Piter2.piterInit` from the SAME arguments the caller passes to
`piter`, so the derived buffer sizes / batch sizes / pool size are inside the compared behaviour), compares the
observations step by step (labels, enabled sets, per-thread outcomes, both queues' `returned`; for a deadlock the
set of blocked threads) and measures the program points of the LTS that the replayed schedules exercised.
"""
from harness import lib_piter as lp


def model_request(case, choices, **kw):
  P = case['par']
  r = dict(model='piter2', buffer_size=case['cap'], workers=(case['workers'] if case['workers'] else None),
           num_steps=case.get('num_steps'), fwd=bool(case.get('fwd')),
           inputs=[dict(items=list(it), ret=900 + i, more=lp.source_rets(case, i)[1:])
                   for i, it in enumerate(case['inputs'])],
           gens=[800 + k for k in range(P)], fn=case['fn'], fail_on=case.get('fail_on'), want_enabled=True,
           schedule=[c[0] if c[1] is None else [c[0], c[1]] for c in choices])
  r.update(kw)
  return r


def explore_request(case, limit):
  r = model_request(case, [])
  r.update(op='explore', limit=limit)
  r.pop('schedule')
  return r


def model_obs(case, resps):
  r = resps[0]
  outcome = 'done' if r['all_done'] else ('deadlock' if not r['enabled'] else 'open')
  return dict(accepted=r['accepted'], trace=r['trace'], threads=r['threads'], outcome=outcome,
              enabled=r['enabled_trace'], nsteps=len(r['trace']), returned=r['returned'], left=r['left'],
              points=r['points'], max_workers=r['max_workers'], two_level=True)


def compare(obs, m):
  """like lib_piter.compare; at a deadlock the real threads are torn down by the scheduler, so instead of the
  per-thread `done` flags the set of blocked threads is compared with the model's unfinished threads."""
  if obs['outcome'] == 'schedule_rejected':
    return f"real code rejected the schedule: {obs['err']}"
  mt = m['threads'][:obs['nthreads']]
  if any(not (t['outcome'] is None and not t['pulled']) for t in m['threads'][obs['nthreads']:]):
    return 'model ran a task the real code never submitted'
  if not m['accepted']:
    k = m['nsteps']
    return f"model rejects choice #{k} {obs['choices'][k] if k < len(obs['choices']) else None} taken by the real code"
  if obs['trace'] != m['trace']:
    for k, (a, b) in enumerate(zip(obs['trace'], m['trace'])):
      if a != b:
        return f'operation #{k}: real {a} vs model {b}'
    return f"trace lengths differ: real {len(obs['trace'])} model {len(m['trace'])}"
  srt = lambda l: sorted(l, key=lambda c: (c[0], c[1] or ''))
  for k, (a, b) in enumerate(zip(obs['enabled'], m['enabled'])):
    if srt(a) != srt(b):
      return f'enabled choices before step {k}: real {srt(a)} vs model {srt(b)}'
  if obs['outcome'] in ('done', 'deadlock') and obs['outcome'] != m['outcome']:
    return f"outcome differs: real {obs['outcome']} vs model {m['outcome']}"
  if obs['outcome'] == 'deadlock':
    real_blocked = sorted(b[0] for b in obs['blocked'])
    model_blocked = sorted(i for i, t in enumerate(mt) if not t['done'])
    if real_blocked != model_blocked:
      return f'blocked threads at the deadlock: real {obs["blocked"]} vs model unfinished {model_blocked} at {m["left"]}'
    strip = lambda ts: [dict(received=t['received'], pulled=t['pulled']) for t in ts]
    if strip(obs['threads']) != strip(mt):
      return f"delivered / pulled values differ at the deadlock: real {strip(obs['threads'])} vs model {strip(mt)}"
    return None
  if obs['threads'] != mt:
    return f"thread outcomes differ: real {obs['threads']} vs model {mt}"
  if obs['returned'] is not None and obs['outcome'] == 'done' and obs['returned'] != m['returned']:
    return f"queue.returned differs: real {obs['returned']} vs model {m['returned']}"
  return None


# ------------------------------------------------------------------ directed cases

def _sched(rng):
  return dict(kind=rng.choice(['random', 'pct', 'pct']), seed=rng.randrange(10**9), changes=rng.randrange(1, 6),
              horizon=rng.choice([50, 150, 400]))


def directed_case(rng, quick=True):
  """two-level shapes at the hazards: first-level enqueuers parked on the full input queue while the output fails,
  is stopped early or ends; pools of every size around the number of tasks; both kinds of iterator_fn."""
  n = rng.randrange(2, 4)
  P = rng.randrange(1, 4)
  maxlen = 4 if quick else 5
  inputs = [[100 * i + j + 1 for j in range(rng.randrange(1, maxlen + 1))] for i in range(n)]
  allv = [v for it in inputs for v in it]
  case = dict(api='piter2', par=P, cap=rng.choice([0, 1, 1, 2]), inputs=inputs, fn=rng.choice(['ident', 'inc', 'dup', 'keep_even']),
              fail_on=None, num_steps=None, max_batch=0, multi_ret=rng.random() < 0.3, sched=_sched(rng), directed2=True)
  # pool: own (0), exactly enough, one more than the inputs (enough in fact), too small
  case['workers'] = rng.choice([0, 0, n + P, n + 1, n + 1, n, 1, 2])
  r = rng.random()
  if r < 0.3:
    case['num_steps'] = rng.randrange(0, 4)
  elif r < 0.5:
    case['fail_on'] = rng.choice(allv)
  elif r < 0.7:
    i = rng.randrange(n)
    inputs[i].insert(rng.randrange(len(inputs[i]) + 1), 'fail')
  if rng.random() < 0.5:
    case['fwd'] = True
    if case['fn'] not in lp.MAP_FNS:
      case['fn'] = rng.choice(lp.MAP_FNS)
  return case


# ------------------------------------------------------------------ program points

# program points of the two-queue LTS that the quick tier has to exercise on the real code (a subset of the points the
# LTS can reach: everything except the timeout alternatives and the assertion branch, which piter never configures)
_Q_BATCH = ['bAcq', 'bE1', 'bE2', 'bE3', 'bEmp', 'bExit', 'bRaise', 'bWait', 'bWake', 'nAcq.batch', 'nEmp.batch',
            'nGet.batch', 'nNaErr.batch', 'nNaOk.batch', 'nRelErr.batch', 'nRelOk.batch']
_Q_BATCH_PARTIAL = ['bR0', 'bR1', 'bR2', 'bR3', 'bR4']     # get_batch found the queue empty with a partial result
_Q_STOP = ['mAcq', 'mRel', 'mE0', 'mE1', 'mE2', 'mD0', 'mD1', 'mD2']
_Q_PROD = ['sAcq', 'sRel', 'pAcq', 'pPut', 'pStAcq', 'pStRel', 'pR0', 'pR1', 'pR2', 'pR3', 'pR4', 'pRet', 'pWait', 'pWake',
           'pExit', 'tAcq', 'tR0', 'tR1', 'tR2', 'tR3', 'tR4', 'tS0', 'tS1', 'tS2', 'tS3', 'tS4', 'tRel']
PROMISED = (['c.boot', 'c.submit', 'c.shutdown'] +
            ['c.iter.' + p for p in _Q_BATCH] +
            ['c.stop2.' + p for p in _Q_STOP] + ['c.stop1.' + p for p in _Q_STOP] +
            ['l1.start', 'l1.eNext'] + ['l1.' + p for p in _Q_PROD] +
            ['l2.start', 'l2.lockAcq', 'l2.lockRel.item', 'l2.lockRel.stop', 'l2.lockRel.err'] +
            ['l2.' + p for p in _Q_PROD] +
            ['l2.deq.' + p for p in _Q_BATCH] + ['l2.up.' + p for p in _Q_STOP])
