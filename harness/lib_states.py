"""How a caller hands several states to `AggregateFn.merge_states(states)` (work package SC11).

`states` is documented as an Iterable: a distributed runner passes a list, a tuple, a generator over the
partial states, an iterator ...  `pack(states, kind)` builds that container; kind None = list (what the
checks passed before).  The objects themselves are never copied: the caller keeps its own references and
reads every one of them after the call.
"""
import collections

KINDS = ('list', 'tuple', 'gen', 'iter', 'deque')


def pack(states, kind=None):
  states = list(states)
  if kind in (None, 'list'):
    return states
  if kind == 'tuple':
    return tuple(states)
  if kind == 'gen':
    return (s for s in states)
  if kind == 'iter':
    return iter(states)
  if kind == 'deque':
    return collections.deque(states)
  raise ValueError(kind)
