"""Shared by harness/props/c08.py and c12.py: wire encoding, the named callable library (mirror of
lean/MlModel/Model/PipeLib.lean), running a case through the public pipeline API, the Python reference
interpreter (the oracle, written from the English statements of C08/C12), and case generators.

Case (JSON, directly understood by the Lean driver, model "pipe"):
  {specs: [spec..], src: {items: [val..], fail: [[index, kind]..], src_ignore: bool, kind: list|seq|gen|iter, twice: bool},
   ignore: bool, threads: 0|1|2|3}
  (kind: list = the list itself; seq = SequenceDataSource over a random-access sequence (shardable, resumable); gen = a
  generator (dead after its first raise); iter = a user iterator class that raises for a failing position and can be
  read further (resumable, NOT shardable); twice: the same record OBJECTS are delivered a second time)
Values on the wire: null/bool/int/str are themselves, {"l":[..]} list, {"t":[..]} tuple, {"d":{..}} dict.
Keys: {"n":name} bare string, {"i":k} Key.Index(k), {"p":[seg..]} Key path (str = name, int = Index),
{"self":1}, {"skip":1}, {"lit":val}; an output key may also be {"dk":[[record_key, key]..]} (dict key; the record key
is a bare string or any key object, the second component is the place read in the function's output).
Key specs: {"one":key} | {"many":[key..]} | (inputs only) {"kw":[[arg_name, key]..]}.
Specs: select{in,out?,batch} apply{fn?,in,out,fn_batch,batch} assign{keys,fn?,in,fn_batch,batch}
filter{fn,in} batch{n} sink{is_sink,fn,in} aggregate{has_fn,out}.
"""
from __future__ import annotations

import copy
import gc

from harness.core import err_kind

ERR_TYPES = {'ValueError': ValueError, 'TypeError': TypeError, 'KeyError': KeyError, 'IndexError': IndexError,
             'RuntimeError': RuntimeError, 'ZeroDivisionError': ZeroDivisionError}
SKIPPABLE = ('ValueError', 'TypeError')      # iter_utils._IGNORE_ERROR_TYPES, checked against the source in extra()


# ----------------------------------------------------------------------------- wire <-> python

def dec(j):
  if j is None or isinstance(j, (bool, int, str)):
    return j
  if 'l' in j:
    return [dec(x) for x in j['l']]
  if 't' in j:
    return tuple(dec(x) for x in j['t'])
  if 'd' in j:
    return {k: dec(v) for k, v in j['d'].items()}
  raise ValueError(f'bad wire value {j}')


def enc(v):
  from ml_metrics._src.chainables import tree
  if v is None or isinstance(v, (bool, int)):
    return v
  if isinstance(v, str):
    return str(v)
  if isinstance(v, tree.NullMap) or v is _NOTHING:
    return {'null': True}
  if isinstance(v, list):
    return {'l': [enc(x) for x in v]}
  if isinstance(v, tuple):
    return {'t': [enc(x) for x in v]}
  if isinstance(v, dict):
    return {'d': {str(k): enc(x) for k, x in v.items()}}
  try:
    import numpy as np
    if isinstance(v, np.generic):
      return enc(v.item())
    if isinstance(v, np.ndarray):
      return {'l': [enc(x) for x in v.tolist()]}
  except Exception:  # pragma: no cover
    pass
  return {'other': type(v).__name__}


# Negative-index view (case field `neg_len` = n): the records of the case are sequences of length n at every
# operator, so the REAL pipeline is built with `Index(k - n)` wherever the case says `Index(k)`, 0 <= k < n, at the
# top of the record; the model and the Python reference keep the non-negative key.  Python's `seq[k - n] is seq[k]`
# is the identity relied on (trusted, harness-level); the model has natural-number indices only.
_NEG_LEN = None


def _neg(k):
  return k - _NEG_LEN if _NEG_LEN and 0 <= k < _NEG_LEN else k


def mk_key(j):
  from ml_metrics._src.chainables import tree
  K = tree.Key
  if 'n' in j:
    return j['n']
  if 'i' in j:
    return K.Index(_neg(j['i']))
  if 'p' in j:
    k = K()
    for n, s in enumerate(j['p']):
      k = k.at(K.Index(_neg(s) if n == 0 else s) if isinstance(s, int) else s)
    return k
  if 'self' in j:
    return K.SELF
  if 'skip' in j:
    return K.SKIP
  if 'lit' in j:
    return K.Literal(dec(j['lit']))
  raise ValueError(f'bad key {j}')


def rk_json(n):
  """the record key of a dict output key item as a key object on the wire"""
  return {'n': n} if isinstance(n, str) else n


def mk_out_key(j):
  if 'dk' in j:
    return {(n if isinstance(n, str) else mk_key(n)): mk_key(k) for n, k in j['dk']}
  return mk_key(j)


def mk_in_spec(j):
  if 'one' in j:
    return mk_key(j['one'])
  if 'many' in j:
    return tuple(mk_key(k) for k in j['many'])
  if 'kw' in j:
    return {n: mk_key(k) for n, k in j['kw']}
  raise ValueError(j)


def mk_out_spec(j):
  if 'one' in j:
    return mk_out_key(j['one'])
  return tuple(mk_out_key(k) for k in j['many'])


# ----------------------------------------------------------------------------- callable library

def _as_int_ok(x):
  return isinstance(x, int)      # bool included, like Python arithmetic


def _in_set(s, x):
  return isinstance(x, int) and int(x) in s


def make_fn(j):
  """A fresh callable for the wire description `j` (fresh: `counter` is stateful)."""
  name = j['f']
  if name == 'add1':
    def add1(x): return x + 1 if _as_int_ok(x) else _type_error()
    return add1
  if name == 'pair':
    def pair(x): return (x, x + 1) if _as_int_ok(x) else _type_error()
    return pair
  if name == 'swap':
    def swap(x, y): return (y, x)
    return swap
  if name == 'sum2':
    def sum2(x, y): return int(x) + int(y) if _as_int_ok(x) and _as_int_ok(y) else _type_error()
    return sum2
  if name == 'is_even':
    def is_even(x): return x % 2 == 0 if _as_int_ok(x) else _type_error()
    return is_even
  if name == 'neg':
    def neg(x): return -int(x) if _as_int_ok(x) else _type_error()
    return neg
  if name == 'ident':
    def ident(x): return x
    return ident
  if name == 'mk_dict':
    def mk_dict(x): return {'u': x, 'v': -int(x)} if _as_int_ok(x) else _type_error()
    return mk_dict
  if name == 'triple':
    def triple(x): return (x, x + 1, x + 2) if _as_int_ok(x) else _type_error()
    return triple
  if name == 'wrap1':
    def wrap1(x): return (x,)
    return wrap1
  if name == 'empty':
    def empty(x): return ()
    return empty
  if name == 'first':
    def first(x):
      if isinstance(x, dict):
        raise KeyError(0)
      if isinstance(x, str):
        if not x:
          raise IndexError('empty')
        return x[0]
      if not isinstance(x, (list, tuple)):
        _type_error()
      return x[0]
    return first
  if name == 'tup':
    def tup(*args): return tuple(args)
    return tup
  if name == 'const':
    c = dec(j['c'])
    def const(*args, **kwargs): return c
    return const
  if name == 'counter':
    box = [0]
    def counter(*args, **kwargs):
      box[0] += 1
      return box[0]
    return counter
  if name == 'gt':
    c = j['c']
    def gt(x): return int(x) > c if _as_int_ok(x) else _type_error()
    return gt
  if name == 'fail_on':
    s, exc = set(j['s']), ERR_TYPES[j['kind']]
    def fail_on(x):
      if _in_set(s, x):
        raise exc(f'fail_on {x}')
      return x
    return fail_on
  if name == 'v_add1':
    def v_add1(x): return [e + 1 if _as_int_ok(e) else _type_error() for e in _rows(x)]
    return v_add1
  if name == 'v_pair':
    def v_pair(x): return (list(_rows(x)), [e + 1 if _as_int_ok(e) else _type_error() for e in _rows(x)])
    return v_pair
  if name == 'v_fail_on':
    s, exc = set(j['s']), ERR_TYPES[j['kind']]
    def v_fail_on(x):
      rows = list(_rows(x))
      if any(_in_set(s, e) for e in rows):
        raise exc('v_fail_on')
      return rows
    return v_fail_on
  if name == 'v_sum2':
    def v_sum2(x, y):
      a, b = list(_rows(x)), list(_rows(y))
      if len(a) != len(b):
        raise ValueError('ragged')
      return [int(p) + int(q) if _as_int_ok(p) and _as_int_ok(q) else _type_error() for p, q in zip(a, b)]
    return v_sum2
  raise ValueError(f'unknown function {name}')


def _type_error():
  raise TypeError('bad operand')


def _rows(x):
  if not isinstance(x, (list, tuple)):
    _type_error()
  return x


class RecSink:
  """A sink that records every successful write; `fn` decides whether a write fails."""

  def __init__(self, fn):
    self._fn = fn
    self.log = []
    self.held = []          # the very objects that were written (a sink may keep what it is given)
    self.closed = 0
    self.write_after_close = 0

  def write(self, *args, **kwargs):
    self._fn(*args, **kwargs)
    if self.closed:
      self.write_after_close += 1
    self.log.append({'a': [enc(a) for a in args], 'k': {k: enc(v) for k, v in kwargs.items()}})
    self.held.append((args, kwargs))

  def held_changed(self):
    """index of the first write whose argument objects no longer read as they did when they were written"""
    for i, ((args, kwargs), then) in enumerate(zip(self.held, self.log)):
      if {'a': [enc(a) for a in args], 'k': {k: enc(v) for k, v in kwargs.items()}} != then:
        return i
    return None

  def close(self):
    self.closed += 1


class NotASink:
  def __call__(self, *a, **k):
    return None


class CountAgg:
  """A trivial Aggregatable (counts batches) for build-order cases."""

  def create_state(self): return 0
  def update_state(self, state, *inputs): return state + 1
  def merge_states(self, states): return sum(states)
  def get_result(self, state): return state


class FailingSeq:
  """A random-access sequence; reading a listed index raises."""

  def __init__(self, items, fail):
    self._items, self._fail = items, dict(fail)

  def __len__(self):
    return len(self._items)

  def __getitem__(self, i):
    if isinstance(i, slice):
      return [self[j] for j in range(*i.indices(len(self._items)))]
    if i in self._fail:
      raise ERR_TYPES[self._fail[i]](f'cannot read {i}')
    return self._items[i]


class FailingIterable:
  """An iterable (not a sequence: not shardable) whose iterator raises for a listed position and can be read further."""

  def __init__(self, items, fail):
    self._items, self._fail = items, dict(fail)

  def __iter__(self):
    return _FailingIterator(self._items, self._fail)


class _FailingIterator:

  def __init__(self, items, fail):
    self._items, self._fail, self._i = items, fail, 0

  def __iter__(self):
    return self

  def __next__(self):
    if self._i >= len(self._items):
      raise StopIteration()
    i = self._i
    self._i += 1
    if i in self._fail:
      raise ERR_TYPES[self._fail[i]](f'cannot read {i}')
    return self._items[i]


# ----------------------------------------------------------------------------- the real code

def build_pipeline(case, sinks, data_source=None):
  from ml_metrics import chainable
  p = chainable.Pipeline.new(num_threads=case.get('threads', 0))
  if data_source is not None:
    p = p.data_source(data_source)          # the source belongs to the pipeline: make(shard=..) / iterate() without argument
  for sp in case['specs']:
    op = sp['op']
    if op == 'select':
      out = mk_out_spec(sp['out']) if sp.get('out') is not None else None
      p = p.select(mk_in_spec(sp['in']), out, batch_size=sp.get('batch', 0))
    elif op == 'apply':
      fn = make_fn(sp['fn']) if sp.get('fn') is not None else None
      p = p.apply(fn=fn, input_keys=mk_in_spec(sp['in']), output_keys=mk_out_spec(sp['out']),
                  fn_batch_size=sp.get('fn_batch', 0), batch_size=sp.get('batch', 0))
    elif op == 'assign':
      fn = make_fn(sp['fn']) if sp.get('fn') is not None else None
      p = p.assign(mk_out_spec(sp['keys']), fn=fn, input_keys=mk_in_spec(sp['in']),
                   fn_batch_size=sp.get('fn_batch', 0), batch_size=sp.get('batch', 0))
    elif op == 'filter':
      p = p.filter(make_fn(sp['fn']), input_keys=mk_in_spec(sp['in']))
    elif op == 'batch':
      p = p.batch(sp.get('n', 0))
    elif op == 'sink':
      s = RecSink(make_fn(sp['fn'])) if sp['is_sink'] else NotASink()
      p = p.sink(s, input_keys=mk_in_spec(sp['in']))
      sinks.append(s)
    elif op == 'aggregate':
      p = p.aggregate(fn=CountAgg() if sp['has_fn'] else None, output_keys=mk_out_spec(sp['out']))
    else:
      raise ValueError(op)
  return p


def _snapshot(obj, path=()):
  """(path, id) of every container inside `obj`."""
  out = []
  if isinstance(obj, (list, tuple, dict)):
    out.append((path, id(obj)))
    items = obj.items() if isinstance(obj, dict) else enumerate(obj)
    for k, v in items:
      out += _snapshot(v, path + (k,))
  return out


def make_source(src, items):
  from ml_metrics._src.chainables import io
  kind = src.get('kind', 'list')
  fail = [(i, k) for i, k in src.get('fail', [])]
  if kind == 'list':
    assert not fail
    return items
  if kind == 'seq':
    seq = FailingSeq(items, fail)
    if src.get('nest'):
      # the same sequence behind two levels of MergedSequences: slicing the inner level yields a LAZY iterator, so a
      # failing read surfaces in the middle of the outer read-ahead batch (the model still sees `items` with `fail`)
      from ml_metrics._src.utils import iter_utils
      b1, b2 = src['nest']
      seq = iter_utils.MergedSequences([iter_utils.MergedSequences([seq], max_batch_size=b1)], max_batch_size=b2)
    return io.SequenceDataSource(seq, ignore_error=bool(src.get('src_ignore')))
  if kind == 'iter':
    return FailingIterable(items, fail)
  if kind == 'gen':
    f = dict(fail)
    def gen():
      for i, x in enumerate(items):
        if i in f:
          raise ERR_TYPES[f[i]](f'cannot read {i}')
        yield x
    return gen()
  raise ValueError(kind)


def shard_bounds(length, k, n):
  """shard k of n of a sequence of `length` records: the k-th of n contiguous blocks whose sizes differ by at most one,
  the longer ones first (the rule of the English text of property C09; computed here, not asked from the code)"""
  q, r = divmod(length, n)
  lo = k * q + min(k, r)
  return lo, lo + q + (1 if k < r else 0)


def effective_case(case):
  """The plain case (no route) that says which records the pipeline iterator of a ROUTED case has to read: a route
  (`src.route`: how the data source reaches the runner) never changes the outcome of reading a record nor whether the
  source skips — only which contiguous part of the sequence is read."""
  route = case['src'].get('route')
  if not route:
    return case
  c = copy.deepcopy(case)
  src = c['src']
  del src['route']
  via, n_items = route['via'], len(src['items'])
  lo, hi = 0, n_items
  if via in ('shard', 'make_shard'):
    lo, hi = shard_bounds(n_items, route['k'], route['n'])
  elif via == 'src_from_state':
    lo = route['j']           # the source iterator whose state was captured had delivered j records (none failing among them)
  src['items'] = src['items'][lo:hi]
  src['fail'] = [[i - lo, kd] for i, kd in src.get('fail', []) if lo <= i < hi]
  return c


def routed_iterator(p, source, via, route, ignore, out):
  """The pipeline iterator, the data source reaching the runner by the route `via`:
  direct          p.make().iterate(source)
  shard           p.make().iterate(source.shard(k, n))
  make_shard      p.data_source(source) ... .make(shard=ShardConfig(k, n)).iterate()      (what a distributed worker does)
  src_from_state  a source iterator restored from the state of another one that had delivered j records
  restored        a pipeline iterator restored (from_state) from the state of another one that had delivered j outputs
                  (those j outputs are the head of `out`)"""
  from ml_metrics._src.chainables import io
  if via == 'direct':
    return p.make().iterate(source, ignore_error=ignore)
  if via == 'shard':
    return p.make().iterate(source.shard(route['k'], route['n']), ignore_error=ignore)
  if via == 'make_shard':
    return p.make(shard=io.ShardConfig(route['k'], route['n'])).iterate(ignore_error=ignore)
  if via == 'src_from_state':
    it0 = source.iterate()
    for _ in range(route['j']):
      next(it0)
    return p.make().iterate(source.iterate().from_state(it0.state), ignore_error=ignore)
  if via == 'restored':
    it0 = p.make().iterate(ignore_error=ignore)
    for _ in range(route['j']):
      out.append(enc(next(it0)))
    return p.make().iterate(ignore_error=ignore).from_state(it0.state)
  raise ValueError(via)


def _disown_pool_threads():
  """How many of the runner's helper threads are still alive after the iteration ended.  A thread that is parked
  for ever (e.g. a producer on a full queue) would also block the exit of this harness process: it is taken off
  the interpreter's exit-time join lists."""
  import concurrent.futures.thread as cft
  import threading
  import time
  alive = [t for t in threading.enumerate() if t.name.startswith('multiplex_pool') and t.is_alive()]
  if alive:
    time.sleep(0.05)
    alive = [t for t in alive if t.is_alive()]
  for t in alive:
    cft._threads_queues.pop(t, None)                          # pylint: disable=protected-access
    locks = getattr(threading, '_shutdown_locks', None)
    if locks is not None and getattr(t, '_tstate_lock', None) is not None:
      locks.discard(t._tstate_lock)                           # pylint: disable=protected-access
  return len(alive)


class Hang(Exception):
  pass


def run_case(case, limit=20):
  """`_run_case` under a watchdog: a case that does not finish within `limit` seconds is reported as a hang (the
  cases are tiny: milliseconds)."""
  import signal

  def on_alarm(signum, frame):
    raise Hang()
  try:
    old = signal.signal(signal.SIGALRM, on_alarm)
  except ValueError:        # not in the main thread: no watchdog
    return _run_case(case)
  signal.alarm(limit)
  try:
    return _run_case(case)
  except Hang:
    return dict(build=None, hang=True)
  except RecursionError:
    return dict(build=None, hang=True, recursion=True)
  finally:
    signal.alarm(0)
    signal.signal(signal.SIGALRM, old)


def _run_case(case):
  """The real pipeline through the public API; returns the canonical observation."""
  global _NEG_LEN
  _NEG_LEN = case.get('neg_len')
  try:
    return _run_case_(case)
  finally:
    _NEG_LEN = None


def _run_case_(case):
  from absl import logging as alog
  alog.set_verbosity(alog.FATAL)        # the runner logs every exception it re-raises
  sinks = []
  route = case['src'].get('route') or {}
  via = route.get('via', 'direct')
  owned = via in ('make_shard', 'restored')     # the data source is given to the pipeline (.data_source(..)), not to iterate()
  items = source = None
  if owned:
    items = [dec(x) for x in case['src']['items']]
    source = make_source(case['src'], items)
  try:
    p = build_pipeline(case, sinks, data_source=source)
  except Exception as e:  # pylint: disable=broad-except
    return dict(build=err_kind(e))
  if any(sp['op'] == 'aggregate' and sp['has_fn'] for sp in case['specs']):
    return dict(build=None, agg=True)      # what an aggregate does at run time is property C02
  if not owned:
    items = [dec(x) for x in case['src']['items']]
    if case['src'].get('twice'):
      items = items + items               # the same record objects once more
  before = copy.deepcopy(items)
  ids = _snapshot(items)
  caller_ids = {i for _, i in ids}
  if not owned:
    source = make_source(case['src'], items)
  out, err, cause, msg = [], None, None, None
  alias = None
  written = written_prefixes(case['specs'])
  shared = [] if heap_plan(case) is not None and via == 'direct' else None
  ignore = bool(case.get('ignore'))
  try:
    it = routed_iterator(p, source, via, route, ignore, out)
  except Exception as e:  # pylint: disable=broad-except
    return dict(build=None, make_error=err_kind(e))
  try:
    for x in it:
      out.append(enc(x))
      if alias is None and written:
        alias = aliased_prefix(x, written, caller_ids)
      if shared is not None:
        # identity pattern: which containers of the output ARE containers of the caller's data
        shared.append([list(p) for p, o in container_paths(x) if id(o) in caller_ids])
  except Exception as e:  # pylint: disable=broad-except
    err, msg = err_kind(e), str(e)[:60]
    if e.__cause__ is not None and str(e).startswith('Failed to call'):
      cause = err_kind(e.__cause__)
    del e
  real_sinks = [s for s in sinks if isinstance(s, RecSink)]
  logs = [list(s.log) for s in real_sinks]
  post = None
  if err is not None:
    post = observe_after_error(it, real_sinks, case.get('post_next', POST_NEXT))
  del it
  gc.collect()
  mutated = None
  if items != before:
    mutated = 'caller data changed'
  elif _snapshot(items) != ids:
    mutated = 'caller containers replaced'
  for k, s in enumerate(real_sinks):
    if mutated is None and s.held_changed() is not None:
      mutated = (f'what sink {k} was given at its write {s.held_changed()} reads differently after the run '
                 '(an object handed to a sink was modified later)')
  if mutated is None and alias is not None:
    mutated = ('an output record holds, at a place an assign wrote through, the very container object of a caller '
               f'record (path {list(alias)}): the assigned value is visible through the caller\'s data')
  threads_alive = _disown_pool_threads() if case.get('threads') else 0
  return dict(build=None, out=out, err=err, cause=cause, msg=msg, threads_alive=threads_alive,
              logs=logs, closed=[s.closed for s in real_sinks],
              write_after_close=sum(s.write_after_close for s in real_sinks), mutated=mutated, shared=shared, post=post)


# how often next() is called again on the SAME pipeline iterator after an error reached the caller
POST_NEXT = 2


def observe_after_error(it, real_sinks, k):
  """Observers AFTER the first error (C12: "the first error reaches the caller ..., iteration stops, sinks are
  closed"): the error has been handled and released (nothing refers to the exception any more), the pipeline iterator is
  still alive and referenced.  Read every sink's `closed`, then call next() `k` more times on the same iterator and
  record what each call did, what was delivered and what the sinks were given by those calls."""
  gc.collect()
  closed_at_error = [s.closed for s in real_sinks]
  n_at_error = [len(s.log) for s in real_sinks]
  calls, delivered = [], []
  for _ in range(k):
    try:
      x = next(it)
      calls.append('value')
      delivered.append(enc(x))
    except StopIteration:
      calls.append('stop')
    except Exception as e:  # pylint: disable=broad-except
      calls.append('raise:' + err_kind(e))
      del e
  gc.collect()
  return dict(closed_at_error=closed_at_error, calls=calls, delivered=delivered,
              written=[s.log[n:] for s, n in zip(real_sinks, n_at_error)],
              closed_after=[s.closed for s in real_sinks])


def container_paths(obj, path=()):
  """(path, object) of every container inside `obj`, the container itself first (pre-order, insertion order)"""
  if isinstance(obj, (dict, list, tuple)):
    yield path, obj
    for k, v in (obj.items() if isinstance(obj, dict) else enumerate(obj)):
      yield from container_paths(v, path + (k,))


def heap_plan(case):
  """The heap tie (model `pipeheap`, lean/MlModel/Model/PipeHeap.lean): for chains of sinks and un-batched assigns over
  a plain list of records, one driver request per source record replaying the output routing of every assign on the
  cell heap.  The function's outputs are computed here with the named library; an output that IS a container of the
  current record (a function that returns its argument) is sent as a reference into the record.  -> [request..] or
  None when the case is outside this domain (or its reference evaluation fails)."""
  specs, src = case['specs'], case['src']
  if case.get('threads') or case.get('ignore') or src.get('kind', 'list') != 'list' or src.get('fail'):
    return None
  assigns = [sp for sp in specs if sp['op'] == 'assign']
  if not assigns or any(sp['op'] not in ('assign', 'sink') for sp in specs):
    return None
  for sp in assigns:
    if sp.get('batch') or sp.get('fn_batch') or sp.get('fn') is None:
      return None
    ks = [sp['keys']['one']] if 'one' in sp['keys'] else list(sp['keys'].get('many', []))
    flat = [kk for k in ks for kk in ([rk_json(n) for n, _ in k['dk']] + [s2 for _, s2 in k['dk']] if 'dk' in k else [k])]
    if not ks or any('self' in k or 'lit' in k for k in flat):
      return None
  fns = [make_fn(sp['fn']) for sp in assigns]
  reqs = []
  try:
    for item in src['items']:
      cur = dec(item)
      steps = []
      for sp, fn in zip(assigns, fns):
        names, in_keys = _norm_in(sp['in'])
        if any('lit' in k for k in in_keys):
          return None
        res = ref_call(fn, names, [ref_get(cur, k) for k in in_keys])
        outs = list(res) if isinstance(res, tuple) else [res]
        where = {id(o): p for p, o in container_paths(cur)}
        wire = [{'at': list(where[id(o)])} if isinstance(o, (dict, list, tuple)) and id(o) in where else enc(o) for o in outs]
        step = {'keys': sp['keys'], 'outs': wire}
        if isinstance(res, tuple) and id(res) in where:
          # the function returned a tuple VALUE of the record: the tuple of outputs IS that object (one key for several
          # outputs stores the object itself)
          step['outs_at'] = list(where[id(res)])
        steps.append(step)
        cur = ref_route(cur, _norm_out(sp['keys']), res)
      reqs.append(dict(model='pipeheap', record=item, steps=steps))
  except (CallError, Routing, Undefined):
    return None
  return reqs


def _key_path(k):
  """the path of segments a key writes to, or None (SELF / SKIP / Literal)"""
  if 'n' in k:
    return (k['n'],)
  if 'i' in k:
    return (k['i'],)
  if 'p' in k:
    return tuple(k['p'])
  return None


def written_prefixes(specs):
  """The container positions (paths from the record root, () = the record itself) that lie ON a path written by an
  assign behind the last record-replacing operator, and that no later key overwrites as a whole.  `assign` works on
  copies: in an output record none of these containers may be an object of the caller's data."""
  keys = []
  for sp in specs:
    if sp['op'] in ('apply', 'select', 'batch', 'aggregate'):
      keys = []
    elif sp['op'] == 'assign':
      ks = [sp['keys']['one']] if 'one' in sp['keys'] else list(sp['keys'].get('many', []))
      for k in ks:
        for kk in ([rk_json(n) for n, _ in k['dk']] if 'dk' in k else [k]):
          if 'self' in kk:
            return []
          p = _key_path(kk)
          if p is not None:
            keys.append(p)
  out = []
  for t, p in enumerate(keys):
    for j in range(len(p)):
      q = p[:j]
      if not any(len(p2) <= len(q) and q[:len(p2)] == p2 for p2 in keys[t + 1:]) and q not in out:
        out.append(q)
  return out


def aliased_prefix(rec, prefixes, caller_ids):
  for q in prefixes:
    cur = rec
    for s in q:
      if isinstance(cur, dict) and s in cur:
        cur = cur[s]
      elif isinstance(cur, (list, tuple)) and isinstance(s, int) and 0 <= s < len(cur):
        cur = cur[s]
      else:
        cur = None
        break
    if isinstance(cur, (dict, list, tuple)) and id(cur) in caller_ids:
      return q
  return None


# ----------------------------------------------------------------------------- reference interpreter (oracle)
# Written from the English statement: apply replaces the record; assign adds exactly the named keys and leaves
# everything else; filter keeps order and drops the rejected; a sink sees every record once and forwards it; SKIP
# discards an output; SELF is the whole record; a dict output key {n: k} stores output[k] under n; one output key
# for a tuple of outputs receives the tuple.  Errors: a function error is `CallError(kind)`; anything the
# reference cannot route (missing key, wrong shape) is `Routing`.

class CallError(Exception):
  def __init__(self, kind):
    super().__init__(kind)
    self.kind = kind


class Routing(Exception):
  pass


class Undefined(Exception):
  """the English statement does not say what happens (e.g. a predicate that returns a tuple)"""


_NOTHING = object()     # the record an `apply` starts from
_DROPPED = object()     # a record rejected by a filter


def ref_get(rec, key):
  if 'self' in key:
    return rec
  if 'lit' in key:
    return dec(key['lit'])
  if 'skip' in key:
    raise Routing('SKIP cannot be read')
  path = [key['n']] if 'n' in key else [key['i']] if 'i' in key else list(key['p'])
  isidx = [False] if 'n' in key else [True] if 'i' in key else [isinstance(s, int) for s in key['p']]
  cur = rec
  for s, ix in zip(path, isidx):
    if isinstance(cur, dict) and not ix and s in cur:
      cur = cur[s]
    elif isinstance(cur, (list, tuple)) and ix and 0 <= s < len(cur):
      cur = cur[s]
    else:
      raise Routing(f'no {s!r} in {type(cur).__name__}')
  return cur


def _ref_set_path(rec, path, isidx, val):
  if not path:
    return val
  s, ix = path[0], isidx[0]
  if rec is _NOTHING:
    if ix:
      if s != 0:
        raise Routing('index into nothing')
      return [_ref_set_path(_NOTHING, path[1:], isidx[1:], val)]
    return {s: _ref_set_path(_NOTHING, path[1:], isidx[1:], val)}
  if isinstance(rec, dict) and ix:
    raise Undefined('an Index into a mapping')
  if isinstance(rec, dict) and not ix:
    new = dict(rec)
    new[s] = _ref_set_path(rec.get(s, _NOTHING), path[1:], isidx[1:], val)
    return new
  if isinstance(rec, (list, tuple)) and ix and 0 <= s <= len(rec):
    new = list(rec)
    if s == len(new):
      new.append(_NOTHING)
    new[s] = _ref_set_path(new[s], path[1:], isidx[1:], val)
    return type(rec)(new) if isinstance(rec, tuple) else new
  raise Routing(f'cannot set {s!r} in {type(rec).__name__}')


def ref_set(rec, key, val):
  """The record with `val` stored at `key`; `rec` itself is never touched."""
  if 'self' in key:
    return val
  if 'skip' in key:
    return rec
  if 'lit' in key:
    raise Routing('a literal is not a place')
  path = [key['n']] if 'n' in key else [key['i']] if 'i' in key else list(key['p'])
  isidx = [False] if 'n' in key else [True] if 'i' in key else [isinstance(s, int) for s in key['p']]
  return _ref_set_path(rec, path, isidx, val)


def _norm_in(spec):
  if 'one' in spec:
    return None, [spec['one']]
  if 'many' in spec:
    return None, list(spec['many'])
  return [n for n, _ in spec['kw']], [k for _, k in spec['kw']]


def _norm_out(spec):
  return [spec['one']] if 'one' in spec else list(spec['many'])


def ref_call(fn, names, values):
  try:
    return fn(**dict(zip(names, values))) if names else fn(*values)
  except Exception as e:  # pylint: disable=broad-except
    raise CallError(err_kind(e)) from None


def ref_route(base, out_keys, result):
  """Store the result of a call under the output keys."""
  outs = list(result) if isinstance(result, tuple) else [result]
  if len(out_keys) == 1 and len(outs) > 1:
    if 'dk' in out_keys[0]:
      raise Routing('a dict key cannot take a tuple of outputs')
    outs = [tuple(outs)]
  if len(out_keys) != len(outs):
    raise Routing(f'{len(outs)} outputs for {len(out_keys)} keys')
  rec = base
  for k, o in zip(out_keys, outs):
    if 'dk' in k:
      for name, inner in k['dk']:
        rec = ref_set(rec, rk_json(name), ref_get(o, inner))
    else:
      rec = ref_set(rec, k, o)
  return rec


def ref_route_values(base, out_keys, values):
  """An operator WITHOUT a function only routes: the value read under input key i is stored, AS IT IS, under output key
  i; one output key for several input keys receives the tuple of the values.  No call, no packing convention: a value
  that happens to be a tuple (of any length) is a value like any other."""
  values = list(values)
  if len(out_keys) == 1 and len(values) > 1:
    if 'dk' in out_keys[0]:
      raise Routing('a dict key cannot take a tuple of values')
    values = [tuple(values)]
  if len(out_keys) != len(values):
    raise Routing(f'{len(values)} values for {len(out_keys)} keys')
  rec = base
  for k, v in zip(out_keys, values):
    if 'dk' in k:
      for name, inner in k['dk']:
        rec = ref_set(rec, rk_json(name), ref_get(v, inner))
    else:
      rec = ref_set(rec, k, v)
  return rec


class RefOp:
  """One operator of the reference interpreter (per record)."""

  def __init__(self, spec, tracked):
    self.spec, self.op = spec, spec['op']
    self.log = []
    self.fnless = False
    if self.op == 'batch':
      # `batch` works on the keys of the directly preceding select/apply, or on the whole record
      self.names, self.in_keys = None, (tracked if tracked else [{'self': 1}])
      self.out_keys = self.in_keys
      self.fn = lambda *a: tuple([x] for x in a)
      self.b, self.fb = spec.get('n', 0), 0
      self.op = 'apply'
      return
    self.names, self.in_keys = _norm_in(spec['in'])
    self.b, self.fb = spec.get('batch', 0), spec.get('fn_batch', 0)
    # `fnless`: select, apply / assign without fn — nothing is called, the values are routed directly
    # (`ref_route_values`); `self.fn` is None so that no path can go through a call + unpacking by accident
    self.fnless = False
    if self.op == 'select':
      out = spec.get('out')
      self.out_keys = _norm_out(out) if out is not None and _norm_out(out) else self.in_keys
      self.fn, self.fnless = None, True
    elif self.op in ('apply', 'assign'):
      self.out_keys = _norm_out(spec['out'] if self.op == 'apply' else spec['keys'])
      self.fn = make_fn(spec['fn']) if spec.get('fn') is not None else None
      self.fnless = spec.get('fn') is None
    else:
      self.out_keys = []
      self.fn = make_fn(spec['fn'])

  def inputs(self, rec):
    return [ref_get(rec, k) for k in self.in_keys]

  def one(self, rec):
    """-> the forwarded record, or _DROPPED when the record is dropped."""
    ins = self.inputs(rec)
    if self.op == 'sink':
      ref_call(self.fn, self.names, ins)
      self.log.append({'a': [] if self.names else [enc(x) for x in ins],
                       'k': {n: enc(x) for n, x in zip(self.names, ins)} if self.names else {}})
      return rec
    if self.fnless:
      return ref_route_values(rec if self.op == 'assign' else _NOTHING, self.out_keys, ins)
    res = ref_call(self.fn, self.names, ins)
    if self.op == 'filter':
      if isinstance(res, tuple):
        raise Undefined('a predicate returns one truth value, not a tuple')
      return rec if res else _DROPPED
    if self.op == 'assign':
      return ref_route(rec, self.out_keys, res)
    return ref_route(_NOTHING, self.out_keys, res)


def _chunks(rows, n):
  return [rows[i:i + n] for i in range(0, len(rows), n)]


def ref_batched(op, recs, skip=False, info=None):
  """apply/select with batch sizes over an error-free stream: the rows of all incoming column batches, the function
  applied to groups of `fn_batch` rows (or per incoming batch), the results re-grouped into `batch` rows.  With
  skipping on (`skip`) a group whose call fails is left out.

  With skipping on and `info` given, a RECORD that cannot enter the operator at all (its inputs cannot be read, or —
  with fn_batch — they are not equally long columns) is an element whose processing fails: it is left out and counted
  in `info` (C12: "elements after a failing one are never silently lost").  Whether the error the code raises for it
  is skippable is not for the reference to say, so such a reference result only binds a run that ended WITHOUT an
  error (`lenient`)."""
  nin = len(op.in_keys)
  cols = []
  for r in recs:
    try:
      c = op.inputs(r)
      if op.fb and (not all(isinstance(x, (list, tuple)) for x in c) or len({len(x) for x in c}) > 1):
        raise Routing('not a batch of equally long columns')
    except Routing:
      if skip and info is not None:
        info['skipped_records'] = info.get('skipped_records', 0) + 1
        if op.fb:
          info['fnbatch_skipped'] = True
        continue
      raise
    cols.append(c)
  if op.fb:
    # re-grouping keeps the container type of a column (a column of tuple type stays a tuple: C19)
    kinds_in = [type(cols[0][i]) for i in range(nin)] if cols else []
    rows = [tuple(c[i][j] for i in range(nin)) for c in cols for j in range(len(c[0]))] if nin else []
    groups = [[kinds_in[i](col) for i, col in enumerate(zip(*g))] for g in _chunks(rows, op.fb)]
  else:
    groups = cols
  results = []
  if op.fnless:
    # no function: the output columns ARE the input columns (no call, no unpacking of a result)
    outs = [list(g) for g in groups]
  else:
    for g in groups:
      try:
        results.append(ref_call(op.fn, op.names, g))
      except CallError:
        if not skip:
          raise
    # a function that returns a tuple returns several outputs (one per output key), anything else is one output
    outs = [list(r) if isinstance(r, tuple) else [r] for r in results]
  if op.out_keys and 'self' in op.out_keys[0] and any(len(o) > 1 for o in outs):
    raise Routing('columns cannot be re-batched into SELF')
  if not op.b:
    if op.fnless:
      return [ref_route_values(_NOTHING, op.out_keys, o) for o in outs]
    return [ref_route(_NOTHING, op.out_keys, r) for r in results]
  nout = len(op.out_keys)
  for o in outs:
    if len(o) != nout or not all(isinstance(x, (list, tuple)) for x in o) or len({len(x) for x in o}) > 1:
      raise Routing('outputs are not equally long columns, one per key')
  kinds = [type(outs[0][c]) for c in range(nout)] if outs else []
  rows = [tuple(o[c][j] for c in range(nout)) for o in outs for j in range(len(o[0]))] if nout else []
  result = []
  for g in _chunks(rows, op.b):
    colsg = tuple(kinds[c](x[c] for x in g) for c in range(nout))
    # the value under output key c is column c of the regrouped rows (stored as it is: a tuple column is a value)
    result.append(ref_route_values(_NOTHING, op.out_keys, list(colsg)))
  return result


def ref_ops(specs):
  """RefOps for the specs (None if the reference does not define the chain: `batch` in an unclear position)."""
  ops, tracked = [], []
  for sp in specs:
    if sp['op'] == 'aggregate':
      continue
    op = RefOp(sp, tracked)
    ops.append(op)
    if sp['op'] in ('select', 'apply', 'batch'):
      tracked = [k for k in op.out_keys if 'dk' not in k and 'self' not in k and 'skip' not in k]
      if any('dk' in k or 'lit' in k for k in op.out_keys):
        tracked = None
    elif sp['op'] == 'assign':
      tracked = None if tracked is None else tracked + [k for k in op.out_keys if 'dk' not in k]
      if any('dk' in k or 'skip' in k or 'self' in k or 'lit' in k for k in op.out_keys):
        tracked = None
    if tracked is None:
      tracked = []
      op.unclear_after = True
  return ops


def reference(case):
  """-> dict(out, err: None|('call', kind)|('routing',)|('source', kind), logs, exact: bool).

  `exact`: outputs before an error are exactly `out` (unbatched chains); otherwise the real output must be a prefix of
  the failure-free result."""
  try:
    return _reference(effective_case(case))
  except Undefined:
    return dict(out=None, err=('undefined',), logs=None, exact=False)


def _reference(case):
  specs, src, ignore = case['specs'], case['src'], bool(case.get('ignore'))
  ops = ref_ops(specs)
  items = [dec(x) for x in src['items']]
  if src.get('twice'):
    items = items + items
  fail = dict((i, k) for i, k in src.get('fail', []))
  batched = any(op.b or op.fb for op in ops)
  skippable = lambda kind: ignore and kind in SKIPPABLE
  sinks = [op for op in ops if op.op == 'sink']
  logs = lambda: [op.log for op in sinks]
  if not batched:
    out = []
    for i, r in enumerate(items):
      if i in fail:
        # the source's own skipping removes skippable failures; the pipeline's skipping removes them too
        if (src.get('src_ignore') or ignore) and fail[i] in SKIPPABLE:
          continue
        return dict(out=out, err=('source', fail[i]), logs=logs(), exact=True)
      x = r
      try:
        for op in ops:
          x = op.one(x)
          if x is _DROPPED:
            break
      except CallError as e:
        if skippable('ValueError'):       # every function error reaches the runner as ValueError
          continue
        return dict(out=out, err=('call', e.kind), logs=logs(), exact=True)
      except Routing:
        if ignore:      # whether what the code raises here is skippable is not for the reference to say
          return dict(out=None, err=('undefined',), logs=None, exact=False)
        return dict(out=out, err=('routing',), logs=logs(), exact=True)
      if x is not _DROPPED:
        out.append(enc(x))
    return dict(out=out, err=None, logs=logs(), exact=True)
  # batched chains: operator by operator over the whole stream; defined for failure-free runs, errors are reported
  # against a prefix
  recs, err = [], None
  info = {}
  for i, r in enumerate(items):
    if i in fail:
      if (src.get('src_ignore') or ignore) and fail[i] in SKIPPABLE:
        continue
      err = ('source', fail[i])
      break
    recs.append(r)
  for op in ops:
    nxt = []
    if (op.b or op.fb) and op.op != 'assign':
      try:
        nxt = ref_batched(op, recs, skippable('ValueError'), info if err is None else None)
      except CallError as e:
        return dict(out=None, err=err or ('call', e.kind), logs=None, exact=False)
      except Routing:
        if ignore:
          return dict(out=None, err=('undefined',), logs=None, exact=False)
        return dict(out=None, err=err or ('routing',), logs=None, exact=False)
    else:
      for x in recs:
        try:
          y = op.one(x)
        except CallError as e:
          if skippable('ValueError'):
            continue
          err = err or ('call', e.kind)
          break
        except Routing:
          if ignore:
            return dict(out=None, err=('undefined',), logs=None, exact=False)
          err = err or ('routing',)
          break
        if y is not _DROPPED:
          nxt.append(y)
    recs = nxt
  return dict(out=[enc(x) for x in recs], err=err, logs=logs() if err is None else None, exact=False,
              lenient=bool(info.get('skipped_records')), fnbatch_skipped=bool(info.get('fnbatch_skipped')))
