"""Implementation of the in-process fake of the `courier` RPC package (see __init__.py)."""
from __future__ import annotations

import concurrent.futures as cf
import dataclasses as dc
import heapq
import itertools
import threading
import time as _real_time
from typing import Any, Callable

# absl status codes the repo looks at (courier_utils.is_timeout: `getattr(e, 'code', 0) == 4`).
UNKNOWN = 2
DEADLINE_EXCEEDED = 4
UNAVAILABLE = 14

# Fates of one call (the fault plan's alphabet).
OK = 'ok'                          # handler runs once; the future completes with its return value
DEADLINE = 'deadline'              # handler does NOT run; the future fails with code 4
DEADLINE_AFTER = 'deadline_after'  # handler runs once, its result is dropped; the future fails with code 4
DIE = 'die'                        # the server becomes unreachable *before* this call (the call hangs)
RESTART = 'restart'                # the server becomes reachable again before this call, which then runs
APP_ERROR = 'app_error'            # handler does NOT run; the future fails with a non-deadline error (code 2)
FATES = (OK, DEADLINE, DEADLINE_AFTER, DIE, RESTART, APP_ERROR)

HEARTBEAT = 'heartbeat'


class StatusNotOk(Exception):
  """What a failed call raises (stands for pybind11_abseil.status.StatusNotOk): `.code`, `.message`."""

  def __init__(self, code: int, message: str = ''):
    super().__init__(f'[code={code}] {message}')
    self.code = code
    self.message = message


@dc.dataclass
class Call:
  """One call in flight (exposed in manual mode so that the harness chooses when it is delivered)."""
  seq: int                 # global submission number
  address: str
  method: str
  args: tuple
  kwargs: dict
  future: cf.Future
  index: int | None        # position in the address's fault plan (None: not counted, e.g. heartbeats)
  fate: str
  sent_at: float
  delivered: bool = False


class World:
  """All fake servers, the fault plans and the in-flight calls of one process."""

  def __init__(self):
    self.lock = threading.RLock()
    self._ports = itertools.count(20000)
    self._watch_cv = threading.Condition()
    self._watch_heap: list = []
    self._watch_seq = itertools.count()
    self._watch_thread: threading.Thread | None = None
    self.reset()

  # ---------------------------------------------------------------- configuration
  def reset(self, *, mode: str = 'threaded', time_fn: Callable[[], float] | None = None,
            max_threads: int = 16):
    """Forget every server, plan, call; choose how calls are executed.

    mode = 'threaded': handlers run on a thread pool (like real courier's server threads);
           'inline'  : the handler runs in the caller's thread before `futures.m(...)` returns
                       (fully deterministic, no threads);
           'manual'  : calls are queued in `pending`; nothing happens until `deliver(k)`.
    time_fn: clock used to stamp `Call.sent_at` and the log (a virtual clock's `.time`).
    """
    assert mode in ('threaded', 'inline', 'manual'), mode
    with self.lock:
      old = getattr(self, 'executor', None)
      self.mode = mode
      self.time_fn = time_fn or _real_time.time
      self.servers: dict[str, Server] = {}       # address -> started server
      self.down: set[str] = set()                # addresses made unreachable by die/kill
      self.plans: dict[str, Any] = {}            # address -> fault plan
      self.counted: dict[str, Callable[[str], bool]] = {}
      self.counters: dict[str, int] = {}         # address -> number of counted calls so far
      self.pending: list[Call] = []              # manual mode: not yet delivered
      self.hung: list[Call] = []                 # calls to an unreachable server (never complete)
      self.log: list[tuple] = []                 # (seq, address, method, fate, outcome)
      self._seq = itertools.count()
      self.executor = cf.ThreadPoolExecutor(max_workers=max_threads, thread_name_prefix='fakecourier')
    if old is not None:
      old.shutdown(wait=False, cancel_futures=True)

  def set_fault_plan(self, address: str, plan, *, count: Callable[[str], bool] | None = None):
    """plan: list of fates (i-th counted call; beyond the end 'ok'), dict {i: fate}, or
    callable (i, method) -> fate.  `count(method)` says which calls are counted; by default
    every method except 'heartbeat' (whose number depends on timing)."""
    with self.lock:
      self.plans[address] = plan
      self.counted[address] = count or (lambda m: m != HEARTBEAT)
      self.counters[address] = 0

  def kill(self, address: str):
    with self.lock:
      self.down.add(address)

  def revive(self, address: str):
    with self.lock:
      self.down.discard(address)

  def reachable(self, address: str) -> bool:
    with self.lock:
      return address in self.servers and address not in self.down

  # ---------------------------------------------------------------- calls
  def _fate(self, address: str, method: str) -> tuple[int | None, str]:
    plan = self.plans.get(address)
    counted = self.counted.get(address, lambda m: m != HEARTBEAT)(method)
    if not counted:
      return None, OK
    i = self.counters.get(address, 0)
    self.counters[address] = i + 1
    if plan is None:
      fate = OK
    elif callable(plan):
      fate = plan(i, method)
    elif isinstance(plan, dict):
      fate = plan.get(i, plan.get(str(i), OK))
    else:
      fate = plan[i] if i < len(plan) else OK
    assert fate in FATES, fate
    return i, fate

  def _watch(self, fut: cf.Future, timeout: float):
    """threaded mode only: enforce a client's `call_timeout` in real time (one daemon thread)."""
    with self._watch_cv:
      heapq.heappush(self._watch_heap, (_real_time.monotonic() + timeout, next(self._watch_seq), fut))
      if self._watch_thread is None or not self._watch_thread.is_alive():
        self._watch_thread = threading.Thread(target=self._watch_loop, daemon=True, name='fakecourier-deadline')
        self._watch_thread.start()
      self._watch_cv.notify()

  def _watch_loop(self):
    while True:
      with self._watch_cv:
        while not self._watch_heap:
          self._watch_cv.wait()
        due, _, fut = self._watch_heap[0]
        wait = due - _real_time.monotonic()
        if wait > 0:
          self._watch_cv.wait(wait)
          continue
        heapq.heappop(self._watch_heap)
      if not fut.done():
        try:
          fut.set_exception(StatusNotOk(DEADLINE_EXCEEDED, 'Deadline Exceeded'))
        except cf.InvalidStateError:
          pass

  def submit(self, address: str, method: str, args, kwargs, timeout: float | None = None) -> cf.Future:
    fut: cf.Future = cf.Future()
    with self.lock:
      index, fate = self._fate(address, method)
      call = Call(next(self._seq), address, method, tuple(args), dict(kwargs), fut, index, fate,
                  self.time_fn())
      if fate == DIE:
        self.down.add(address)
      elif fate == RESTART:
        self.down.discard(address)
      mode = self.mode
      if mode == 'manual':
        self.pending.append(call)
    if mode == 'inline':
      self._execute(call)
    elif mode == 'threaded':
      if timeout:
        self._watch(fut, timeout)
      self.executor.submit(self._execute, call)
    return fut

  def deliver(self, k: int = 0, *, fate: str | None = None) -> Call | None:
    """Manual mode: run the k-th pending call now, in the calling thread (optionally overriding
    its fate).  Returns the call, or None when nothing is pending."""
    with self.lock:
      if not self.pending:
        return None
      call = self.pending.pop(k % len(self.pending))
      if fate is not None:
        call.fate = fate
    self._execute(call)
    return call

  def deliver_all(self):
    while self.deliver(0) is not None:
      pass

  def _finish(self, call: Call, *, result=None, exc: BaseException | None = None, outcome: str):
    call.delivered = True
    with self.lock:
      self.log.append((call.seq, call.address, call.method, call.fate, outcome))
    try:
      if exc is not None:
        call.future.set_exception(exc)
      else:
        call.future.set_result(result)
    except cf.InvalidStateError:
      pass  # the caller cancelled / completed the future itself (orchestrate.as_completed does)

  def _execute(self, call: Call):
    if call.future.cancelled():
      return self._finish(call, outcome='cancelled')
    with self.lock:
      server = self.servers.get(call.address)
      up = server is not None and call.address not in self.down
    if not up:
      if call.method == HEARTBEAT:
        return self._finish(call, exc=StatusNotOk(UNAVAILABLE, f'{call.address} unreachable'),
                            outcome='unavailable')
      with self.lock:
        self.hung.append(call)   # never completes (a real client without deadline waits for ever)
        self.log.append((call.seq, call.address, call.method, call.fate, 'hung'))
      return
    if call.fate == DEADLINE:
      return self._finish(call, exc=StatusNotOk(DEADLINE_EXCEEDED, 'Deadline Exceeded'), outcome='deadline')
    if call.fate == APP_ERROR:
      return self._finish(call, exc=StatusNotOk(UNKNOWN, 'injected application error'), outcome='app_error')
    handler = server.handlers.get(call.method)
    if handler is None:
      return self._finish(call, exc=StatusNotOk(UNKNOWN, f'method {call.method} not found'),
                          outcome='no_method')
    try:
      result = handler(*call.args, **call.kwargs)
    except BaseException as e:  # pylint: disable=broad-except
      # real courier turns a handler exception into a non-OK status carrying its text
      exc = StatusNotOk(UNKNOWN, f'{type(e).__module__}.{type(e).__qualname__}: {e}')
      exc.__cause__ = e
      return self._finish(call, exc=exc, outcome='handler_raised')
    if call.fate == DEADLINE_AFTER:
      return self._finish(call, exc=StatusNotOk(DEADLINE_EXCEEDED, 'Deadline Exceeded'), outcome='deadline')
    return self._finish(call, result=result, outcome='ok')

  def fail_hung(self, address: str | None = None, code: int = DEADLINE_EXCEEDED):
    """Complete hung calls (of one address) with a status error, e.g. when a deadline passes."""
    with self.lock:
      calls = [c for c in self.hung if address is None or c.address == address]
      self.hung = [c for c in self.hung if c not in calls]
    for c in calls:
      self._finish(c, exc=StatusNotOk(code, 'Deadline Exceeded'), outcome='hung_failed')


WORLD = World()


class Server:
  """courier.Server: `Bind` handlers, `Start`, `Stop`, `Join`; reachable by name and localhost:port."""

  def __init__(self, name: str | None = None, port: int | None = None, **_unused):
    self._name = name
    self._port = port if port else next(WORLD._ports)
    self.handlers: dict[str, Callable[..., Any]] = {}
    self._started = False
    self._stopped = threading.Event()

  @property
  def port(self) -> int:
    return self._port

  @property
  def address(self) -> str:
    return f'localhost:{self._port}'

  @property
  def addresses(self) -> list[str]:
    return [self.address] + ([self._name] if self._name else [])

  @property
  def has_started(self) -> bool:
    return self._started

  def Bind(self, name: str, fn: Callable[..., Any]):  # pylint: disable=invalid-name
    self.handlers[name] = fn

  def Unbind(self, name: str):  # pylint: disable=invalid-name
    self.handlers.pop(name, None)

  def Start(self):  # pylint: disable=invalid-name
    with WORLD.lock:
      for a in self.addresses:
        WORLD.servers[a] = self
        WORLD.down.discard(a)
    self._started = True
    self._stopped.clear()

  def Stop(self):  # pylint: disable=invalid-name
    with WORLD.lock:
      for a in self.addresses:
        if WORLD.servers.get(a) is self:
          del WORLD.servers[a]
    self._started = False
    self._stopped.set()

  def Join(self):  # pylint: disable=invalid-name
    self._stopped.wait()


class _Futures:
  def __init__(self, client: 'Client'):
    self._client = client

  def __getattr__(self, method: str):
    if method.startswith('__'):
      raise AttributeError(method)
    client = self._client
    return lambda *args, **kwargs: WORLD.submit(client.address, method, args, kwargs, client.timeout_secs)


class Client:
  """courier.Client: `client.m(*a)` blocks and returns / raises; `client.futures.m(*a)` → Future."""

  def __init__(self, server_address: str, *, call_timeout=None, **_unused):
    self.address = server_address
    self.call_timeout = call_timeout
    self.timeout_secs = (call_timeout.total_seconds() if hasattr(call_timeout, 'total_seconds')
                         else (float(call_timeout) if call_timeout else None))
    self.futures = _Futures(self)

  def __getattr__(self, method: str):
    if method.startswith('__'):
      raise AttributeError(method)
    return lambda *args, **kwargs: WORLD.submit(self.address, method, args, kwargs, self.timeout_secs).result()


class VirtualClock:
  """Stand-in for the `time` module inside the repo modules: `time()`, `sleep()`, `monotonic()`.

  `sleep(dt)` advances the virtual time by max(dt, spin_tick) and yields the GIL (so spin loops such
  as `while not fut.done(): time.sleep(0)` make progress and `wait_until_alive` deadlines expire).

  `deadline`: when set, `sleep()` raises TimeoutError once the virtual time has passed it — every spin
  loop of the repo sleeps, so a loop that would spin for ever (e.g. `as_completed` when no worker can be
  obtained) ends with an exception instead of hanging the check.

  `strict_other_threads=True`: threads other than the one that created the clock read
  `now + k * 1e-6` (k = number of their reads so far), i.e. a strictly increasing clock.  Background
  threads of the repo (CourierServer.run_until_shutdown) divide by elapsed time and die with
  ZeroDivisionError on a clock that stands still; the owner thread — the one whose reads are
  compared with a model — always sees the exact virtual time.
  """

  def __init__(self, start: float = 1_000_000.0, spin_tick: float = 0.0,
               strict_other_threads: bool = False):
    self.now = float(start)
    self.spin_tick = spin_tick
    self._lock = threading.Lock()
    self._owner = threading.get_ident()
    self._strict = strict_other_threads
    self._reads = 0
    self.deadline: float | None = None

  def time(self) -> float:
    if self._strict and threading.get_ident() != self._owner:
      with self._lock:
        self._reads += 1
        return self.now + self._reads * 1e-6
    return self.now

  def monotonic(self) -> float:
    return self.time()

  def perf_counter(self) -> float:
    return self.time()

  def advance(self, dt: float):
    with self._lock:
      self.now += dt

  def sleep(self, dt: float = 0.0):
    self.advance(max(dt, self.spin_tick))
    if self.deadline is not None and self.now > self.deadline and threading.get_ident() == self._owner:
      raise TimeoutError(f'virtual deadline {self.deadline} exceeded (spin loop without progress)')
    _real_time.sleep(0)

  def __getattr__(self, name):   # anything else (strftime, ...) from the real module
    return getattr(_real_time, name)
