"""Validation of the fake itself: runs the repo's own courier test modules — which the pinned baseline
cannot even collect, because the real `courier` is not installed — over harness.fakecourier
(threaded mode, real time).

    cd <verif> && VERIF_REPO=/repo /venv/bin/python -m harness.fakecourier.upstream_selftest [pytest args]

Observed on the repaired tree: courier_worker_test 24, courier_utils_test 46, courier_server_test 37,
orchestrate_test 15 — all pass.  Not part of any registered check (it takes ~1 min of real time).
"""
import itertools
import os
import sys
import types

MODULES = [
    'ml_metrics/_src/chainables/courier_worker_test.py',
    'ml_metrics/_src/utils/courier_utils_test.py',
    'ml_metrics/_src/chainables/courier_server_test.py',
    'ml_metrics/_src/chainables/orchestrate_test.py',
]


def main(argv):
  repo = os.environ.get('VERIF_REPO', '/repo')
  sys.path.insert(0, repo)
  from harness import fakecourier
  fakecourier.install(mode='threaded')
  pp = types.ModuleType('portpicker')       # upstream tests only need fresh port numbers
  ports = itertools.count(40000)
  pp.pick_unused_port = lambda: next(ports)
  sys.modules.setdefault('portpicker', pp)
  import pytest
  verif = os.getcwd()
  os.chdir(repo)
  targets = [a for a in argv if not a.startswith('-')]
  flags = [a for a in argv if a.startswith('-')]
  if not targets:
    # one interpreter per module, as upstream runs them: the modules share process-wide singletons
    # (worker registry, a server named 'unreachable_server') and are not independent otherwise
    import subprocess
    rc = 0
    for m in MODULES:
      rc |= subprocess.call([sys.executable, '-m', 'harness.fakecourier.upstream_selftest', *flags, m],
                            cwd=verif)
    return rc
  return pytest.main(['-q', '-p', 'no:cacheprovider', '-o', 'addopts=', *flags, *targets])


if __name__ == '__main__':
  sys.exit(main(sys.argv[1:]))
