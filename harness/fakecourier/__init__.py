"""In-process stand-in for DeepMind's `courier` RPC package (DESIGN.md §4.4).

The real package is not installed (`import courier` finds an unrelated e-mail library), and
`ml_metrics._src.utils.courier_utils`, `chainables.courier_worker`, `chainables.courier_server`
and `chainables.orchestrate` do `import courier` at the top.  So, BEFORE importing any of them:

    from harness import fakecourier
    fakecourier.install()                  # idempotent; sys.modules['courier'] = this package
    from ml_metrics._src.chainables import courier_server, courier_worker

Surface provided (exactly what the repo uses — `grep -n 'courier\\.' ml_metrics/_src`):

    Server(name=None, port=None)   .Bind(name, fn) .Unbind(name) .Start() .Stop() .Join()
                                   .address ('localhost:<port>') .port .has_started
                                   (reachable under `name`, if given, and under `.address`)
    Client(address, call_timeout=None)        call_timeout (seconds or timedelta) is enforced in REAL time in
                                              'threaded' mode only (future fails with code 4); in 'inline' and
                                              'manual' mode deadlines come from the fault plan / `deliver(fate=)`
        client.<method>(*args, **kw)          blocking: returns the handler's value or raises StatusNotOk
        client.futures.<method>(*args, **kw)  -> concurrent.futures.Future
    StatusNotOk(code, message)     the error of a failed call; `.code == 4` is "deadline exceeded"
                                   (what `courier_utils.is_timeout` / `courier_worker.is_timeout` test)
    courier.python.testutil.SetupMockBNS()    no-op (upstream tests call it)

Everything is in-process: a registry `address -> started Server`; a call runs the bound handler
at most once.  Three execution modes (`reset(mode=...)`):

    'threaded' (default)  handlers run on a thread pool, like real courier's server threads
    'inline'              handler runs in the caller's thread before the future is returned (deterministic)
    'manual'              calls queue up in `world().pending`; `deliver(k)` runs the k-th one now — this is how
                          a check produces *late* replies (e.g. a heartbeat answered after an unregister)

Fault plan per address (`set_fault_plan(addr, plan)`): the fate of the i-th *counted* call
(by default every method except 'heartbeat', whose number depends on timing):

    'ok'              handler runs once, future completes with its value (a raising handler -> StatusNotOk code 2)
    'deadline'        handler does not run, future fails with code 4
    'deadline_after'  handler runs once, result dropped, future fails with code 4
    'die'             server becomes unreachable before this call: this and later calls never complete
                      ('heartbeat' calls fail at once with code 14) until 'restart' / `revive(addr)`
    'restart'         server reachable again before this call, which then runs normally
    'app_error'       handler does not run, future fails with a non-deadline status (code 2)

`plan` is a list (beyond its end: 'ok'), a dict {i: fate} or a callable (i, method) -> fate.
`kill(addr)`, `revive(addr)`, `fail_hung(addr)` let a harness act between calls.

Clock: the fake needs no clock of its own except to stamp calls (`reset(time_fn=...)`).  The repo
modules read `time.time()` / call `time.sleep()` through their module attribute `time`; use

    clock = fakecourier.VirtualClock(start=1e6, spin_tick=0.5)
    fakecourier.patch_time(clock)          # courier_utils.time = courier_worker.time = ... = clock

to run them on virtual time (`clock.advance(dt)`; `sleep(dt)` advances instead of sleeping).

Assumed of real courier and NOT verified here (trusted base): at-most-once handler execution per
call; deadline errors carry code 4; a stopped/unreachable server completes no call; arguments and
results survive pickling (the fake passes references — callers that need the copy semantics must
pickle themselves, which the repo does for every non-primitive argument).
"""
from __future__ import annotations

import sys
import types

from harness.fakecourier._core import (  # noqa: F401  (re-exported API)
    APP_ERROR, DEADLINE, DEADLINE_AFTER, DEADLINE_EXCEEDED, DIE, FATES, HEARTBEAT, OK, RESTART,
    UNAVAILABLE, UNKNOWN, Call, Client, Server, StatusNotOk, VirtualClock, WORLD, World)

_REPO_TIME_USERS = (
    'ml_metrics._src.utils.courier_utils',
    'ml_metrics._src.chainables.courier_worker',
    'ml_metrics._src.chainables.courier_server',
    'ml_metrics._src.chainables.orchestrate',
)


def world() -> World:
  return WORLD


def install(*, mode: str | None = None, time_fn=None) -> types.ModuleType:
  """Makes `import courier` resolve to this package.  Idempotent.  Must run before the repo's
  courier modules are imported (raises if they were already imported against another `courier`)."""
  me = sys.modules[__name__]
  cur = sys.modules.get('courier')
  if cur is not me:
    for name in _REPO_TIME_USERS:
      m = sys.modules.get(name)
      if m is not None and getattr(m, 'courier', me) is not me:
        raise RuntimeError(f'{name} was imported before fakecourier.install()')
    sys.modules['courier'] = me
    py = types.ModuleType('courier.python')
    tu = types.ModuleType('courier.python.testutil')
    tu.SetupMockBNS = lambda *a, **k: None
    py.testutil = tu
    me.python = py
    sys.modules['courier.python'] = py
    sys.modules['courier.python.testutil'] = tu
  if mode is not None or time_fn is not None:
    WORLD.reset(mode=mode or WORLD.mode, time_fn=time_fn)
  return me


def uninstall():
  if sys.modules.get('courier') is sys.modules[__name__]:
    for k in ('courier', 'courier.python', 'courier.python.testutil'):
      sys.modules.pop(k, None)


def reset(**kw):
  """Forget all servers / plans / calls; see World.reset for `mode`, `time_fn`, `max_threads`."""
  WORLD.reset(**kw)


def set_fault_plan(address, plan, **kw):
  WORLD.set_fault_plan(address, plan, **kw)


def kill(address):
  WORLD.kill(address)


def revive(address):
  WORLD.revive(address)


def deliver(k: int = 0, **kw):
  return WORLD.deliver(k, **kw)


def deliver_all():
  WORLD.deliver_all()


def fail_hung(address=None, code=DEADLINE_EXCEEDED):
  WORLD.fail_hung(address, code)


def patch_time(clock, modules=_REPO_TIME_USERS):
  """Replace the `time` attribute of the (already imported) repo courier modules by `clock`
  (an object with time()/sleep()/monotonic(), e.g. VirtualClock).  `patch_time(None)` restores."""
  import importlib
  import time as real
  for name in modules:
    try:
      m = importlib.import_module(name)
    except Exception:  # a module that cannot be imported in this sandbox is simply skipped
      continue
    if hasattr(m, 'time'):
      m.time = real if clock is None else clock
