"""Core of the /verif check runner (see DESIGN.md §2).

A property module (harness/props/cXX.py) provides:

  PID            'C19'
  TITLE          short text
  LEAN_MODULES   ['MlModel.Properties.C19']           modules whose build = the proof obligations
  TRUSTED        list[str]  extra trusted-base lines for the evidence
  RULE           str        how cases are generated and what counts as non-trivial
  gen_cases(ctx) -> iterable of JSON-able case dicts (corpus first, then generated; size by ctx.tier)
  run_impl(case) -> canonical JSON-able observation of the REAL code (imports /repo's working tree)
  model_requests(case) -> list of driver requests (dicts with "model")
  model_obs(case, responses) -> canonical observation predicted by the Lean model
  oracle(case, impl_obs) -> None | str     the property itself evaluated on the real code's output
  nontrivial(case, impl_obs) -> bool
  finding(case, what) -> id of a known finding class this failure belongs to, or None
  neighbours(case, rng) -> iterable of cases near `case` (failing-input search)      [optional]
  shrink(case, still_fails) -> smaller case                                          [optional]
  compare(impl_obs, model_obs) -> None | str                                         [optional; default ==]
  extra(ctx) -> None                                                                [optional extra stages]

The runner builds the proofs, audits axioms, runs correspondence + oracle, decides the verdict
and writes evidence/<PID>.json.
"""
from __future__ import annotations

import concurrent.futures as cf
import hashlib
import importlib
import json
import math
import os
import random
import re
import subprocess
import sys
import time
import traceback

VERIF = os.path.dirname(os.path.dirname(os.path.abspath(__file__)))
LEAN_DIR = os.environ.get('VERIF_LEAN_DIR', os.path.join(VERIF, 'lean'))
REPO = os.environ.get('VERIF_REPO', '/repo')
# evidence/ and replays/ live under OUT (default: /verif itself; mutant trials point it elsewhere)
OUT = os.environ.get('VERIF_OUT', VERIF)
if REPO not in sys.path:
  sys.path.insert(0, REPO)   # the implementation under test is imported from this working tree
ALLOWED_AXIOMS = {'propext', 'Classical.choice', 'Quot.sound'}
FORBIDDEN = re.compile(
    r'\bsorry\b|\badmit\b|^\s*axiom\s|native_decide|bv_decide|implemented_by|\bunsafe\s|maxHeartbeats\s+0\b',
    re.M)

BASE_TRUSTED = [
    'Lean 4.33.0 kernel; axioms allowed: propext, Classical.choice, Quot.sound (audited by #print axioms on every property theorem each run)',
    'no sorry/admit/axiom/native_decide/bv_decide/implemented_by/unsafe in lean/MlModel (source grep each run)',
    'hand-written Lean statements in MlModel/Properties are the formalisation of the English property',
    'model<->code tie is differential (finite sample): harness runs the real code from /repo working tree and the compiled Lean model on the same cases',
    'IEEE-754 rounding is outside the models (rationals in Lean, tolerance in comparison)',
]


# ----------------------------------------------------------------------------- utilities

def err_kind(e: BaseException) -> str:
  """Canonical error-kind enum (mirrors MlModel.ErrKind.name)."""
  for t, n in ((StopIteration, 'StopIteration'), (TimeoutError, 'TimeoutError'),
               (KeyError, 'KeyError'), (IndexError, 'IndexError'),
               (ZeroDivisionError, 'ZeroDivisionError'),
               (NotImplementedError, 'NotImplementedError'),
               (ValueError, 'ValueError'), (TypeError, 'TypeError'),
               (AssertionError, 'AssertionError'), (AttributeError, 'AttributeError'),
               (RuntimeError, 'RuntimeError')):
    if isinstance(e, t):
      return n
  return 'Exception'


def canon(x):
  """JSON canonical form (numpy -> lists, tuples -> lists, dict keys sorted by dumps)."""
  try:
    import numpy as np
  except Exception:  # pragma: no cover
    np = None
  if np is not None:
    if isinstance(x, np.ndarray):
      return canon(x.tolist())
    if isinstance(x, np.generic):
      return canon(x.item())
  if isinstance(x, dict):
    return {str(k): canon(v) for k, v in x.items()}
  if isinstance(x, (list, tuple)):
    return [canon(v) for v in x]
  if isinstance(x, float):
    if math.isnan(x):
      return 'nan'
    if x == int(x) and abs(x) < 2**53:
      return int(x)
    return x
  if isinstance(x, (set, frozenset)):
    return sorted((canon(v) for v in x), key=json.dumps)
  return x


def jdump(x) -> str:
  return json.dumps(x, sort_keys=True, separators=(',', ':'), default=str)


def case_hash(case) -> str:
  return hashlib.sha1(jdump(case).encode()).hexdigest()[:12]


def rat_to_float(j):
  """Driver rationals {"n":..,"d":..} / "nan" -> float."""
  if j == 'nan' or j is None:
    return float('nan')
  if isinstance(j, (int, float)):
    return float(j)
  return j['n'] / j['d']


def close(a: float, b: float, rel=1e-9, abs_=1e-12) -> bool:
  if isinstance(a, str) or isinstance(b, str):
    return a == b
  if a is None or b is None:
    return a is b
  if math.isnan(a) or math.isnan(b):
    return math.isnan(a) and math.isnan(b)
  if math.isinf(a) or math.isinf(b):
    return a == b
  return abs(a - b) <= max(abs_, rel * max(abs(a), abs(b)))


def deep_close(a, b, rel=1e-9, abs_=1e-12) -> bool:
  """Structural equality with float tolerance; rationals {"n","d"} on either side are floats."""
  if isinstance(a, dict) and set(a) == {'n', 'd'}:
    a = rat_to_float(a)
  if isinstance(b, dict) and set(b) == {'n', 'd'}:
    b = rat_to_float(b)
  if a == 'nan':
    a = float('nan')
  if b == 'nan':
    b = float('nan')
  if isinstance(a, bool) or isinstance(b, bool):
    return a == b
  if isinstance(a, (int, float)) and isinstance(b, (int, float)):
    return close(float(a), float(b), rel, abs_)
  if isinstance(a, dict) and isinstance(b, dict):
    return set(a) == set(b) and all(deep_close(a[k], b[k], rel, abs_) for k in a)
  if isinstance(a, list) and isinstance(b, list):
    return len(a) == len(b) and all(deep_close(x, y, rel, abs_) for x, y in zip(a, b))
  return a == b


# ----------------------------------------------------------------------------- Lean side

class Lean:
  """lake build / audit / driver access."""

  def __init__(self):
    self.driver_path = os.path.join(LEAN_DIR, '.lake', 'build', 'bin', 'driver')
    self._built = {}

  def regenerate(self):
    """Step 1 of a check: regenerate Generated/*.lean from /repo and the import roots."""
    msgs = []
    tr = os.path.join(VERIF, 'translate', 'run.py')
    if os.path.exists(tr):
      p = subprocess.run([sys.executable, tr, REPO, LEAN_DIR], capture_output=True, text=True)
      if p.returncode != 0:
        msgs.append(('translator', (p.stdout + p.stderr).strip()))
    p = subprocess.run([sys.executable, os.path.join(VERIF, 'tools', 'gen_imports.py'), LEAN_DIR],
                       capture_output=True, text=True)
    if p.returncode != 0:
      msgs.append(('gen_imports', p.stderr))
    return msgs

  def build(self, targets):
    key = tuple(targets)
    if key in self._built:
      return self._built[key]
    t0 = time.time()
    p = subprocess.run(['lake', 'build', *targets], cwd=LEAN_DIR, capture_output=True, text=True)
    out = p.stdout + p.stderr
    failed = re.findall(r'^- (\S+)$', out, re.M)
    errors = re.findall(r'^error: (\S+\.lean):(\d+):(\d+): (.*)$', out, re.M)
    errors = [(f, l, c, f'[in {self.enclosing_decl(f, int(l))}] {m}') for f, l, c, m in errors]
    res = dict(ok=p.returncode == 0, failed=failed, errors=errors, log=out[-6000:], wall=time.time() - t0)
    self._built[key] = res
    return res

  @staticmethod
  def enclosing_decl(relpath: str, line: int) -> str:
    """Name of the theorem / lemma / def whose text contains `line` of a Lean file (for the replay of a broken
    proof obligation: the obligation is named, not only located)."""
    try:
      src = open(os.path.join(LEAN_DIR, relpath)).read().split('\n')
    except OSError:
      return '?'
    for i in range(min(line, len(src)) - 1, -1, -1):
      m = re.match(r'^(?:private |protected |noncomputable |@\[[^\]]*\] )*(theorem|lemma|def|instance|abbrev|example|structure|inductive)\s*([^\s:({\[]*)', src[i])
      if m:
        return f'{m.group(1)} {m.group(2)}'.strip()
    return '?'

  @staticmethod
  def theorems_of(module: str):
    """Names of the `theorem`s declared in a Properties module (namespace-qualified)."""
    path = os.path.join(LEAN_DIR, *module.split('.')) + '.lean'
    src = open(path).read()
    src = strip_comments(src)
    names = []
    ns = []
    for m in re.finditer(r'^(namespace|end|theorem|private theorem|protected theorem)\s+([^\s:({\[]+)', src, re.M):
      kw, name = m.group(1), m.group(2)
      if kw == 'namespace':
        ns.append(name)
      elif kw == 'end':
        if ns and ns[-1] == name:
          ns.pop()
      else:
        names.append('.'.join(ns + [name]))
    return names

  def audit(self, modules):
    """`#print axioms` for every theorem of the given Properties modules."""
    thms = []
    for m in modules:
      thms += [(m, t) for t in self.theorems_of(m)]
    os.makedirs(os.path.join(LEAN_DIR, 'MlModel', 'Audit'), exist_ok=True)
    tag = hashlib.sha1(' '.join(modules).encode()).hexdigest()[:8]
    path = os.path.join(LEAN_DIR, 'MlModel', 'Audit', f'A{tag}_{os.getpid()}.lean')
    with open(path, 'w') as f:
      for m in modules:
        f.write(f'import {m}\n')
      for _, t in thms:
        f.write(f'#print axioms {t}\n')
    try:
      p = subprocess.run(['lake', 'env', 'lean', path], cwd=LEAN_DIR, capture_output=True, text=True)
    finally:
      os.unlink(path)
    out = p.stdout + p.stderr
    result = {}
    for m in re.finditer(r"'([^']+)' depends on axioms: \[([^\]]*)\]", out, re.S):
      result[m.group(1)] = {a.strip() for a in m.group(2).replace('\n', ' ').split(',') if a.strip()}
    for m in re.finditer(r"'([^']+)' does not depend on any axioms", out):
      result[m.group(1)] = set()
    report = []
    for mod, t in thms:
      ax = result.get(t)
      report.append(dict(module=mod, theorem=t,
                         axioms=sorted(ax) if ax is not None else None,
                         ok=ax is not None and ax <= ALLOWED_AXIOMS))
    return report, out

  @staticmethod
  def grep_forbidden():
    hits = []
    root = os.path.join(LEAN_DIR, 'MlModel')
    for d, _, files in os.walk(root):
      if os.path.basename(d) == 'Audit':
        continue
      for f in files:
        if f.endswith('.lean'):
          p = os.path.join(d, f)
          src = strip_comments(open(p).read())
          for m in FORBIDDEN.finditer(src):
            line = src.count('\n', 0, m.start()) + 1
            hits.append(f'{os.path.relpath(p, LEAN_DIR)}:{line}: {m.group(0).strip()}')
    return hits

  def ask_many(self, requests):
    """Send requests (dicts) to the compiled driver; returns the list of responses."""
    if not requests:
      return []
    data = '\n'.join(jdump(r) for r in requests) + '\n'
    p = subprocess.run([self.driver_path], input=data, capture_output=True, text=True)
    lines = p.stdout.splitlines()
    if p.returncode != 0 or len(lines) != len(requests):
      raise InfraError(f'driver failed rc={p.returncode} got {len(lines)}/{len(requests)} lines: {p.stderr[-500:]}')
    return [json.loads(l) for l in lines]


def strip_comments(src: str) -> str:
  """Remove Lean block comments (nested) and line comments, keeping line numbers."""
  out = []
  i, n, depth = 0, len(src), 0
  while i < n:
    if src.startswith('/-', i):
      depth += 1
      i += 2
      continue
    if depth and src.startswith('-/', i):
      depth -= 1
      i += 2
      continue
    if depth:
      if src[i] == '\n':
        out.append('\n')
      i += 1
      continue
    if src.startswith('--', i):
      while i < n and src[i] != '\n':
        i += 1
      continue
    out.append(src[i])
    i += 1
  return ''.join(out)


class InfraError(Exception):
  pass


# ----------------------------------------------------------------------------- context / runner

class Ctx:
  def __init__(self, pid, tier, seed):
    self.pid, self.tier, self.seed = pid, tier, seed
    self.rng = random.Random(f'{pid}/{seed}')
    self.quick = tier == 'quick'
    self.lean = Lean()
    self.hist = {}          # free-form histograms for the evidence
    self.notes = []
    self.extra_disagreements = []   # (name, case, detail) pushed by extra stages
    self.extra_oracle_failures = [] # (case, what)
    self.extra_evals = 0

  def count(self, key, sub=None, n=1):
    h = self.hist.setdefault(key, {})
    sub = str(sub)
    h[sub] = h.get(sub, 0) + n

  def corpus(self, name=None):
    """Minimised past disagreements / witnesses: harness/corpus/<PID>*.jsonl"""
    d = os.path.join(VERIF, 'harness', 'corpus')
    out = []
    for f in sorted(os.listdir(d)) if os.path.isdir(d) else []:
      if f.startswith(name or self.pid) and f.endswith('.jsonl'):
        for line in open(os.path.join(d, f)):
          line = line.strip()
          if line and not line.startswith('#'):
            out.append(json.loads(line))
    return out


def load_known():
  out = []
  p = os.path.join(VERIF, 'known_findings.json')
  if os.path.exists(p):
    out += json.load(open(p)).get('findings', [])
  d = os.path.join(VERIF, 'known_findings.d')   # per-work-package fragments, merged into the file above
  if os.path.isdir(d):
    for f in sorted(os.listdir(d)):
      if f.endswith('.json'):
        out += json.load(open(os.path.join(d, f))).get('findings', [])
  return out


def _impl_worker(args):
  modname, cases = args
  mod = importlib.import_module(modname)
  out = []
  for c in cases:
    try:
      obs = mod.run_impl(c)
      orc = mod.oracle(c, obs)
      out.append((obs, orc, None))
    except Exception:  # harness bug, not a verdict
      out.append((None, None, traceback.format_exc()))
  return out


def run_impl_parallel(modname, cases, jobs):
  if jobs <= 1 or len(cases) < 64:
    return _impl_worker((modname, cases))
  chunk = max(16, math.ceil(len(cases) / (jobs * 4)))
  chunks = [cases[i:i + chunk] for i in range(0, len(cases), chunk)]
  import multiprocessing as mp
  # a hung case must not hang the check: the whole pool gets a generous deadline, after which the
  # workers are killed and the run ends as an infrastructure failure (exit 2), never as a verdict
  deadline = float(os.environ.get('VERIF_POOL_TIMEOUT', '1500' if len(cases) < 20000 else '5400'))
  deadline *= max(1.0, 16.0 / max(jobs, 1))   # fewer worker processes (VERIF_JOBS) => proportionally more time
  ex = cf.ProcessPoolExecutor(max_workers=jobs, mp_context=mp.get_context('spawn'))
  try:
    res = list(ex.map(_impl_worker, [(modname, ch) for ch in chunks], timeout=deadline))
  except cf.TimeoutError:
    for proc in list(getattr(ex, '_processes', {}).values()):
      try:
        proc.kill()
      except Exception:
        pass
    ex.shutdown(wait=False, cancel_futures=True)
    raise InfraError(f'implementation runs exceeded {deadline:.0f}s (a case hangs?)')
  # all results are in: a worker that still has non-daemon helper threads blocked (left over by a case that
  # hung on purpose) must not wedge the shutdown of the pool - give the workers a grace period, then kill them
  procs = list(getattr(ex, '_processes', {}).values())
  ex.shutdown(wait=False, cancel_futures=True)
  grace = time.time() + 15
  for proc in procs:
    try:
      proc.join(max(0.0, grace - time.time()))
    except Exception:
      pass
  for proc in procs:
    try:
      if proc.is_alive():
        proc.kill()
    except Exception:
      pass
  return [r for ch in res for r in ch]


def write_replay(pid, kind, case, detail, extra=None):
  d = os.path.join(OUT, 'replays', pid)
  os.makedirs(d, exist_ok=True)
  body = dict(property=pid, kind=kind, case=case, detail=detail)
  if extra:
    body.update(extra)
  path = os.path.join(d, f'{kind}_{case_hash([kind, case, detail if case is None else None])}.json')
  with open(path, 'w') as f:
    json.dump(body, f, indent=1, sort_keys=True, default=str)
  return os.path.relpath(path, OUT)


def run_check(mod, tier, seed, replay=None):
  t0 = time.time()
  pid = mod.PID
  ctx = Ctx(pid, tier, seed)
  lean = ctx.lean
  jobs = int(os.environ.get('VERIF_JOBS', str(min(16, os.cpu_count() or 1))))
  broken = []       # (what, detail) : broken proof obligations / tie
  # -- 1. regenerate, 2. build + audit
  for what, msg in lean.regenerate():
    broken.append((f'{what}', msg[-1500:]))
  b = lean.build(list(mod.LEAN_MODULES) + ['driver'])
  if not b['ok']:
    drv = lean.build(['driver'])
    if not drv['ok']:
      only_props = False
    errs = '; '.join(f'{f}:{l}: {m}' for f, l, c, m in b['errors'][:5])
    broken.append(('lake build ' + ' '.join(b['failed'] or mod.LEAN_MODULES), errs or b['log'][-1500:]))
    if not os.path.exists(lean.driver_path):
      raise InfraError('driver executable missing and build failed:\n' + b['log'])
  audit, audit_out = ([], '')
  if b['ok']:
    audit, audit_out = lean.audit(mod.LEAN_MODULES)
    for a in audit:
      if not a['ok']:
        broken.append((f"audit {a['theorem']}", f"axioms={a['axioms']}"))
    if not audit:
      raise InfraError('no theorems found in ' + ' '.join(mod.LEAN_MODULES))
  for h in lean.grep_forbidden():
    broken.append(('forbidden token', h))
  if tier == 'thorough' and b['ok'] and os.environ.get('VERIF_SKIP_LEANCHECKER') != '1':
    p = subprocess.run(['lake', 'env', 'leanchecker', *mod.LEAN_MODULES], cwd=LEAN_DIR,
                       capture_output=True, text=True)
    ctx.notes.append(f'leanchecker rc={p.returncode}')
    if p.returncode != 0:
      broken.append(('leanchecker', (p.stdout + p.stderr)[-800:]))

  # -- replay mode
  if replay is not None:
    return do_replay(mod, ctx, replay)

  # -- 3. cases: correspondence + oracle
  cases = list(mod.gen_cases(ctx))
  modname = mod.__name__
  impl = run_impl_parallel(modname, cases, jobs)
  reqs, spans = [], []
  mr_obs = getattr(mod, 'model_requests_obs', None)   # variant that may look at the impl observation
  for c, (o_, _, tb_) in zip(cases, impl):
    if tb_ is not None:
      raise InfraError(f'harness crashed on case {jdump(c)[:400]}:\n{tb_}')
    r = mr_obs(c, o_) if mr_obs is not None else mod.model_requests(c)
    spans.append((len(reqs), len(reqs) + len(r)))
    reqs += r
  resps = lean.ask_many(reqs)
  compare = getattr(mod, 'compare', None) or (lambda a, b: None if a == b else 'observations differ')
  disagreements, oracle_failures = [], []
  seen, nontrivial = set(), 0
  for c, (obs, orc, tb), (lo, hi) in zip(cases, impl, spans):
    if tb is not None:
      raise InfraError(f'harness crashed on case {jdump(c)[:400]}:\n{tb}')
    rs = resps[lo:hi]
    bad = [r for r in rs if isinstance(r, dict) and 'driver_error' in r]
    if bad:
      raise InfraError(f'driver rejected case {jdump(c)[:400]}: {bad[0]}')
    mobs = mod.model_obs(c, rs)
    d = compare(obs, mobs)
    if d is not None:
      disagreements.append((c, dict(impl=obs, model=mobs, why=d)))
    if orc is not None:
      oracle_failures.append((c, orc))
    h = case_hash(c)
    if h not in seen:
      seen.add(h)
      if mod.nontrivial(c, obs):
        nontrivial += 1
  if hasattr(mod, 'extra'):
    mod.extra(ctx)
  for name, c, det in ctx.extra_disagreements:
    disagreements.append((c, dict(stage=name, **(det if isinstance(det, dict) else dict(why=det)))))
  oracle_failures += ctx.extra_oracle_failures

  # -- verdict
  known = [k for k in load_known() if (k.get('property') == pid or pid in k.get('also', [])) and k.get('status') == 'open']
  known_ids = {k['id'] for k in known}
  lines, violations, known_hits = [], 0, {}
  new_fail = []
  for c, what in oracle_failures:
    fid = mod.finding(c, what)
    if fid is not None and fid in known_ids:
      known_hits.setdefault(fid, (c, what))
    else:
      new_fail.append((c, what))
  if new_fail:
    c, what = new_fail[0]
    if hasattr(mod, 'shrink'):
      try:
        c2 = mod.shrink(c, lambda x: _fails(mod, x))
        if c2 is not None:
          c = c2
          what = _fails(mod, c) or what
      except Exception:
        pass
    path = write_replay(pid, 'oracle', c, what, dict(seed=seed, tier=tier, others=len(new_fail) - 1,
                                                      broke=[w for w, _ in broken], broken=[list(x) for x in broken][:10]))
    lines.append(f'VIOLATION property={pid} replay={path}')
    violations += len(new_fail)
  elif broken or disagreements:
    # broken proof / tie but the oracle passed everywhere: failing-input search
    found = None
    seeds = [c for c, _ in disagreements[:20]]
    if hasattr(mod, 'neighbours'):
      budget = 2000 if ctx.quick else 20000
      tried = 0
      for s in seeds or cases[:20]:
        for nb in mod.neighbours(s, ctx.rng):
          tried += 1
          w = _fails(mod, nb)
          if w is not None and not (mod.finding(nb, w) in known_ids):
            found = (nb, w)
            break
          if tried >= budget:
            break
        if found or tried >= budget:
          break
      ctx.notes.append(f'failing-input search tried {tried} neighbours')
    what_broke = [w for w, _ in broken] + [f'correspondence {mod.PID} ({len(disagreements)} cases disagree)'] * bool(disagreements)
    if found:
      path = write_replay(pid, 'oracle', found[0], found[1], dict(seed=seed, tier=tier, broke=what_broke))
      lines.append(f'VIOLATION property={pid} replay={path}')
    else:
      c, det = disagreements[0] if disagreements else (None, None)
      path = write_replay(pid, 'tie', c, dict(broken=[list(x) for x in broken], disagreement=det),
                          dict(seed=seed, tier=tier, no_failing_input_found=True,
                               names=what_broke))
      lines.append(f'VIOLATION property={pid} replay={path} no-failing-input-found')
    violations += 1
  for fid, (c, what) in sorted(known_hits.items()):
    k = next(k for k in known if k['id'] == fid)
    print(f"KNOWN-FINDING: property={pid} {fid}: {k['what']}")
  # known findings that no longer reproduce are only noted
  for k in known:
    if k['id'] not in known_hits:
      ctx.notes.append(f"known finding {k['id']} not reproduced by this run's cases")

  # -- evidence
  samples = [dict(case=c, impl=o[0]) for c, o in list(zip(cases, impl))[:2]]
  if len(cases) > 4:
    i = ctx.rng.randrange(len(cases))
    samples.append(dict(case=cases[i], impl=impl[i][0]))
  n_thm = len(audit)
  ev = dict(
      property_id=pid, tier=tier, seed=seed, level='proof',
      coverage=dict(
          obligations=max(n_thm, 1) if b['ok'] else max(len(Lean.theorems_of(mod.LEAN_MODULES[0])) if os.path.exists(os.path.join(LEAN_DIR, *mod.LEAN_MODULES[0].split('.')) + '.lean') else 1, 1),
          discharged=sum(1 for a in audit if a['ok']) if b['ok'] else 0,
          checker_cmd=f"cd lean && lake build {' '.join(mod.LEAN_MODULES)} && lake env lean <generated #print axioms file>",
          trusted_base=BASE_TRUSTED + list(getattr(mod, 'TRUSTED', [])),
          theorems=[dict(name=a['theorem'], axioms=a['axioms']) for a in audit],
          evaluations=len(cases) + ctx.extra_evals,
          distinct_nontrivial=nontrivial,
          rule=mod.RULE,
          samples=samples,
          traces_validated_against_impl=len(cases) - len(disagreements),
          disagreements=len(disagreements),
          oracle_failures=len(oracle_failures),
          known_findings_reproduced=sorted(known_hits),
          broken=[list(x) for x in broken],
          histograms=ctx.hist,
          notes=ctx.notes,
          lake_build_s=round(b['wall'], 2),
      ),
      assumptions=list(getattr(mod, 'ASSUMPTIONS', [])),
      wall_s=round(time.time() - t0, 2),
      violations=violations,
  )
  os.makedirs(os.path.join(OUT, 'evidence'), exist_ok=True)
  with open(os.path.join(OUT, 'evidence', f'{pid}.json'), 'w') as f:
    json.dump(ev, f, indent=1, sort_keys=True, default=str)
  for l in lines:
    print(l)
  print(f'{pid} {tier} seed={seed}: theorems={n_thm} cases={len(cases)} nontrivial={nontrivial} '
        f'disagreements={len(disagreements)} oracle_failures={len(oracle_failures)} '
        f'known={sorted(known_hits)} wall={time.time() - t0:.1f}s')
  return 1 if violations else 0


def _fails(mod, case):
  try:
    obs = mod.run_impl(case)
    return mod.oracle(case, obs)
  except Exception as e:  # a harness crash in search is not a verdict
    return None


def do_replay(mod, ctx, path):
  if not os.path.isabs(path):
    path = os.path.join(OUT, path)
  body = json.load(open(path))
  case = body.get('case')
  if case is None:
    print(f'replay {path}: names broken obligations only: {body.get("names")}')
    print(jdump(body.get('detail'))[:2000])
    return 1
  obs = mod.run_impl(case)
  orc = mod.oracle(case, obs)
  mr_obs = getattr(mod, 'model_requests_obs', None)
  rs = ctx.lean.ask_many(mr_obs(case, obs) if mr_obs is not None else mod.model_requests(case))
  mobs = mod.model_obs(case, rs)
  compare = getattr(mod, 'compare', None) or (lambda a, b: None if a == b else 'observations differ')
  d = compare(obs, mobs)
  print('case :', jdump(case)[:3000])
  print('impl :', jdump(obs)[:3000])
  print('model:', jdump(mobs)[:3000])
  print('oracle:', orc)
  print('correspondence:', d)
  if orc is not None or d is not None:
    fid = mod.finding(case, orc) if orc is not None else None
    known = {k['id']: k for k in load_known()
             if (k.get('property') == mod.PID or mod.PID in k.get('also', [])) and k.get('status') == 'open'}
    if d is None and fid in known:
      print(f"KNOWN-FINDING: property={mod.PID} {fid}: {known[fid]['what']}")
      return 0
    print(f'VIOLATION property={mod.PID} replay={os.path.relpath(path, OUT)}')
    return 1
  print('replay passes on the current tree')
  return 0


def main(argv=None):
  import argparse
  ap = argparse.ArgumentParser()
  ap.add_argument('pid')
  ap.add_argument('--tier', default=os.environ.get('VERIF_TIER', 'quick'), choices=['quick', 'thorough'])
  ap.add_argument('--seed', type=int, default=int(os.environ.get('VERIF_SEED', '0')))
  ap.add_argument('--replay', default=None)
  a = ap.parse_args(argv)
  sys.path.insert(0, VERIF)
  mod = importlib.import_module(f'harness.props.{a.pid.lower()}')
  try:
    rc = run_check(mod, a.tier, a.seed, a.replay)
  except Exception as e:  # pylint: disable=broad-except
    # this file runs as __main__, so a property module raising harness.core.InfraError raises a
    # different class object: match by name
    if type(e).__name__ != 'InfraError':
      raise
    print(f'INFRASTRUCTURE FAILURE (not a verdict): {e}', file=sys.stderr)
    rc = 2
  sys.exit(rc)


if __name__ == '__main__':
  main()
