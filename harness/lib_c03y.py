"""C03 (round 10) — case family `fam = "obs"`: DATA-SOURCE SHAPES under every strategy, and EVERY OBSERVABLE the
aggregate can be taken from.

A case is  {fam: "obs", sub: "shape" | "kinds",
            src: {kind: "mseq" | "seq" | "rr" | "iter", seqs: [[int, ..], ..]},
            stages: [{ops: [name, ..], aggs: [kind, ..]}, ..],        # named stages s0, s1, ..; keys A<stage>_<j>
            strats: [strategy, ..]}
with strategies
  {"s": "threads", "n": n}                                   num_threads = n on every transform
  {"s": "shards", "k": k, "via": "make" | "source",          make(shard=ShardConfig(i, k)) / data_source.shard(i, k)
                  "runner": "default" | "aggregate", "states_as": "list" | "gen"}
  {"s": "interleaved"}                                       orchestrate.run_pipeline_interleaved, in process
The sequential run (num_threads = 0, whole source) is always run first and is the oracle's reference.

sub = "shape":  `SequenceDataSource.from_sequences` with 2-4 sequences of equal / unequal / EMPTY lengths, every shard
  count 1..5 for threads, make(shard=) and data_source.shard, so that thread-shard and shard boundaries fall ON, one
  BEFORE and one AFTER the start of an underlying sequence (alignment classes are computed from the lengths and
  enforced per strategy kind); also a single sequence, a ShardedIterable and plain iterables.
sub = "kinds":  chains of 1-3 named stages of which 1-3 aggregate; the aggregate of every aggregating stage is, in turn,
  every STATE KIND: tuple / number (falsy 0) / frozen dataclass / None-or-number states (update_state returns a NEW
  object), a list mutated in place, a MergeableMetric mutated in place, the library's MeanAndVariance.
For every run EVERY observable is taken (an absent one is an oracle failure):
  it_result         iterator.agg_result after exhaustion
  ret_result        AggregateResult.agg_result        (StopIteration.value)
  ret_state_result  get_result(AggregateResult.agg_state)           by the AGGREGATE-mode runner
  it_state_result   get_result(iterator.agg_state)                  by the plain runner
  shards also:  merged_ret_result  get_result(merge_states(returned agg_states of the k shard runs))
                merged_it_result   get_result(merge_states(iterator.agg_state of the k shard runs))
  interleaved:  ret_result / ret_state_result from the AggregateResults in the stage result queues.
Oracle = the property: every observable of every strategy equals the sequential run's agg_result AND the brute-force
value computed from the data by this module's own definition of the aggregates (list equality where the strategy
keeps the order, multiset where it cannot); the emitted elements are the sequential list / multiset.
Model = Model/StrategyObs.lean (driver "strategyobs"): shard contents through MergedSequences.slice, per-stage states
restricted to own keys, chained agg_state, merge_states per aggregating runner — compared state by state.
"""
from __future__ import annotations

import collections
import copy
import dataclasses
import itertools
import json

OPS = {'dbl': lambda x: x * 2, 'inc': lambda x: x + 1, 'neg': lambda x: -x, 'sq': lambda x: x * x}
FILTERS = {'even': lambda x: x % 2 == 0, 'pos': lambda x: x > 0, 'small': lambda x: x < 6}

# state kind -> kind of the Lean model (Model/StrategyObs.lean: AKind); new = update_state returns a new object
KINDS = {'tuple': ('sumcount', 'new'), 'num': ('count', 'new'), 'frozen': ('sumsq', 'new'), 'max': ('max', 'new'),
         'iplist': ('sumcount', 'inplace'), 'collect': ('collect', 'inplace'), 'meanvar': ('moments', 'inplace')}
ORDERED = {'collect'}      # order-carrying: compared as a list where the strategy keeps the order


# ------------------------------------------------------------------ the aggregate library (real code side)

def _lib(mods):
  np, transform, io, orchestrate, rolling_stats, base = mods

  class SumCount(base.AggregateFn):
    """immutable tuple state (sum, count)"""

    def create_state(self):
      return (0, 0)

    def update_state(self, state, x):
      return (state[0] + int(x), state[1] + 1)

    def merge_states(self, states):
      states = list(states)
      return (sum(s[0] for s in states), sum(s[1] for s in states))

    def get_result(self, state):
      return state

  class Count(base.AggregateFn):
    """number state, starting at the falsy 0"""

    def create_state(self):
      return 0

    def update_state(self, state, x):
      return state + 1

    def merge_states(self, states):
      return sum(states)

    def get_result(self, state):
      return state

  @dataclasses.dataclass(frozen=True)
  class SumSq:
    total: int = 0
    squares: int = 0

  class SumSqFn(base.AggregateFn):
    """frozen dataclass state"""

    def create_state(self):
      return SumSq()

    def update_state(self, state, x):
      return SumSq(state.total + int(x), state.squares + int(x) * int(x))

    def merge_states(self, states):
      states = list(states)
      return SumSq(sum(s.total for s in states), sum(s.squares for s in states))

    def get_result(self, state):
      return state

  class MaxFn(base.AggregateFn):
    """None until the first element, then a number"""

    def create_state(self):
      return None

    def update_state(self, state, x):
      return int(x) if state is None else max(state, int(x))

    def merge_states(self, states):
      states = [s for s in states if s is not None]
      return max(states) if states else None

    def get_result(self, state):
      return state

  class InPlaceList(base.AggregateFn):
    """a list [sum, count] mutated IN PLACE (update_state returns the same object)"""

    def create_state(self):
      return [0, 0]

    def update_state(self, state, x):
      state[0] += int(x)
      state[1] += 1
      return state

    def merge_states(self, states):
      it = iter(states)
      first = next(it)
      for s in it:
        first[0] += s[0]
        first[1] += s[1]
      return first

    def get_result(self, state):
      return list(state)

  class Collect:
    """order-carrying MergeableMetric mutated in place"""

    def __init__(self):
      self.items = []

    def add(self, x):
      self.items.append(int(x))

    def merge(self, other):
      self.items.extend(other.items)

    def result(self):
      return list(self.items)

  class MeanVarScalar(base.MergeableMetricAggFn):
    """the library's MeanAndVariance (in-place MergeableMetric) fed one scalar per element"""

    def update_state(self, state, x):
      state.add(np.asarray([x]))
      return state

  def make(kind):
    if kind == 'tuple':
      return SumCount()
    if kind == 'num':
      return Count()
    if kind == 'frozen':
      return SumSqFn()
    if kind == 'max':
      return MaxFn()
    if kind == 'iplist':
      return InPlaceList()
    if kind == 'collect':
      return base.as_agg_fn(Collect)
    if kind == 'meanvar':
      return MeanVarScalar(rolling_stats.MeanAndVariance().as_agg_fn().metric_maker)
    raise ValueError(kind)

  def canon(kind, v):
    """a state or a result of an aggregate of this kind as a list of numbers"""
    if kind in ('tuple', 'iplist'):
      return [int(v[0]), int(v[1])]
    if kind == 'num':
      return [int(v)]
    if kind == 'frozen':
      return [int(v.total), int(v.squares)]
    if kind == 'max':
      return [] if v is None else [int(v)]
    if kind == 'collect':
      return [int(x) for x in (v.items if hasattr(v, 'items') and not isinstance(v, dict) else v)]
    if kind == 'meanvar':
      cnt = np.asarray(v.count).reshape(-1)
      n = int(cnt[0]) if cnt.size else 0
      if n == 0:
        return [0, 0, 0]
      mean = float(np.asarray(v.mean).reshape(-1)[0])
      var = float(np.asarray(v.var).reshape(-1)[0])
      return [n, mean * n, (var + mean * mean) * n]
    raise ValueError(kind)

  return make, canon


def key_kinds(case):
  """{key name: state kind}"""
  return {f'A{si}_{j}': kd for si, stg in enumerate(case['stages']) for j, kd in enumerate(stg['aggs'])}


# ------------------------------------------------------------------ building and running on the real code

class _Iterable:
  """a re-iterable that is neither a sequence data source nor shardable"""

  def __init__(self, xs):
    self.xs = list(xs)

  def __iter__(self):
    return iter(list(self.xs))


def make_source(src, mods, shard=None):
  np, transform, io, *_ = mods
  seqs = [list(s) for s in src['seqs']]
  flat = [x for s in seqs for x in s]
  kind = src['kind']
  if kind == 'mseq':
    ds = io.SequenceDataSource.from_sequences(seqs)
  elif kind == 'seq':
    ds = io.SequenceDataSource(flat)
  elif kind == 'rr':
    ds = io.ShardedIterable(flat)
  elif kind == 'iter':
    ds = _Iterable(flat)
  else:
    raise ValueError(kind)
  if shard is not None:
    ds = ds.shard(*shard)
  return ds


def build(case, mods, nt=0, shard=None):
  np, transform, io, *_ = mods
  make, _ = _lib(mods)
  P = transform.TreeTransform
  p = None
  for si, stg in enumerate(case['stages']):
    t = P.new(name=f's{si}', num_threads=nt)
    if si == 0:
      t = t.data_source(make_source(case['src'], mods, shard))
    for op in stg['ops']:
      t = t.filter(FILTERS[op]) if op in FILTERS else t.apply(fn=OPS[op])
    for j, kind in enumerate(stg['aggs']):
      kw = dict(fn=make(kind), output_keys=f'A{si}_{j}')
      t = t.add_aggregate(**kw) if j else t.aggregate(**kw)
    p = t if p is None else p.chain(t)
  return p


def _name(key):
  m = getattr(key, 'metrics', key)
  if isinstance(m, (tuple, list)):
    m = m[0]
  return str(m)


def _canon_state(state, kinds, canon):
  if state is None:
    return None
  return {_name(k): canon(kinds[_name(k)], v) for k, v in state.items()}


def _canon_result(res, kinds, canon):
  if res is None:
    return None
  return {_name(k): canon(kinds[_name(k)], v) for k, v in dict(res).items()}


def _one_run(p, mods, kinds, canon, shard=None, agg=None, plain=None):
  """one exhausted iterator of the pipeline: every observable of that run (canonical), + the raw states"""
  from harness import lib_c03 as L
  it = p.make(shard=shard).iterate() if shard is not None else p.make().iterate()
  outs, ret = L.drain(it)
  o = dict(out=[int(x) for x in outs])
  raw_ret = ret.agg_state if ret is not None else None
  # the iterator's own state is copied BEFORE anything merges into the shared (in place) state objects
  raw_it = copy.deepcopy(it.agg_state)
  o['it_result'] = _canon_result(it.agg_result, kinds, canon)
  o['ret_result'] = _canon_result(ret.agg_result, kinds, canon) if ret is not None else None
  o['ret_state'] = _canon_state(raw_ret, kinds, canon)
  o['it_state'] = _canon_state(it.agg_state, kinds, canon)
  if kinds:
    o['ret_state_result'] = _canon_result(agg.get_result(raw_ret), kinds, canon) if raw_ret is not None else None
    o['it_state_result'] = _canon_result(plain.get_result(it.agg_state), kinds, canon) if it.agg_state is not None else None
  return o, raw_ret, raw_it


def run_obs(case, strats, mods):
  """the sequential run and every strategy of the case: {base: .., runs: [..]}"""
  from harness.core import err_kind
  np, transform, io, orchestrate, rolling_stats, base = mods
  _, canon = _lib(mods)
  kinds = key_kinds(case)
  out = {}

  def runners(p):
    if not kinds:
      return None, None
    return p.make(mode=transform.RunnerMode.AGGREGATE), p.make()

  try:
    p0 = build(case, mods)
    agg0, plain0 = runners(p0)
    out['base'], _, _ = _one_run(p0, mods, kinds, canon, agg=agg0, plain=plain0)
    out['base']['err'] = None
  except Exception as e:  # pylint: disable=broad-except
    out['base'] = dict(err=err_kind(e), msg=(str(e) or repr(e.__cause__))[:200])
    out['runs'] = []
    return out
  runs = []
  for st in strats:
    try:
      s = st['s']
      if s == 'threads':
        p = build(case, mods, nt=st['n'])
        agg, plain = runners(p)
        o, _, _ = _one_run(p, mods, kinds, canon, agg=agg, plain=plain)
        o['err'] = None
      elif s == 'shards':
        k = st['k']
        p = build(case, mods)
        agg, plain = runners(p)
        shard_obs, rets, its = [], [], []
        for i in range(k):
          if st['via'] == 'make':
            so, raw_ret, raw_it = _one_run(p, mods, kinds, canon, shard=io.ShardConfig(i, k), agg=agg, plain=plain)
          else:
            pi = build(case, mods, shard=(i, k))
            so, raw_ret, raw_it = _one_run(pi, mods, kinds, canon, agg=agg, plain=plain)
          shard_obs.append(so)
          if raw_ret is not None:
            rets.append(raw_ret)
          if raw_it is not None:
            its.append(raw_it)
        o = dict(err=None, out=[x for so in shard_obs for x in so['out']], shards=shard_obs, nstates=len(rets))
        if kinds:
          merger = agg if st.get('runner') == 'aggregate' else plain
          arg = (x for x in rets) if st.get('states_as') == 'gen' else rets
          merged = merger.merge_states(arg, strict_states_cnt=k)
          o['merged_ret_state'] = _canon_state(merged, kinds, canon)
          o['merged_ret_result'] = _canon_result(merger.get_result(merged), kinds, canon)
          merged_it = merger.merge_states(its)
          o['merged_it_result'] = _canon_result(merger.get_result(merged_it), kinds, canon)
      elif s == 'interleaved':
        p = build(case, mods)
        agg, plain = runners(p)
        with orchestrate.run_pipeline_interleaved(p) as runner:
          outs = [int(x) for x in runner.result_queue]
        res, states, nret = {}, [], []
        for stage in runner.stages:
          nret.append(len(stage.result_queue.returned))
          for r in stage.result_queue.returned:
            if r is not None:
              res.update(_canon_result(r.agg_result, kinds, canon) or {})
              if r.agg_state is not None:
                states.append(r.agg_state)
        o = dict(err=None, out=outs, nret=nret)
        if kinds:
          o['ret_result'] = res
          st_union = {}
          for s_ in states:
            st_union.update(_canon_state(s_, kinds, canon))
          o['ret_state'] = st_union
          o['ret_state_result'] = _canon_result(agg.get_result(agg.merge_states(states)), kinds, canon)
      else:
        raise ValueError(s)
    except Exception as e:  # pylint: disable=broad-except
      o = dict(err=err_kind(e), msg=(str(e) or repr(e.__cause__))[:200])
    runs.append(o)
  out['runs'] = runs
  return out


# ------------------------------------------------------------------ the property's own arithmetic (oracle side)

def flat(case):
  return [x for s in case['src']['seqs'] for x in s]


def expected(case):
  """brute force, from the data: the emitted elements and, per key, the aggregate over the stream its stage emits"""
  xs = flat(case)
  res = {}
  for si, stg in enumerate(case['stages']):
    for op in stg['ops']:
      xs = [x for x in xs if FILTERS[op](x)] if op in FILTERS else [OPS[op](x) for x in xs]
    for j, kd in enumerate(stg['aggs']):
      res[f'A{si}_{j}'] = {'tuple': lambda f: [sum(f), len(f)], 'iplist': lambda f: [sum(f), len(f)],
                           'num': lambda f: [len(f)], 'frozen': lambda f: [sum(f), sum(x * x for x in f)],
                           'max': lambda f: [max(f)] if f else [], 'collect': list,
                           'meanvar': lambda f: [len(f), sum(f), sum(x * x for x in f)]}[kd](xs)
  return xs, res


def _same(kind, a, b, as_multiset):
  if a is None or b is None:
    return a is b
  if kind == 'collect':
    return sorted(a) == sorted(b) if as_multiset else list(a) == list(b)
  if kind == 'meanvar':
    from harness.core import close
    return len(a) == len(b) and all(close(float(x), float(y), rel=1e-9, abs_=1e-7) for x, y in zip(a, b))
  return list(a) == list(b)


def _diff(kinds, got, want, as_multiset):
  """first key under which two canonical result / state maps differ, or None"""
  if got is None or want is None:
    return None if got is want or (not got and not want) else 'missing'
  if set(got) != set(want):
    return f'keys {sorted(got)} instead of {sorted(want)}'
  for k in sorted(want):
    if not _same(kinds[k], got[k], want[k], as_multiset):
      return f'{k} ({kinds[k]} state): {got[k]} instead of {want[k]}'
  return None


def ob_tag(st):
  return '[obs ' + ' '.join(f'{k}={st[k]}' for k in ('s', 'n', 'k', 'via', 'runner', 'states_as') if k in st) + ']'


RUN_OBSERVABLES = ['it_result', 'ret_result', 'ret_state_result', 'it_state_result']
OBSERVABLES = {'seq': RUN_OBSERVABLES, 'threads': RUN_OBSERVABLES,
               'shards': ['merged_ret_result', 'merged_it_result'],       # + RUN_OBSERVABLES of every shard run
               'interleaved': ['ret_result', 'ret_state_result']}


def ob_oracle(case, o):
  kinds = key_kinds(case)
  src = case['src']['kind']
  if o.get('hang'):
    return f"[obs] did not finish within {o.get('timeout')} s (hang)"
  if o.get('err') == 'ChildDied':
    return '[obs] the process running the strategies died'
  base = o.get('base') or {}
  if base.get('err'):
    return f"[obs s=seq] the sequential run failed: {base['err']}: {base.get('msg', '')[:100]}"
  want_out, want = expected(case)
  if base['out'] != want_out:
    return f"[obs s=seq] emitted {base['out']} instead of {want_out}"
  if kinds:
    for name in RUN_OBSERVABLES:
      if name not in base:
        return f'[obs s=seq] observable {name} was not taken'
      d = _diff(kinds, base[name], want, False)
      if d:
        return f'[obs s=seq] {name}: {d}'
  ref = base.get('it_result')
  for st, r in zip(case['strats'], o.get('runs', [])):
    t = ob_tag(st)
    if r.get('err'):
      return f"{t} error {r['err']}: {r.get('msg', '')[:120]}"
    s = st['s']
    unordered = s == 'threads' or (s == 'shards' and src == 'rr')
    got = r['out']
    if (sorted(got) != sorted(want_out)) if unordered else (got != want_out):
      extra = collections.Counter(got) - collections.Counter(want_out)
      lost = collections.Counter(want_out) - collections.Counter(got)
      return (f'{t} emitted elements differ from the sequential run: {len(got)} instead of {len(want_out)}, '
              f'{sum(extra.values())} duplicated / unexpected (first {sorted(extra)[:4]}), {sum(lost.values())} lost '
              f'(first {sorted(lost)[:4]})')
    if not kinds:
      continue
    for name in OBSERVABLES[s]:
      if name not in r:
        return f'{t} observable {name} was not taken'
      for what, w in (('the sequential agg_result', ref), ('the aggregate of the whole data', want)):
        d = _diff(kinds, r[name], w, unordered)
        if d:
          return f'{t} {name} differs from {what}: {d}'
    if s == 'shards':
      if r.get('nstates') != st['k']:
        return f"{t} {r.get('nstates')} returned states for {st['k']} shards"
      # every shard run: whichever object the aggregate is taken from, it is the same aggregate
      for i, so in enumerate(r['shards']):
        for name in RUN_OBSERVABLES[1:]:
          if name not in so:
            return f'{t} shard {i}: observable {name} was not taken'
          d = _diff(kinds, so[name], so['it_result'], False)
          if d:
            return f'{t} shard {i}: {name} differs from the shard run\'s agg_result: {d}'
    if s == 'interleaved' and sum(r.get('nret', [])) < 1:
      return f'{t} no AggregateResult in any stage result queue'
  return None


# ------------------------------------------------------------------ model side

def ob_model_requests(case):
  kinds = key_kinds(case)
  ks = sorted({st['k'] for st in case['strats'] if st['s'] == 'shards'} |
              ({st['n'] for st in case['strats'] if st['s'] == 'threads'} if case['src']['kind'] != 'iter' else set()))
  stages = [dict(ops=stg['ops'], aggs=[dict(key=f'A{si}_{j}', kind=KINDS[kd][0]) for j, kd in enumerate(stg['aggs'])])
            for si, stg in enumerate(case['stages'])]
  return [dict(model='strategyobs', src=case['src']['kind'], seqs=case['src']['seqs'], stages=stages, ks=ks)]


def _m(kv):
  """[[key, state], ..] of the driver -> {key: state} (a later item wins, as in the model's lookupLast)"""
  if isinstance(kv, dict):       # {"err": ..}
    return kv
  return {k: v for k, v in kv}


def ob_compare(case, o, resp):
  """state by state, run by run: the real observables against Model/StrategyObs.lean"""
  if o.get('hang') or o.get('err') == 'ChildDied':
    return None
  kinds = key_kinds(case)
  src = case['src']['kind']
  base = o.get('base') or {}
  if base.get('err'):
    return None                   # run-time failures are the oracle's business
  w = resp['whole']

  def run_diff(r, m, label, unordered):
    if (sorted(r['out']) != sorted(m['out'])) if unordered else (r['out'] != m['out']):
      return f"{label}: emitted {r['out']} != model {m['out']}"
    if not kinds:
      return None
    for name, mname in (('ret_state', 'state'), ('it_state', 'state'), ('it_result', 'it_result'),
                        ('ret_result', 'it_result'), ('ret_state_result', 'state_result'),
                        ('it_state_result', 'state_result')):
      if name in r:
        d = _diff(kinds, r[name], _m(m[mname]), unordered)
        if d:
          return f'{label}: {name} != model {mname}: {d}'
    return None

  d = run_diff(base, w, 'sequential', False)
  if d:
    return d
  by_k = {x['k']: x for x in resp['shards']}
  for st, r in zip(case['strats'], o.get('runs', [])):
    if r.get('err'):
      continue
    t, s = ob_tag(st), st['s']
    if s == 'threads':
      d = run_diff(r, w, t, True)
    elif s == 'interleaved':
      d = run_diff(r, w, t, False)
    else:
      m = by_k[st['k']]
      d = None
      for i, (so, mo) in enumerate(zip(r['shards'], m['runs'])):
        d = d or run_diff(so, mo, f'{t} shard {i}', False)       # exact shard contents, also for round robin
      if not d and kinds:
        unordered = src == 'rr'
        d = _diff(kinds, r.get('merged_ret_state'), _m(m['merged']), unordered)
        d = d and f'{t} merge_states(returned states) != model: {d}'
        for name in ('merged_ret_result', 'merged_it_result'):
          if not d:
            d = _diff(kinds, r.get(name), _m(m['merged_result']), unordered)
            d = d and f'{t} {name} != model merged_result: {d}'
    if d:
      return d
  return None


# ------------------------------------------------------------------ generators and coverage classes

def boundaries(n, k):
  """the k+1 positions at which SequenceDataSource.shard(i, k) cuts n elements (computed here from the documented
  contract: the first n % k shards have one element more)"""
  q, r = divmod(n, k)
  out, pos = [0], 0
  for i in range(k):
    pos += q + (1 if i < r else 0)
    out.append(pos)
  return out


def align_classes(lens, k):
  """where the INTERIOR shard boundaries fall relative to the starts of the underlying sequences"""
  n = sum(lens)
  starts, pos = [], 0
  for i, ln in enumerate(lens):
    if i > 0:
      starts.append(pos)
    pos += ln
  empty_at = set()
  pos = 0
  for ln in lens:
    if ln == 0:
      empty_at.add(pos)
    pos += ln
  cls = set()
  for b in boundaries(n, k)[1:-1]:
    if not 0 < b < n:
      cls.add('at an end of the data (empty shard)')
      continue
    if b in starts:
      cls.add('ON a sequence start')
      if b in empty_at:
        cls.add('ON the start of an empty sequence')
    else:
      if b + 1 in starts:
        cls.add('one BEFORE a sequence start')
      if b - 1 in starts:
        cls.add('one AFTER a sequence start')
      if b + 1 not in starts and b - 1 not in starts:
        cls.add('away from every sequence start')
  return cls


def length_class(lens):
  if 0 in lens:
    return 'with an empty sequence'
  return 'equal lengths' if len(set(lens)) == 1 else 'unequal lengths'


SHAPE_PIPES = [
    [dict(ops=['dbl'], aggs=['tuple', 'collect'])],
    [dict(ops=[], aggs=['num']), dict(ops=['inc'], aggs=['collect', 'max'])],
    [dict(ops=['inc'], aggs=[])],
    [dict(ops=['even'], aggs=['frozen']), dict(ops=['dbl'], aggs=['iplist'])],
]


def shape_strats(src_kind, rng, quick):
  sts = []
  ks = (1, 2, 3, 4, 5)
  for k in ks:
    sts.append(dict(s='threads', n=k))
    if src_kind != 'iter':
      sts.append(dict(s='shards', k=k, via='make', runner=rng.choice(['default', 'aggregate']), states_as='list'))
      sts.append(dict(s='shards', k=k, via='source', runner=rng.choice(['default', 'aggregate']),
                      states_as=rng.choice(['list', 'gen'])))
  sts.append(dict(s='interleaved'))
  return sts


def gen_shapes(ctx):
  rng = ctx.rng
  quick = getattr(ctx, 'quick', True)
  tuples = []
  for m in (2, 3):
    tuples += list(itertools.product(range(0, 4), repeat=m))
  four = list(itertools.product(range(0, 4), repeat=4))
  rng.shuffle(four)
  tuples += four[:(40 if quick else 256)]
  # the layouts of the seeded demo and longer sequences (a shard spanning several whole sequences)
  tuples += [(6, 6, 6), (5, 5), (4, 4, 2), (2, 2, 2, 2), (1, 7, 1), (3, 0, 0, 3), (0, 5, 0), (8, 1), (1, 8), (4, 0, 4, 0)]
  cases = []
  for lens in tuples:
    seqs, v = [], 0
    for ln in lens:
      seqs.append(list(range(v, v + ln)))
      v += ln
    cases.append(dict(fam='obs', sub='shape', src=dict(kind='mseq', seqs=seqs),
                      stages=rng.choice(SHAPE_PIPES), strats=shape_strats('mseq', rng, quick)))
  for kind in ('seq', 'rr', 'iter'):
    for n in (0, 1, 2, 5, 7, 12):
      cases.append(dict(fam='obs', sub='shape', src=dict(kind=kind, seqs=[list(range(n))]),
                        stages=rng.choice(SHAPE_PIPES), strats=shape_strats(kind, rng, quick)))
  return cases


def kind_chains(rng, quick):
  """(kinds of the aggregating stages) so that every kind sits at every position of chains with 1, 2, 3 aggregating stages"""
  ks = list(KINDS)
  chains = [(a,) for a in ks]
  chains += list(itertools.product(ks, repeat=2))
  triples = list(itertools.product(ks, repeat=3))
  rng.shuffle(triples)
  chosen, need = [], {(kd, pos) for kd in ks for pos in range(3)}
  for tr in triples:
    hit = {(kd, pos) for pos, kd in enumerate(tr)} & need
    if hit or len(chosen) < (40 if quick else 343):
      chosen.append(tr)
      need -= hit
    if not need and len(chosen) >= (40 if quick else 343):
      break
  return chains + chosen


def gen_kinds(ctx):
  rng = ctx.rng
  quick = getattr(ctx, 'quick', True)
  cases = []
  chains = kind_chains(rng, quick)
  n_enum = len(chains)
  chains += [tuple(rng.choice(list(KINDS)) for _ in range(rng.choice([1, 2, 3]))) for _ in range(8)]   # plain iterables
  for ci, chain in enumerate(chains):
    extra_iter = ci >= n_enum
    stages = []
    for pos, kd in enumerate(chain):
      ops = [rng.choice(list(OPS) + list(FILTERS)) for _ in range(rng.choice([0, 1, 1, 2]))]
      aggs = [kd] + ([rng.choice(list(KINDS))] if rng.random() < 0.3 else [])
      stages.append(dict(ops=ops, aggs=aggs))
    if len(stages) < 3 and rng.random() < 0.4:      # a stage without aggregates somewhere in the chain
      stages.insert(rng.randrange(0, len(stages) + 1), dict(ops=[rng.choice(list(OPS))], aggs=[]))
    lens = rng.choice([(4, 4), (3, 3, 3), (5, 2, 3), (2, 0, 6), (9,), (6, 6)])
    vals = [rng.randrange(-3, 10) for _ in range(sum(lens))]
    seqs, i = [], 0
    for ln in lens:
      seqs.append(vals[i:i + ln])
      i += ln
    skind = 'mseq' if len(lens) > 1 else rng.choice(['seq', 'rr'])
    if extra_iter:
      skind, seqs = 'iter', [vals]
    strats = [dict(s='threads', n=rng.choice([1, 2, 3])), dict(s='interleaved')]
    if skind != 'iter':
      strats.append(dict(s='shards', k=rng.choice([2, 3]), via='make', runner='aggregate', states_as='list'))
      strats.append(dict(s='shards', k=rng.choice([1, 2, 3, 4]), via='source', runner=rng.choice(['default', 'aggregate']),
                         states_as=rng.choice(['list', 'gen'])))
    cases.append(dict(fam='obs', sub='kinds', src=dict(kind=skind, seqs=seqs), stages=stages, strats=strats))
  return cases


def gen_obs(ctx):
  return gen_shapes(ctx) + gen_kinds(ctx)


def skind(st):
  return st['s'] + (':' + st['via'] if st['s'] == 'shards' else '')


def ob_counts(ctx, case):
  ctx.count('x-family', 'obs')
  ctx.count('obs:sub', case['sub'])
  src = case['src']
  ctx.count('obs:source', src['kind'])
  lens = [len(s) for s in src['seqs']]
  if src['kind'] == 'mseq':
    ctx.count('obs:n_seqs', str(len(lens)))
    ctx.count('obs:lengths', length_class(lens))
  agg_stages = [stg for stg in case['stages'] if stg['aggs']]
  ctx.count('obs:stages', f"{len(case['stages'])} stages, {len(agg_stages)} aggregating")
  for st in case['strats']:
    sk = skind(st)
    ctx.count('obs:strategy', sk)
    n = st.get('k', st.get('n'))
    if src['kind'] == 'mseq' and n:
      for c in align_classes(lens, n):
        ctx.count('obs:alignment', f'{sk}: boundary {c}')
        ctx.count('obs:alignment-by-nseqs', f'{len(lens)} sequences, k={n}: boundary {c}')
    for pos, stg in enumerate(agg_stages):
      for kd in stg['aggs'][:1] if case['sub'] == 'kinds' else stg['aggs']:
        ctx.count('obs:kind-at', f'{st["s"]}: {kd} ({KINDS[kd][1]}) at aggregating stage {pos + 1} of {len(agg_stages)}')
    if st['s'] == 'shards':
      ctx.count('obs:merge', f"{st.get('states_as')}/{st.get('runner')}")


def ob_required():
  need = {'obs:source': ['mseq', 'seq', 'rr', 'iter'], 'obs:n_seqs': ['2', '3', '4'],
          'obs:lengths': ['equal lengths', 'unequal lengths', 'with an empty sequence'],
          'obs:strategy': ['threads', 'shards:make', 'shards:source', 'interleaved'],
          'obs:merge': ['list/default', 'list/aggregate', 'gen/default', 'gen/aggregate']}
  need['obs:alignment'] = [f'{sk}: boundary {c}' for sk in ('threads', 'shards:make', 'shards:source')
                           for c in ('ON a sequence start', 'ON the start of an empty sequence',
                                     'one BEFORE a sequence start', 'one AFTER a sequence start',
                                     'away from every sequence start', 'at an end of the data (empty shard)')]
  need['obs:alignment-by-nseqs'] = [f'{m} sequences, k={k}: boundary {c}' for m in (2, 3, 4) for k in (2, 3, 4, 5)
                                    for c in ('ON a sequence start', 'one BEFORE a sequence start',
                                              'one AFTER a sequence start')]
  need['obs:kind-at'] = [f'{s}: {kd} ({KINDS[kd][1]}) at aggregating stage {pos} of {n}'
                         for s in ('threads', 'shards', 'interleaved') for kd in KINDS
                         for n in (1, 2, 3) for pos in range(1, n + 1)]
  return need


def ob_nontrivial(case, o):
  base = (o or {}).get('base') or {}
  return (base.get('err') is None and len(flat(case)) >= 2 and
          any(r.get('err') is None for r in (o or {}).get('runs', [])))


def ob_shrink(case, fails0):
  """one failing strategy, then fewer aggregates / stages / elements while it still fails"""
  cur = case
  for st in case['strats']:
    c = dict(cur, strats=[st])
    if fails0(c) is not None:
      cur = c
      break
  changed = True
  while changed:
    changed = False
    cands = []
    for si, stg in enumerate(cur['stages']):
      for j in range(len(stg['aggs'])):
        c = json.loads(json.dumps(cur))
        del c['stages'][si]['aggs'][j]
        cands.append(c)
      for j in range(len(stg['ops'])):
        c = json.loads(json.dumps(cur))
        del c['stages'][si]['ops'][j]
        cands.append(c)
    for qi, q in enumerate(cur['src']['seqs']):
      if q:
        c = json.loads(json.dumps(cur))
        c['src']['seqs'][qi] = q[:-1]
        cands.append(c)
    for c in cands:
      c['stages'] = [stg for i, stg in enumerate(c['stages']) if i == 0 or stg['ops'] or stg['aggs']]
      if c != cur and fails0(c) is not None:
        cur, changed = c, True
        break
  return cur
