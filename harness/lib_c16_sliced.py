"""C16 (package SC16c) — SLICED aggregations through the two distributed modes, against the in-process run.

kind 'sliced', dist 'sharded'     : orchestrate.sharded_pipelines_as_iterator(pool, define_sliced, .., num_shards=k,
                                    result_queue=q) — every shard runs `define_sliced(shard_index=i, num_shards=k)`
                                    on a worker; the master merges the k shard states (strict count k).
kind 'sliced', dist 'interleaved' : orchestrate.run_pipeline_interleaved(pipeline, master_server, resources): the data
                                    source in process, the FIRST aggregating stage on 1-3 remote workers fed through
                                    the master's queue (which worker sees which batch is decided by the run), further
                                    aggregating stages in process; every stage leaves its AggregateResult in
                                    `runner.stages[i].result_queue.returned`.

The pipeline: `read` (SequenceDataSource of the case's batches) chained with 1-3 AGGREGATING stages, every one the
C02-format sliced aggregation `sub` (harness/props/c02.py builds it: slicer kinds default / cross / within_values /
fan-out slice_fn / two slicers; aggregates that can merge), stage j under its own output keys.  With `add_slice` a
state has one entry per slice value SEEN, so the states of shards / workers carry different key sets.  The data is
skewed (sorted by the slice feature) so that slice values are missing from some shards / workers; shard counts above
the number of batches give empty shards.

Oracle (the property): the distributed run yields the same multiset of output batches and, per output key x slice
key, the same aggregate result as `define_sliced(..).make().iterate()` in one process; exactly one AggregateResult.

Coverage: the ORDER in which the states reach the merge and their slice-key sets are recorded by a pass-through
wrapper around the public `merge_states` of the two runner classes (the states are handed on unchanged, a one-shot
stream stays one-shot); it feeds the coverage arms 'slice key absent from the first / a middle / the last arriving
state' only — never the verdict.

Model tie (sharded, 1-2 stages): the Lean driver model `pipeaggshard` (Model/PipeAggShard.lean, package SC03) on the
same batches cut as SequenceDataSource.shard cuts them; theorems Properties/C16Sliced.lean.
"""
from __future__ import annotations

import collections
import json
import queue
import threading

TIMEOUT = 20.0
KIND = 'sliced'


# ------------------------------------------------------------------------------------------ pipeline

def stage_sub(sub, j):
  """the sub-case of aggregating stage j: the same aggregates / slicers under the output keys of stage j"""
  if j == 0:
    return sub
  s = json.loads(json.dumps(sub))
  for a in s['aggs']:
    a['out'] = [o + '_' + str(j + 1) for o in a['out']]
  return s


_STAGE_NAMES = ('first', 'second', 'third')


def define_sliced(sub_json, stages=1, shard_index=0, num_shards=1):
  """`read` -> `first` [-> `second` [-> `third`]]; `shard_index/num_shards` are supplied by the orchestrator"""
  import dataclasses
  from harness import lib_sched as L
  from harness.props import c02
  ns = L.setup()
  sub = json.loads(sub_json)
  ds = ns.io.SequenceDataSource(c02.build_batches(sub)).shard(shard_index, num_shards)
  t = ns.transform.TreeTransform.new(name='read').data_source(ds)
  for j in range(stages):
    t = t.chain(dataclasses.replace(c02.build_transform(stage_sub(sub, j)), name=_STAGE_NAMES[j]))
  return t


def canon_batch(b):
  import numpy as np

  def plain(x):
    if isinstance(x, dict):
      return {str(k): plain(v) for k, v in x.items()}
    if isinstance(x, np.ndarray):
      return x.tolist()
    if isinstance(x, (list, tuple)):
      return [plain(v) for v in x]
    if isinstance(x, np.generic):
      return x.item()
    return x
  return json.dumps(plain(b), sort_keys=True, default=repr)


def _agg_dict(res):
  res = getattr(res, 'data', res)
  return dict(res) if res is not None else {}


# ------------------------------------------------------------------------------------------ coverage probe

_PROBE = dict(installed=False, log=None, depth=threading.local())


def _slice_keys(state):
  out = set()
  try:
    for k in state:
      sl = getattr(k, 'slice', None)
      if sl is not None and tuple(sl.values):
        out.add(f'{k.metrics}|{tuple(sl.features)}|{tuple(sl.values)}')
  except Exception:  # pylint: disable=broad-except
    pass
  return sorted(out)


def _install_probe(ns):
  """pass-through wrappers of the PUBLIC merge_states of both runners: record the slice keys of the states in the
  order of arrival (outermost call only); lists are handed on as they are, streams as one-shot streams"""
  if _PROBE['installed']:
    return
  _PROBE['installed'] = True
  import functools
  for cls in (ns.transform.ChainedRunner, ns.transform.TransformRunner):
    orig = cls.merge_states

    def make(orig):
      @functools.wraps(orig)
      def merge_states(self, states, *a, **kw):
        d = _PROBE['depth']
        log = _PROBE['log']
        if log is None or getattr(d, 'n', 0):
          return orig(self, states, *a, **kw)
        call = []
        log.append(call)
        if isinstance(states, (list, tuple)):
          call.extend(_slice_keys(s) for s in states)
        else:
          def rec(it):
            for s in it:
              call.append(_slice_keys(s))
              yield s
          states = rec(states)
        d.n = 1
        try:
          return orig(self, states, *a, **kw)
        finally:
          d.n = 0
      return merge_states

    cls.merge_states = make(orig)


def arrival_classes(arrivals):
  """coverage classes of one merge: `arrivals` = slice-key sets of the states in the order they reached the merge"""
  out = set()
  ks = [set(a) for a in arrivals]
  if len(ks) < 2:
    return out
  allk = set().union(*ks)
  if not allk:
    return out
  if allk - ks[0]:
    out.add('key absent from the FIRST arriving state')
  if allk - ks[-1]:
    out.add('key absent from the LAST arriving state')
  if len(ks) >= 3 and any(allk - k for k in ks[1:-1]):
    out.add('key absent from a MIDDLE arriving state')
  if any(not k for k in ks):
    out.add('state without any slice key (empty shard / idle worker)')
  if not ks[0]:
    out.add('FIRST arriving state without any slice key')
  if sum(1 for k in ks if k) >= 2 and all(not (a & b) for i, a in enumerate(ks) for b in ks[i + 1:]):
    out.add('disjoint key sets')
  return out


# ------------------------------------------------------------------------------------------ real code

def run(case):
  import warnings
  from harness import lib_sched as L
  from harness import lib_sched_ext as X
  from harness.core import err_kind
  from harness.props import c02
  ns = L.setup()
  _install_probe(ns)
  sub, stages = case['sub'], case.get('stages', 1)
  sub_json = json.dumps(sub)
  obs = dict(dist=case['dist'])
  with warnings.catch_warnings():
    warnings.simplefilter('ignore')
    # ---- the in-process run of the same pipeline, in one piece
    try:
      it = define_sliced(sub_json, stages).make().iterate()
      ref_batches = sorted(canon_batch(b) for b in it)
      obs['whole'] = dict(err=None, result=c02.canon_result(_agg_dict(it.agg_result)), batches=ref_batches)
    except Exception as e:  # pylint: disable=broad-except
      obs['whole'] = dict(err=err_kind(e), result=[], batches=[], msg=str(e)[:120])
    # ---- distributed
    master = case['dist'] == 'interleaved'
    if master:
      X.install_exit_guard()
    cl = L.Cluster(case['workers'], [], master=master)
    _PROBE['log'] = log = []
    batches, info = [], {}
    hung = False
    try:
      if not master:
        rq = queue.SimpleQueue()

        def body():
          for b in ns.orchestrate.sharded_pipelines_as_iterator(
              cl.pool, define_sliced, sub_json, stages, num_shards=case['shards'], result_queue=rq):
            batches.append(b)
      else:
        pipeline = define_sliced(sub_json, stages)
        res = {'read': ns.orchestrate.RunnerResource(buffer_size=case.get('buffer', 1)),
               'first': ns.orchestrate.RunnerResource(worker_pool=cl.pool, buffer_size=case.get('buffer', 1))}

        def body():
          with ns.orchestrate.run_pipeline_interleaved(pipeline, master_server=cl.master, resources=res) as runner:
            for b in runner.result_queue:
              batches.append(b)
          info['returned'] = [list(s.result_queue.returned) for s in runner.stages]

      hung, _, exc = L.run_guarded(body, TIMEOUT)
      if hung:
        obs['merged'] = dict(hang=True, timeout=TIMEOUT)
      elif exc is not None:
        obs['merged'] = dict(err=err_kind(exc), result=[], msg=(str(exc) or repr(exc))[:200])
      else:
        if not master:
          results = L.drain_queue(rq, 2.0)
          per_stage = [len(results)]
          merged = {}
          for r in results[:1]:
            merged.update(_agg_dict(r.agg_result))
        else:
          per_stage, merged = [], {}
          for name, returned in zip(['read'] + list(_STAGE_NAMES), info.get('returned', [])):
            rs = [r for r in returned if isinstance(r, ns.transform.AggregateResult)]
            if name != 'read':
              per_stage.append(len(rs))
            for r in rs[:1]:
              merged.update(_agg_dict(r.agg_result))
        obs['merged'] = dict(err=None, result=c02.canon_result(merged), nresults=per_stage,
                             batches=sorted(canon_batch(b) for b in batches))
      obs['acquired'] = cl.acquired()
      if hung and master:
        X.forget_stuck_threads()
    finally:
      _PROBE['log'] = None
      cl.close(hung=hung)
    # coverage only: the merges that saw at least two states, in arrival order
    obs['arrivals'] = [c for c in log if len(c) >= 2][:3]
  return obs


# ------------------------------------------------------------------------------------------ oracle

def tag(case):
  if case['dist'] == 'sharded':
    return f"[sliced sharded: {case['shards']} shards on {case['workers']} workers, {case.get('stages', 1)} aggregating stage(s)]"
  return f"[sliced interleaved: {case['workers']} workers, {case.get('stages', 1)} aggregating stage(s)]"


def _as_map(result):
  from harness.core import jdump
  return {(e['metric'], jdump(e['slice'])): e['value'] for e in result}


def oracle(case, obs):
  from harness.core import deep_close
  t = tag(case)
  whole, merged = obs.get('whole', {}), obs.get('merged', {})
  if merged.get('hang'):
    return f"{t} the fault-free distributed run did not finish within {merged.get('timeout')} s (hang)"
  if whole.get('err'):
    return None          # the in-process run itself fails: not a question of distribution (C02 / C12)
  if merged.get('err'):
    return f"{t} the in-process run works but the distributed run raised {merged['err']}: {merged.get('msg', '')[:120]}"
  if obs.get('acquired'):
    return f"{t} workers still acquired afterwards: {obs['acquired']}"
  if collections.Counter(merged['batches']) != collections.Counter(whole['batches']):
    return (f"{t} output batches differ (as a multiset) from the in-process run: {len(merged['batches'])} vs "
            f"{len(whole['batches'])} batches")
  want_n = [1] * (1 if case['dist'] == 'sharded' else case.get('stages', 1))
  if merged.get('nresults') != want_n:
    return f"{t} {merged.get('nresults')} final AggregateResults (per aggregating stage), expected exactly one: {want_n}"
  w, m = _as_map(whole['result']), _as_map(merged['result'])
  dropped = sorted(set(w) - set(m))
  if dropped:
    return (f"{t} the distributed result LACKS {len(dropped)} of the {len(w)} (output key, slice key) entries of the "
            f"in-process result, e.g. {dropped[:3]} (slice keys of the states in arrival order: {obs.get('arrivals')})")
  invented = sorted(set(m) - set(w))
  if invented:
    return f"{t} the distributed result reports entries the in-process run does not: {invented[:3]}"
  for k in sorted(w):
    if not deep_close(m[k], w[k], rel=1e-9, abs_=1e-9):
      return f"{t} {k[0]} {k[1]}: distributed {m[k]}, in process {w[k]}"
  return None


# ------------------------------------------------------------------------------------------ model tie (sharded)

def model_requests(case, obs):
  """the `pipeaggshard` model (SequenceDataSource.shard cut, k states merged, strict count k), one request per stage"""
  if case['dist'] != 'sharded':
    return []
  from harness.props import c02
  reqs = []
  for j in range(case.get('stages', 1)):
    r = c02.model_requests(stage_sub(case['sub'], j))[0]
    reqs.append(dict(model='pipeaggshard', aggs=r['aggs'], slicers=r['slicers'], batches=r['batches'],
                     parts=None, k=case['shards'], strict=None))
  return reqs


def compare(case, obs, resps):
  from harness.props import c02
  if (obs.get('merged') or {}).get('hang'):
    return None
  for which in ('whole', 'merged'):
    impl = obs.get(which, {})
    model_res, err = [], None
    for r in resps:
      err = err or r[which]['err']
      model_res += r[which]['result']
    mobs = c02.model_obs(case['sub'], [dict(err=err, result=model_res)])
    if impl.get('err') or mobs['err']:
      if impl.get('err') != mobs['err']:
        return f"{tag(case)} {which}: error kinds differ: impl {impl.get('err')} ({impl.get('msg', '')[:60]}) model {mobs['err']}"
      continue
    d = c02.compare(dict(err=None, result=impl['result']), mobs)
    if d:
      return f'{tag(case)} {which}: {d}'
  return None


# ------------------------------------------------------------------------------------------ generator

def gen_sub(rng, nb, skew):
  """a C02-format sliced aggregation over `nb` batches; skew 'sorted' = rows sorted by the slice feature over the
  whole stream (contiguous shards own values), 'blocks' = every batch carries ONE value of `a` (so whichever worker
  gets a batch, workers see different values), 'mixed' = uniform"""
  world = dict(a=[0, 1, 2, 3, 4], b=[0, 1])
  batches = []
  for bi in range(nb):
    n = rng.choice([0, 1, 2, 2, 3]) if skew != 'blocks' else rng.choice([1, 2, 3])
    if skew == 'blocks':
      a = [world['a'][(bi * len(world['a'])) // max(nb, 1) % len(world['a'])]] * n
    else:
      a = [rng.choice(world['a']) for _ in range(n)]
    batches.append(dict(a=a, b=[rng.choice(world['b']) for _ in range(n)],
                        x=[rng.randrange(-3, 9) for _ in range(n)], y=[rng.randrange(0, 5) for _ in range(n)]))
  if skew == 'sorted':
    flat = sorted((r for b in batches for r in zip(b['a'], b['b'], b['x'], b['y'])), key=lambda r: r[0])
    pos = 0
    for b in batches:
      n = len(b['a'])
      rows = flat[pos:pos + n]
      pos += n
      b['a'], b['b'], b['x'], b['y'] = ([r[j] for r in rows] for j in range(4))
  # aggregates that can merge
  aggs = [dict(kind=rng.choice(['meanvar', 'mean', 'counter', 'dot']), out=['o'], **{'in': [rng.choice(['x', 'y'])]})]
  if aggs[0]['kind'] == 'dot':
    aggs[0].update(out=['o', 'o2'], **{'in': ['x', 'y']})
  if rng.random() < 0.4:
    aggs.append(dict(kind=rng.choice(['mean', 'counter', 'meanvar']), out=['p'], **{'in': ['y']}, noslice=rng.random() < 0.3))
  slicers = []
  r = rng.random()
  if r < 0.4:
    slicers.append(dict(name=['a'], keys=['a'], kind='default'))
  elif r < 0.55:
    slicers.append(dict(name=['a', 'b'], keys=['a', 'b'], kind='default'))
  elif r < 0.7:
    slicers.append(dict(name=['a'], keys=['a'], kind='within', within=[sorted(rng.sample(world['a'][:4], 2))]))
  elif r < 0.85:
    slicers.append(dict(name=['f'], keys=['a'], kind='fn', fn=rng.choice(['parity', 'self_and_neg', 'small', 'twice_small'])))
  else:
    slicers.append(dict(name=['a'], keys=['a'], kind='default'))
    slicers.append(dict(name=['b'], keys=['b'], kind='default'))
  return dict(aggs=aggs, slicers=slicers, batches=batches, np=['a', 'b', 'x', 'y'])


def gen_cases(rng, quick):
  # sharded: 1 worker = the states arrive in shard order (directed: a value absent from shard 0 / the last shard)
  n_sh = 14 if quick else 300
  for i in range(n_sh):
    nb = rng.choice([2, 3, 4, 5, 6])
    skew = ('sorted', 'sorted', 'blocks', 'mixed')[i % 4]
    k = rng.choice([2, 3, 3, 4, 5]) if i % 7 else nb + rng.choice([1, 2])        # more shards than batches: empty shards
    yield dict(kind=KIND, dist='sharded', sub=gen_sub(rng, nb, skew), stages=(1, 1, 2, 3)[i % 4], shards=k,
               workers=(1, 2, 3)[i % 3])
  yield dict(kind=KIND, dist='sharded', sub=gen_sub(rng, 4, 'sorted'), stages=1, shards=1, workers=2)
  n_il = 10 if quick else 300
  for i in range(n_il):
    nb = rng.choice([4, 6, 8, 10])
    yield dict(kind=KIND, dist='interleaved', sub=gen_sub(rng, nb, ('blocks', 'sorted')[i % 2]), stages=(1, 2, 1, 3)[i % 4],
               workers=(2, 3, 2, 3, 1)[i % 5], buffer=(1, 0, 2)[i % 3])


REQUIRED_ARMS = ['sliced:sharded:key absent from the FIRST arriving state',
                 'sliced:sharded:key absent from a MIDDLE arriving state',
                 'sliced:sharded:key absent from the LAST arriving state',
                 'sliced:sharded:state without any slice key (empty shard / idle worker)',
                 'sliced:interleaved:key absent from the FIRST arriving state',
                 'sliced:sharded:2+ aggregating stages', 'sliced:interleaved:2+ aggregating stages']


def arms(case, obs):
  out = set()
  m = obs.get('merged') or {}
  if m.get('hang') or m.get('err') or (obs.get('whole') or {}).get('err'):
    return out
  d = case['dist']
  for call in obs.get('arrivals') or ():
    for c in arrival_classes(call):
      out.add(f'sliced:{d}:{c}')
  if case.get('stages', 1) >= 2 and obs.get('arrivals'):
    out.add(f'sliced:{d}:2+ aggregating stages')
  return out
