"""Per-case environment for checks that run the repo's courier code over harness.fakecourier.

    env = CourierEnv(mode='manual', start=1000.0, spin_tick=1.0)   # installs the fake, patches `time`
    srv = env.server('a0')            # a started courier_server.CourierServer reachable under its unique name
    ...
    env.close()                       # stops the servers, restores `time` and the signal handlers

Addresses are made unique per environment (the WorkerRegistry, the CourierClient/Worker singletons and
the CourierServer singletons are process-wide), see `env.addr(name)`.
"""
from __future__ import annotations

import itertools
import logging
import os
import signal

from harness import fakecourier

_COUNTER = itertools.count()
_QUIET = False


def _quiet():
  global _QUIET
  if _QUIET:
    return
  _QUIET = True
  try:
    from absl import logging as absl_logging
    absl_logging.set_verbosity(absl_logging.FATAL)
    absl_logging.set_stderrthreshold('fatal')
  except Exception:  # pragma: no cover
    pass
  logging.getLogger('absl').setLevel(logging.CRITICAL)


class CourierEnv:

  def __init__(self, *, mode: str, start: float = 1_000_000.0, spin_tick: float = 0.0):
    fakecourier.install()
    _quiet()
    self.clock = fakecourier.VirtualClock(start=start, spin_tick=spin_tick, strict_other_threads=True)
    fakecourier.reset(mode=mode, time_fn=self.clock.time)
    # imported only now: they do `import courier` at the top
    from ml_metrics._src.chainables import courier_server, courier_worker, orchestrate  # noqa: F401
    from ml_metrics._src.utils import courier_utils
    self.courier_server, self.courier_worker = courier_server, courier_worker
    self.courier_utils, self.orchestrate = courier_utils, orchestrate
    fakecourier.patch_time(self.clock)
    self.prefix = f'p{os.getpid()}n{next(_COUNTER)}_'
    self.servers = {}
    self._signals = {s: signal.getsignal(s) for s in (signal.SIGINT, signal.SIGTERM, signal.SIGABRT)}

  def addr(self, name) -> str:
    return f'{self.prefix}{name}'

  def server(self, name):
    """A started CourierServer at `addr(name)` (its constructor installs signal handlers: restored)."""
    a = self.addr(name)
    srv = self.courier_server.CourierServer(a)
    self._restore_signals()
    srv.start()
    self.servers[name] = srv
    return srv

  def restart(self, name):
    srv = self.servers[name]
    if not srv.has_started:
      srv.start()
    fakecourier.revive(self.addr(name))

  def _restore_signals(self):
    for s, h in self._signals.items():
      try:
        signal.signal(s, h)
      except (ValueError, TypeError):
        pass

  def close(self):
    fakecourier.revive  # noqa: B018  (keep the import alive for linters)
    for srv in self.servers.values():
      try:
        if srv.has_started:
          srv.stop().join(timeout=5)
      except Exception:  # pylint: disable=broad-except
        pass
    fakecourier.fail_hung()
    fakecourier.patch_time(None)
    self._restore_signals()
