"""Stateful classes for the C14 / C17 'hist' cases (mirrored by lean/MlModel/Model/RemoteState.lean).

Three small mutable classes, written once here and once in Lean (`callMethod`, `getAttr`, `getItem`):
  Counter   attribute `total` re-bound by `add` / `bump` / `reset`, property `double`, generator `ticks`
  Account   `owner` / `balance` / `history` re-bound by `deposit` / `rename`, property `last`, a nested mutable
            `Store` under `limits` (mutated in place by `set_limit`, replaced by `new_limits`)
  Store     dict-like: `__getitem__` / `__setitem__`, `put` / `pop` / `get`, property `size`, counter `writes`

Must stay importable by name (cloudpickle pickles classes of an importable module by reference, as it does for
any library code a user traces and sends to a server).
"""


def _isint(x):
  return isinstance(x, int) and not isinstance(x, bool)


class Counter:

  def __init__(self, start=0, step=1):
    if not (_isint(start) and _isint(step)):
      raise TypeError('Counter: ints only')
    self.total = start
    self.step = step
    self.calls = 0

  def add(self, n):
    if not _isint(n):
      raise TypeError('add: int only')
    self.total = self.total + n
    self.calls = self.calls + 1
    return self.total

  def bump(self):
    self.total = self.total + self.step

  def reset(self):
    self.total = 0

  @property
  def double(self):
    return 2 * self.total

  def ticks(self, n):
    """Generator that reads and writes the LIVE counter on every step."""
    if not _isint(n):
      raise TypeError('ticks: int only')
    return _ticks(self, n)


def _ticks(counter, n):
  for _ in range(n):
    counter.total = counter.total + counter.step
    yield counter.total


class Store:

  def __init__(self):
    self._d = {}
    self.writes = 0

  def __getitem__(self, key):
    return self._d[key]

  def __setitem__(self, key, value):
    self._d[key] = value
    self.writes = self.writes + 1

  def put(self, key, value):
    self[key] = value
    return len(self._d)

  def pop(self, key):
    return self._d.pop(key)

  def get(self, key, default):
    return self._d.get(key, default)

  @property
  def size(self):
    return len(self._d)


class Account:

  def __init__(self, owner):
    self.owner = owner
    self.balance = 0
    self.history = ()
    self.limits = Store()
    self.limits._d['daily'] = 100

  @property
  def last(self):
    return self.history[-1] if self.history else None

  def deposit(self, amount):
    if not _isint(amount):
      raise TypeError('deposit: int only')
    if amount <= 0:
      raise ValueError(f'illegal amount {amount}')
    self.balance = self.balance + amount
    self.history = self.history + (amount,)
    return self.balance

  def rename(self, owner):
    self.owner = owner

  def set_limit(self, key, value):
    self.limits[key] = value

  def new_limits(self):
    self.limits = Store()

  def get_limits(self):
    return self.limits


CLASSES = {'Counter': Counter, 'Account': Account, 'Store': Store}


def snapshot(x, depth=2):
  """Canonical, JSON-able picture of a value: plain values in the C17 encoding, an instance of one of the classes
  as {'obj': class name, 'fields': {...}, 'items': [[k, v], ...]} (nested instances one level deep)."""
  if x is None:
    return None
  if _isint(x):
    return {'i': x}
  if isinstance(x, str):
    return {'s': x}
  if isinstance(x, tuple) and all(_isint(v) for v in x):
    return {'ints': list(x)}
  for name, cls in CLASSES.items():
    if type(x) is cls:
      if depth <= 0:
        return {'obj': name}
      fields = {k: snapshot(v, depth - 1) for k, v in vars(x).items() if not k.startswith('_')}
      items = [[snapshot(k), snapshot(v)] for k, v in x._d.items()] if cls is Store else []
      return {'obj': name, 'fields': fields, 'items': items}
  return {'other': type(x).__name__}


def pv(j):
  """Decode a plain value of a case: None | {'i': n} | {'s': str} | {'ints': [...]}."""
  if j is None:
    return None
  if 'i' in j:
    return j['i']
  if 's' in j:
    return j['s']
  if 'ints' in j:
    return tuple(j['ints'])
  raise ValueError(j)
