"""C03 helpers: the operator library (twin of lean/Driver/Strategy.lean), the code that runs ONE
execution strategy of a pipeline on the real implementation, and a child-process runner with a hard
timeout (a hung strategy is killed and reported, never suffered).

A *case* is {kind, data, items, src}; a *strategy* is a dict

  {"s": "seq",         "cuts": [...]}                    num_threads = 0
  {"s": "threads",     "cuts": [...], "n": n}            num_threads = n on every transform
  {"s": "shards",      "cuts": [...], "k": k, "via": "make" | "source",
                       "states_as": "list" | "gen" | "iter", "strict": bool, "runner": "default" | "aggregate"}
  {"s": "interleaved", "cuts": [...]}                    orchestrate.run_pipeline_interleaved, no workers
  {"s": "sched",       "cuts": [...], "n": n, "chooser": "random"|"pct", "seed": k}
                       num_threads = n, the real code driven through a seeded schedule by the deterministic
                       scheduler (harness/sched/shim.py): reaches interleavings the OS rarely produces and
                       reports a deadlock instead of hanging

`cuts[i]` says how item i+1 is attached to what was built from items 0..i:
  "b" same transform (next builder call), "f" a new transform with the SAME name joined by .chain()
  (= _chain_and_fuse), "c" a new transform with a NEW name joined by .chain() (= a new stage).

Run as a module (`python -m harness.lib_c03`) it is the child: one JSON request per line on stdin
({"case":..., "strategy":...}), one JSON observation per line on stdout.
"""
from __future__ import annotations

import json
import os
import select
import subprocess
import sys
import time

VERIF = os.path.dirname(os.path.dirname(os.path.abspath(__file__)))

# ------------------------------------------------------------------ operator library (names = Driver/Strategy.lean)


def _a(x):
  import numpy as np
  return np.asarray(x)


APPLY2 = {   # (x, y) -> (x', y')   vectorised: works on scalars, lists and arrays
    'dbl': lambda x, y: (_a(x) * 2, _a(y)),
    'inc': lambda x, y: (_a(x) + 1, _a(y)),
    'sq': lambda x, y: (_a(x) * _a(x), _a(y)),
    'neg': lambda x, y: (-_a(x), _a(y)),
    'swap': lambda x, y: (_a(y), _a(x)),
    'addxy': lambda x, y: (_a(x) + _a(y), _a(y)),
    'yinc': lambda x, y: (_a(x), _a(y) + 1),
}
APPLY1 = {   # x -> x'   (scalar kind: one column)
    'dbl': lambda x: _a(x) * 2,
    'inc': lambda x: _a(x) + 1,
    'sq': lambda x: _a(x) * _a(x),
    'neg': lambda x: -_a(x),
}
ASSIGN = {   # (x, y) -> new column
    'sumxy': lambda x, y: _a(x) + _a(y),
    'x2': lambda x, y: _a(x) * 2,
    'one': lambda x, y: _a(x) * 0 + 1,
}
FILTER = {   # predicate on the element's x column (a scalar counts as a one-row column)
    'sum_even': lambda x: int(_a(x).reshape(-1).sum()) % 2 == 0,
    'first_pos': lambda x: int(_a(x).reshape(-1)[0]) > 0 if _a(x).size else False,
    'len_ge2': lambda x: _a(x).reshape(-1).size >= 2,
    'small': lambda x: bool((_a(x).reshape(-1) < 6).all()),
    'always': lambda x: True,
    'never': lambda x: False,
}


class Collect:
  """An order-carrying MergeableMetric: collects every value it is fed."""

  def __init__(self):
    self.items = []

  def add(self, x):
    self.items.extend(int(v) for v in _a(x).reshape(-1))

  def merge(self, other):
    self.items.extend(other.items)

  def result(self):
    return list(self.items)


# the deterministic scheduler that drives the strategy being run (harness/sched/shim.py), if any
_SCHED = None


class Rmw(Collect):
  """Collect with a NON-ATOMIC read-modify-write `add` (like any real metric's update, made wide enough to
  observe): between the read and the write it is pre-empted — a scheduler yield point under the deterministic
  scheduler, a 1 ms sleep on a pool thread.  Correct code never runs two updates of one accumulator at once,
  so the result is that of Collect; two overlapping updates lose one."""

  def add(self, x):
    import threading
    import time
    old = self.items
    new = [int(v) for v in _a(x).reshape(-1)]
    s = _SCHED
    if s is not None and s.current() is not None:
      s.step('agg-rmw')
    elif threading.current_thread() is not threading.main_thread():
      time.sleep(0.001)
    self.items = old + new


def split_transforms(items, cuts):
  """[(attach, [item,..]), ..]: the first transform is 'chain'."""
  ts = [['chain', [items[0]]]] if items else []
  for it, c in zip(items[1:], cuts):
    if c == 'b':
      ts[-1][1].append(it)
    else:
      ts.append(['fuse' if c == 'f' else 'chain', [it]])
  return ts


def stage_index_of_items(items, cuts):
  """stage number (after fusing) of every item"""
  out, s = [0] * len(items), 0
  for i, c in enumerate(cuts):
    if c == 'c':
      s += 1
    out[i + 1] = s
  return out


# ------------------------------------------------------------------ building and running on the real code

def _imports():
  from absl import logging as alog
  alog.set_verbosity(alog.FATAL)
  from harness import fakecourier
  fakecourier.install()
  import numpy as np
  from ml_metrics._src.chainables import transform, io, orchestrate
  from ml_metrics._src.aggregates import rolling_stats, base
  return np, transform, io, orchestrate, rolling_stats, base


def make_source(case, io, np, shard=None):
  kind = case['kind']
  if kind == 'dict':
    elems = [{'x': np.array([r[0] for r in b], dtype=np.int64), 'y': np.array([r[1] for r in b], dtype=np.int64)}
             for b in case['data']]
  else:
    elems = [int(b[0][0]) for b in case['data']]
  src = case['src']
  if src == 'seq':
    ds = io.SequenceDataSource(elems)
  elif src == 'rr':
    ds = io.ShardedIterable(elems)
  else:
    ds = elems
  if shard is not None:
    ds = ds.shard(*shard)
  return ds


def add_item(t, it, idx, case, mods):
  np, transform, io, orchestrate, rolling_stats, base = mods
  dict_kind = case['kind'] == 'dict'
  if 'agg' in it:
    fn = (rolling_stats.MeanAndVariance().as_agg_fn() if it['agg'] == 'moments'
          else base.as_agg_fn(Rmw if it['agg'] == 'rmw' else Collect))
    kw = dict(fn=fn, output_keys=f'A{idx}')
    if dict_kind:
      kw['input_keys'] = 'x'
    return t.add_aggregate(**kw) if t.agg_fns else t.aggregate(**kw)
  op = it['op']
  if op == 'apply':
    if dict_kind:
      return t.apply(fn=APPLY2[it['fn']], input_keys=('x', 'y'), output_keys=('x', 'y'))
    return t.apply(fn=APPLY1[it['fn']])
  if op == 'assign':
    return t.assign(f'z{idx}', fn=ASSIGN[it['fn']], input_keys=('x', 'y'))
  if op == 'filter':
    return t.filter(FILTER[it['fn']], input_keys='x') if dict_kind else t.filter(FILTER[it['fn']])
  if op == 'rebatch':
    if dict_kind:
      return t.select(('x', 'y'), batch_size=it['n'])
    return t.batch(it['n'])
  raise ValueError(op)


def build(case, cuts, nt, mods, shard=None):
  np, transform, io, *_ = mods
  P = transform.TreeTransform
  ts = split_transforms(case['items'], cuts)
  built, name_i, idx = [], 0, 0
  for j, (attach, its) in enumerate(ts):
    if j > 0 and attach == 'chain':
      name_i += 1
    t = P.new(name=f's{name_i}', num_threads=nt)
    if j == 0:
      t = t.data_source(make_source(case, io, np, shard))
    for it in its:
      t = add_item(t, it, idx, case, mods)
      idx += 1
    built.append(t)
  if not built:   # no items at all: the bare data source
    return P.new(name='s0', num_threads=nt).data_source(make_source(case, io, np, shard))
  p = built[0]
  for t in built[1:]:
    p = p.chain(t)
  return p


def canon_elem(e, case, np):
  """a stream element as a list of rows"""
  if case['kind'] == 'dict':
    keys = sorted(e.keys())
    cols = [[int(v) for v in np.asarray(e[k]).reshape(-1)] for k in keys]
    return [list(r) for r in zip(*cols)]
  a = np.asarray(e)
  return [[int(v)] for v in a.reshape(-1)]


def canon_agg(v, np):
  if isinstance(v, list):
    return [int(x) for x in v]
  cnt = int(np.asarray(v.count).reshape(-1)[0]) if np.asarray(v.count).size else 0
  if cnt == 0:
    return {'count': 0}
  return {'count': cnt, 'mean': float(np.asarray(v.mean).reshape(-1)[0]), 'var': float(np.asarray(v.var).reshape(-1)[0])}


def canon_aggs(agg_result, np):
  if not agg_result:
    return {}
  return {str(k): canon_agg(v, np) for k, v in dict(agg_result).items()}


def drain(it):
  out = []
  while True:
    try:
      out.append(next(it))
    except StopIteration as e:
      return out, e.value


def run_strategy(case, st, mods=None):
  from harness.core import err_kind
  mods = mods or _imports()
  if case.get('fam') == 'sizes':          # round 7 families: harness/lib_c03x.py
    from harness import lib_c03x
    return lib_c03x.run_sizes(case, st, mods)
  if case.get('fam') == 'sliced':
    from harness import lib_c03x
    return lib_c03x.run_sliced(case, st, mods)
  if case.get('fam') == 'obs':           # round 10 family: harness/lib_c03y.py (st = the list of strategies)
    from harness import lib_c03y
    return lib_c03y.run_obs(case, st, mods)
  np, transform, io, orchestrate, rolling_stats, base = mods
  cuts, s = st['cuts'], st['s']
  try:
    if s in ('seq', 'threads', 'sched'):
      p = build(case, cuts, st.get('n', 0), mods)
    elif s == 'shards':
      p = build(case, cuts, 0, mods)
    else:
      p = build(case, cuts, 0, mods)
  except Exception as e:  # pylint: disable=broad-except
    return dict(err=err_kind(e), phase='build', msg=str(e)[:120])
  try:
    if s in ('seq', 'threads'):
      it = p.make().iterate()
      outs, ret = drain(it)
      aggs = canon_aggs(ret.agg_result if ret is not None else None, np)
      live = canon_aggs(it.agg_result, np)
      return dict(err=None, out=[canon_elem(e, case, np) for e in outs], aggs=aggs, live_same=(aggs == live))
    if s == 'shards':
      k, outs, states = st['k'], [], []
      for i in range(k):
        if st['via'] == 'make':
          it = p.make(shard=io.ShardConfig(i, k)).iterate()
        else:
          it = build(case, cuts, 0, mods, shard=(i, k)).make().iterate()
        o, ret = drain(it)
        outs += o
        if ret is not None and ret.agg_state is not None:
          states.append(ret.agg_state)
      # the merging runner as the orchestration builds it (mode=AGGREGATE) or the plain one; the states handed
      # over as a list, a one-shot generator (what sharded_pipelines_as_iterator passes) or an iterator
      runner = p.make(mode=transform.RunnerMode.AGGREGATE) if st.get('runner') == 'aggregate' and p.make().has_agg else p.make()
      aggs = {}
      if runner.has_agg:
        how = st.get('states_as', 'list')
        arg = states if how == 'list' else (iter(states) if how == 'iter' else (x for x in states))
        kw = dict(strict_states_cnt=len(states)) if st.get('strict') else {}
        merged = runner.merge_states(arg, **kw)
        aggs = canon_aggs(runner.get_result(merged), np)
      return dict(err=None, out=[canon_elem(e, case, np) for e in outs], aggs=aggs, nstates=len(states))
    if s == 'sched':
      return run_scheduled(case, st, p, mods)
    if s == 'interleaved':
      with orchestrate.run_pipeline_interleaved(p) as runner:
        outs = list(runner.result_queue)
      aggs, nret = {}, []
      for stage in runner.stages:
        nret.append(len(stage.result_queue.returned))
        for r in stage.result_queue.returned:
          if r is not None:
            aggs.update(canon_aggs(r.agg_result, np))
      return dict(err=None, out=[canon_elem(e, case, np) for e in outs], aggs=aggs, nret=nret)
    raise ValueError(s)
  except Exception as e:  # pylint: disable=broad-except
    return dict(err=err_kind(e), phase='run', msg=(str(e) or repr(e.__cause__))[:160])


def run_scheduled(case, st, p, mods):
  """num_threads = n under the deterministic scheduler: the consumer and the pool workers are managed threads."""
  import random
  from harness.core import err_kind
  from harness.sched import shim
  from ml_metrics._src.utils import iter_utils
  np = mods[0]
  rng = random.Random(st['seed'])
  chooser = (shim.priority_chooser(rng, change_points=3, horizon=400) if st['chooser'] == 'pct'
             else shim.random_chooser(rng, timeout_weight=0.0))
  sched = shim.Scheduler(chooser, max_steps=60000)
  box = {}

  def consumer():
    try:
      it = p.make().iterate()
      outs, ret = drain(it)
      box['obs'] = dict(err=None, out=[canon_elem(e, case, np) for e in outs],
                        aggs=canon_aggs(ret.agg_result if ret is not None else None, np))
    except Exception as e:  # pylint: disable=broad-except
      box['obs'] = dict(err=err_kind(e), phase='run', msg=(str(e) or repr(e.__cause__))[:160])

  global _SCHED
  _SCHED = sched
  try:
    with shim.patched(sched, [iter_utils]):
      sched.spawn('consumer', consumer)
      outcome = sched.run()
  finally:
    _SCHED = None
  if outcome != 'done':
    return dict(err='Deadlock' if outcome == 'deadlock' else 'Scheduler:' + str(outcome), phase='run',
                msg=f'blocked={sched.blocked} steps={sched.steps}')
  obs = box.get('obs') or dict(err='HarnessError', phase='run', msg='consumer produced nothing')
  obs['steps'] = sched.steps
  return obs


# ------------------------------------------------------------------ child process with a hard timeout

class Child:
  """A worker process that runs strategies; killed and restarted when one does not answer in time."""

  def __init__(self):
    self.p = None

  def _start(self):
    env = dict(os.environ)
    env['PYTHONPATH'] = VERIF + os.pathsep + env.get('PYTHONPATH', '')
    self.p = subprocess.Popen([sys.executable, '-m', 'harness.lib_c03'], cwd=VERIF, env=env,
                              stdin=subprocess.PIPE, stdout=subprocess.PIPE, stderr=subprocess.DEVNULL,
                              text=True, bufsize=1)

  def kill(self):
    if self.p is not None:
      try:
        self.p.kill()
        self.p.wait(timeout=5)
      except Exception:  # pylint: disable=broad-except
        pass
      self.p = None

  def run(self, case, strategy, timeout):
    if self.p is None or self.p.poll() is not None:
      self._start()
    try:
      self.p.stdin.write(json.dumps(dict(case=case, strategy=strategy)) + '\n')
      self.p.stdin.flush()
    except BrokenPipeError:
      self.kill()
      return dict(err='ChildDied', phase='run')
    deadline = time.time() + timeout
    fd = self.p.stdout
    while True:
      left = deadline - time.time()
      if left <= 0:
        self.kill()
        return dict(hang=True, err=None, timeout=timeout)
      r, _, _ = select.select([fd], [], [], min(left, 1.0))
      if r:
        line = fd.readline()
        if not line:
          self.kill()
          return dict(err='ChildDied', phase='run')
        if line.startswith('{'):
          return json.loads(line)
      elif self.p.poll() is not None:
        self.kill()
        return dict(err='ChildDied', phase='run')


_CHILD = None


def child():
  global _CHILD
  if _CHILD is None:
    _CHILD = Child()
    import atexit
    atexit.register(_CHILD.kill)
  return _CHILD


def _main():
  repo = os.environ.get('VERIF_REPO', '/repo')
  if repo not in sys.path:
    sys.path.insert(0, repo)
  mods = _imports()
  real_stdout = sys.stdout
  sys.stdout = sys.stderr          # nothing but protocol lines on the real stdout
  for line in sys.stdin:
    line = line.strip()
    if not line:
      continue
    req = json.loads(line)
    try:
      obs = run_strategy(req['case'], req['strategy'], mods)
    except BaseException as e:  # pylint: disable=broad-except
      obs = dict(err='HarnessError', phase='run', msg=repr(e)[:200])
    real_stdout.write(json.dumps(obs) + '\n')
    real_stdout.flush()


if __name__ == '__main__':
  _main()
