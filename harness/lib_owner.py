"""Machinery for the schedule-replay family of C20: the REAL `courier_worker.Worker` / `WorkerPool`
(`acquire_by`, `release`, `is_available`, `is_locked`, `_acquire_all`, `release_all`, `next_idle_worker`,
`idle_workers`, `has_capacity`, `is_alive`, `call`) and the REAL `courier_utils.WorkerRegistry`
(`register` / `refresh` / `unregister` / `get`, reached directly, through `CourierClient._is_heartbeat_fresh`
and through the real `CourierServer._heartbeat` handler) run under the deterministic scheduler
(harness/sched/shim.py) over the in-process fake courier in *manual* mode, and are compared step by step
with the Lean LTS `Model/OwnerEnv.lean` (driver model "owner", mode "xsched").

Yield points (= pre-emption points = atomic steps of the LTS):
  * every operation of a worker's `_states_lock` (RLock), `_lock` (Lock: non-blocking acquire, release AND the
    read `locked()`, which the stock shim does not yield on), and of `WorkerRegistry._lock`;
  * every read and every write of the shared plain attribute `Worker._worker_pool` (a data descriptor is put on
    the class for the duration of a run — no repo edit);
  * the harness' own `start` marker before every operation of a thread's script (the model's "begin op" step).
The fake transport, the futures' `done()` / `exception()` and the virtual clock are not yield points: what the
code reads from them between two yield points is fused into the preceding step, in the model alike.

A case:
  {fam:'sched', nworkers, pw:[[w..] per pool], thr, now, reg0:['alive'|'dead'|'absent' per worker],
   threads:[{kind:'pool', ops:[op..]} | {kind:'env', ops:[eop..]}],
   sched:{kind:'random'|'pct', seed, ..} | {kind:'replay', choices:[tid..]}}
  op  = {op:'acquire_all',p,ws,n} | {op:'release_all',p,ws} | {op:'next_idle',p,ws,acq} | {op:'release',p,w}
      | {op:'idle',p} | {op:'call',p,w}
  eop = {op:'die',w} | {op:'revive',w} | {op:'send',w,alive} | {op:'deliver',k,fail} | {op:'tick',d} | {op:'shutdown',w}
"""
import logging
import random
import types as _types

from harness.sched import shim

_CUR = {}


class YLock(shim.Lock):
  """shim.Lock whose `locked()` is a yield point too (one shared read = one step of the LTS)."""

  def locked(self):
    return self._s.op(f'locked {self.name}', lambda: True, lambda alt: self.owner is not None)

  def release(self):
    """CPython's `threading.Lock` may be released by ANY thread (two threads of one pool do exactly that with
    `Worker._lock`); only releasing an unlocked lock is an error.  (The stock shim checks the owner.)"""
    def eff(alt):
      if self.owner is None:
        raise RuntimeError('release unlocked lock')
      self.owner, self.count = None, 0
    return self._s.op(f'release {self.name}', lambda: True, eff)


def threading_facade(sched):
  m = shim.threading_module(sched)
  m.Lock = lambda: YLock(sched, 'lock?')
  m.RLock = lambda: shim.RLock(sched, 'rlock?')
  return m


def _wp_get(self):
  s = _CUR.get('sched')
  if s is None:
    return self.__dict__.get('_wp')
  return s.op(f"rdpool {self.__dict__.get('_vname', '?')}", lambda: True, lambda alt: self.__dict__.get('_wp'))


def _wp_set(self, v):
  s = _CUR.get('sched')
  if s is None:
    self.__dict__['_wp'] = v
    return

  def eff(alt):
    self.__dict__['_wp'] = v
  s.op(f"wrpool {self.__dict__.get('_vname', '?')}", lambda: True, eff)


POOL_OPS = ('acquire_all', 'release_all', 'next_idle', 'release', 'idle', 'call')
COMPOSITE_OPS = ('run', 'call_and_wait')


# ------------------------------------------------------------------ round 6: composite operations step by step (fam 'schedc')
# `WorkerPool.run` / `call_and_wait` under the scheduler over the MANUAL transport.  Their own yield points:
#   'clock'  every `time.time()` of courier_worker.py (the clock is shared with the environment's `tick`),
#   'sleep'  every `time.sleep(..)` of courier_worker.py and courier_utils.py (a pure yield: the virtual clock moves only by `tick`),
#   'fwait'  `futures.wait([state])` in CourierClient.submit (blocked until the call has been answered),
#   'wdone'  each `task.done()` poll of the busy loop of `courier_worker.wait` (blocked until that call is done: the
#            loop reads nothing else and has no timeout, so blocking is its stutter-free equivalent).
# All of it is installed from here for the duration of one run (no edit of harness/sched/shim.py or harness/fakecourier).

class YClock:
  """Stand-in for the `time` module of one repo module."""

  def __init__(self, base, yield_time):
    self._base, self._yield_time = base, yield_time

  def time(self):
    s = _CUR.get('sched')
    if self._yield_time and s is not None and s.current() is not None:
      return s.op('clock', lambda: True, lambda alt: self._base.time())
    return self._base.time()

  def sleep(self, dt=0.0):
    s = _CUR.get('sched')
    if s is not None and s.current() is not None:
      s.op('sleep', lambda: True, lambda alt: None)

  def monotonic(self):
    return self._base.time()

  def __getattr__(self, name):
    return getattr(self._base, name)


def futures_facade():
  import concurrent.futures as cf
  m = _types.SimpleNamespace(**{k: getattr(cf, k) for k in dir(cf) if not k.startswith('__')})

  def wait(fs, timeout=None, return_when=cf.ALL_COMPLETED):
    fs = list(fs)
    s = _CUR.get('sched')
    if s is not None and s.current() is not None:
      s.op('fwait', lambda: all(cf.Future.done(f) for f in fs), lambda alt: None)
    return cf.wait(fs, timeout=timeout, return_when=return_when)
  m.wait = wait
  return m


def make_yfuture(wait_code):
  import concurrent.futures as cf
  import sys as _sys

  class YFuture(cf.Future):
    def done(self):
      s = _CUR.get('sched')
      if s is not None and s.current() is not None and _sys._getframe(1).f_code is wait_code:  # pylint: disable=protected-access
        return s.op('wdone', lambda: cf.Future.done(self), lambda alt: True)
      return cf.Future.done(self)
  return YFuture


COMPOSITE_LIKE = COMPOSITE_OPS + ('as_completed',)     # operations that may acquire and release any worker of their pool


def install_as_completed_probes(courier_worker, courier_utils, orchestrate, pools, workers, alog, kinds, released_busy=None):
  """Family 'scheda' (round 6; since round 11 the log only supplies the ENVIRONMENT'S CHOICES to the Lean program of as_completed, see
  model_threads): orchestrate.as_completed under the scheduler with its pool-level calls logged.
  Every pool-level call made by the body of as_completed itself (`pool.workers`, `next_idle_worker`, `release_all`,
  `acquired_workers`, `task.is_alive`, `worker.submit`) is logged with its arguments (set iteration orders, shuffles and
  samples included) and preceded by a marker yield 'pstart' — the 'start' step of a primitive operation of the LTS; the
  callee runs unchanged.  Only calls whose caller frame is as_completed are touched.  Returns the undo function."""
  import sys as _sys
  code = orchestrate.as_completed.__code__
  pidx = {id(p): i for i, p in enumerate(pools)}
  widx = {id(w): i for i, w in enumerate(workers)}
  WP, CC, Task = courier_worker.WorkerPool, courier_utils.CourierClient, courier_utils.Task
  saved = dict(workers=WP.__dict__['workers'], acquired=WP.__dict__['acquired_workers'], next_idle=WP.next_idle_worker,
               release_all=WP.release_all, is_alive=Task.__dict__['is_alive'], submit=CC.submit, done=Task.done)
  cur_pool = {}

  def probe(entry):
    s = _CUR.get('sched')
    t = s.current() if s is not None else None
    if t is None:
      return
    first = not alog.get(t.tid)
    alog.setdefault(t.tid, []).append(entry)
    if not first:          # (the first operation of the body begins with the thread's own 'start' step)
      s.step('pstart')

  def from_ac():
    return _CUR.get('sched') is not None and _sys._getframe(2).f_code is code  # pylint: disable=protected-access

  def g_workers(self):
    if from_ac():
      t = _CUR['sched'].current()
      if t is not None:
        cur_pool[t.tid] = pidx[id(self)]
      probe(dict(op='alive_workers', p=pidx[id(self)]))
    return saved['workers'].fget(self)

  def g_acquired(self):
    if from_ac():
      probe(dict(op='acquired_workers', p=pidx[id(self)]))
    return saved['acquired'].fget(self)

  def m_next_idle(self, workers=None, *, maybe_acquire=False):
    if from_ac():
      workers = list(self._workers if workers is None else workers)   # pylint: disable=protected-access
      probe(dict(op='next_idle', p=pidx[id(self)], ws=[widx[id(w)] for w in workers], acq=bool(maybe_acquire)))
    return saved['next_idle'](self, workers, maybe_acquire=maybe_acquire)

  submitted = {}      # tid -> [(worker, task)] submitted by the as_completed of that thread

  def owned(w, pool):  # harness-side read of the shim objects: no yield
    return w._lock.owner is not None and w.__dict__.get('_wp') is pool  # pylint: disable=protected-access

  def m_release_all(self, workers=()):
    if from_ac():
      if isinstance(workers, tuple) and not workers:       # the `finally: worker_pool.release_all()`
        probe(dict(op='finalize', p=pidx[id(self)]))
      else:
        workers = list(workers)                            # (a set: the callee iterates it in this order)
        probe(dict(op='release_all', p=pidx[id(self)], ws=[widx[id(w)] for w in workers]))
        # oracle probe (round 11): which workers running a not yet finished task of THIS as_completed does the mid-run release give away?
        import concurrent.futures as cf
        t = _CUR['sched'].current()
        busy = [w for w, task in submitted.get(t.tid if t else -1, []) if task.state is not None and not cf.Future.done(task.state)]
        before = [w for w in busy if owned(w, self)]
        r = saved['release_all'](self, workers)
        lost = sorted({widx[id(w)] for w in before if not owned(w, self)})
        if lost and released_busy is not None:
          released_busy.append(dict(p=pidx[id(self)], workers=lost, arg=[widx[id(w)] for w in workers]))
        return r
    return saved['release_all'](self, workers)

  def g_is_alive(self):
    if from_ac():
      t = _CUR['sched'].current()
      probe(dict(op='is_alive', p=cur_pool.get(t.tid if t else -1, 0), w=widx[id(self.worker)]))
    return saved['is_alive'].fget(self)

  def m_submit(self, task):
    if from_ac():
      t = _CUR['sched'].current()
      lazy = task.args[0] if getattr(task, 'args', None) else None
      probe(dict(op='submit', p=cur_pool.get(t.tid if t else -1, 0), w=widx[id(self)], task=kinds.get(id(lazy), 'ok')))
      r = saved['submit'](self, task)
      submitted.setdefault(t.tid if t else -1, []).append((self, r))
      return r
    return saved['submit'](self, task)

  def m_done(self):
    # round 11: `task.done()` polled by the body of as_completed reads a future shared with the transport: a yield point of its
    # own ('tdone'; the read is the effect of the step), so that the Lean program of as_completed reads the same value
    s = _CUR.get('sched')
    if s is not None and s.current() is not None and _sys._getframe(1).f_code is code:  # pylint: disable=protected-access
      return s.op('tdone', lambda: True, lambda alt: saved['done'](self))
    return saved['done'](self)

  Task.done = m_done
  WP.workers = property(g_workers)
  WP.acquired_workers = property(g_acquired)
  WP.next_idle_worker = m_next_idle
  WP.release_all = m_release_all
  Task.is_alive = property(g_is_alive)
  CC.submit = m_submit

  def undo():
    WP.workers, WP.acquired_workers = saved['workers'], saved['acquired']
    WP.next_idle_worker, WP.release_all = saved['next_idle'], saved['release_all']
    Task.is_alive, CC.submit = saved['is_alive'], saved['submit']
    Task.done = saved['done']
  return undo


def canon_outcome(res):
  """Result string of a composite operation -> the model's outcome name."""
  if res == 'ok':
    return 'ok'
  r = str(res)
  if r.startswith('err:ValueError:Failed to connect'):
    return 'notStarted'
  if r.startswith('err:ValueError:No worker is avai'):
    return 'noWorker'
  if r.startswith('err:RuntimeError:Failed to connect'):
    return 'disconnected'
  return 'raised'


def canon_ac_outcome(res):
  """Result string of a consumed as_completed -> the model's outcome name."""
  r = str(res)
  if r in ('ok', 'closed', 'never-started'):
    return r
  if r.startswith('err:TimeoutError') or r.startswith('err:Timeout'):
    return 'noWorker'
  if r.startswith('err:RuntimeError') or r.startswith('err:Runtime'):
    return 'disconnected'
  return 'raised'


ENV_OPS = ('die', 'revive', 'send', 'deliver', 'tick', 'shutdown')


def make_chooser(spec, hook):
  kind = spec['kind']
  if kind == 'replay':
    want = list(spec['choices'])
    pos = [0]

    def inner(opts, sched):
      if pos[0] >= len(want):
        return None
      w = (want[pos[0]], None)
      pos[0] += 1
      if w not in opts:
        raise shim.SchedulerError(f'schedule wants {w}, enabled {opts} at step {sched.steps}')
      return opts.index(w)
  else:
    rng = random.Random(spec['seed'])
    inner = (shim.priority_chooser(rng, change_points=spec.get('changes', 3), horizon=spec.get('horizon', 100))
             if kind == 'pct' else shim.random_chooser(rng, timeout_weight=0.0))

  def choose(opts, sched):
    i = inner(opts, sched)
    hook(opts, None if i is None else opts[i], sched)
    return i
  return choose


def run_real(case, max_steps=4000):
  from harness import fakecourier
  fakecourier.install()
  import courier  # the fake
  logging.disable(logging.CRITICAL)
  # composite operations (`run`, `call_and_wait`: family 'schedrun', oracle only) need their RPCs answered: the
  # transport then runs every handler inline and the repo's spin loops advance the virtual clock by `spin` seconds
  stepwise = case.get('fam') in ('schedc', 'scheda')       # composite operations step by step over the manual transport
  composite = (not stepwise) and any(o['op'] in COMPOSITE_OPS for th in case['threads'] for o in th['ops'])
  clock = fakecourier.VirtualClock(start=float(case['now']), spin_tick=float(case.get('spin', 60)) if composite else 0.0)
  fakecourier.reset(mode='inline' if composite else 'manual', time_fn=clock.time)
  from ml_metrics._src.chainables import courier_server, courier_worker, lazy_fns
  from ml_metrics._src.utils import courier_utils
  from harness.fakecourier import _core as fc_core
  fakecourier.patch_time(clock)
  saved_futures, saved_cf = courier_utils.futures, fc_core.cf
  if stepwise:
    import concurrent.futures as cf
    courier_worker.time = YClock(clock, True)
    courier_utils.time = YClock(clock, False)
    courier_utils.futures = futures_facade()
    fc_core.cf = _types.SimpleNamespace(Future=make_yfuture(courier_worker.wait.__code__),
                                        ThreadPoolExecutor=cf.ThreadPoolExecutor, InvalidStateError=cf.InvalidStateError)
  n, pw = case['nworkers'], case['pw']
  uid = f"x{id(case) & 0xffffff}_{random.getrandbits(40)}_"
  steps = []          # per executed step: [tid, label, op index of the thread]
  enabled = []        # enabled tids before every step
  snaps = []          # public observations before every step (and one after the last)
  cur_op = {}
  opinfo = {}       # what a `deliver` delivered (transport-side fact, recorded by the harness)
  results = {}
  state = {}
  alog, kinds, undo_probes = {}, {}, None
  released_busy = []
  saved_threading = courier_utils.threading
  saved_reg = courier_utils._worker_registry  # pylint: disable=protected-access
  had_prop = '_worker_pool' in courier_worker.Worker.__dict__
  try:
    def hook(opts, chosen, sched):
      snaps.append(snapshot())
      enabled.append(sorted(t for t, _ in opts))
      if chosen is not None:
        tid = chosen[0]
        lbl = sched.threads[tid].pending.label
        steps.append([tid, lbl, cur_op.get(tid, -1) + (1 if lbl == 'start' else 0)])

    sched = shim.Scheduler(make_chooser(case['sched'], hook), max_steps=max_steps)
    courier_utils.threading = threading_facade(sched)
    reg = courier_utils.WorkerRegistry()
    reg._lock.name = 'RL'  # pylint: disable=protected-access
    courier_utils._worker_registry = reg  # pylint: disable=protected-access
    courier_worker.Worker._worker_pool = property(_wp_get, _wp_set)  # pylint: disable=protected-access
    _CUR['sched'] = sched
    addrs = [f'{uid}w{i}' for i in range(n)]
    master = f'{uid}master'
    # servers: a plain transport endpoint whose `heartbeat` handler is the REAL CourierServer._heartbeat
    for a in addrs + [master]:
      srv = courier.Server(a)
      ns = _types.SimpleNamespace(_last_heartbeat=0.0)
      srv.Bind('heartbeat', lambda *args, _ns=ns, **kw: courier_server.CourierServer._heartbeat(_ns, *args, **kw))  # pylint: disable=protected-access
      srv.Bind('maybe_make', lambda lazy=None, *args, **kw: lazy_fns.pickler.dumps(lazy_fns.maybe_make(lazy)))
      srv.Start()
    mps = case.get('mp') or [1] * n
    workers = [courier_worker.Worker(a, heartbeat_threshold_secs=case['thr'], max_parallelism=mps[i])
               for i, a in enumerate(addrs)]
    for i, w in enumerate(workers):
      w.__dict__['_vname'] = str(i)
      w._lock.name = f'L{i}'  # pylint: disable=protected-access
      w._states_lock.name = f'SL{i}'  # pylint: disable=protected-access
    pools = [courier_worker.WorkerPool([workers[w] for w in ws]) for ws in pw]
    for p, ws in zip(pools, pw):
      assert all(a is workers[w] for a, w in zip(p.all_workers, ws)), 'pools must share the Worker singletons'
    idx = {id(w): i for i, w in enumerate(workers)}
    for i, r0 in enumerate(case['reg0']):
      if r0 == 'alive':
        reg.register(addrs[i], clock.time())
      elif r0 == 'dead':
        reg.unregister(addrs[i])

    def snapshot():
      """public observations only (executed by the scheduler's own thread: no yield)"""
      return dict(
          owners=[[p for p in range(len(pools)) if w.is_locked(pools[p])] for w in workers],
          locked=[bool(w.is_locked()) for w in workers],
          sl=[w._states_lock.owner is not None for w in workers],  # the shim's own lock object (harness side)  pylint: disable=protected-access
          reg=[reg.data.get(a, 'absent') for a in addrs])

    if case.get('fam') == 'scheda':
      from ml_metrics._src.chainables import orchestrate
      undo_probes = install_as_completed_probes(courier_worker, courier_utils, orchestrate, pools, workers, alog, kinds, released_busy)

    def safe_get(a):
      if reg._lock.owner is None:  # pylint: disable=protected-access
        return reg.get(a)
      v = reg.data.get(a)          # a cut run can leave the registry lock held by a stopped thread
      return 0 if v is None else v

    def do_pool(o, tid=None, j=None):
      pool = pools[o['p']]
      op = o['op']
      if op == 'acquire_all':
        return [idx[id(w)] for w in pool._acquire_all([workers[w] for w in o['ws']], num_workers=o['n'])]  # pylint: disable=protected-access
      if op == 'release_all':
        pool.release_all([workers[w] for w in o['ws']])
        return None
      if op == 'next_idle':
        w = pool.next_idle_worker([workers[w] for w in o['ws']], maybe_acquire=o['acq'])
        return 'none' if w is None else idx[id(w)]
      if op == 'release':
        workers[o['w']].release(pool)
        return None
      if op == 'idle':
        return [idx[id(w)] for w in pool.idle_workers()]
      if op == 'call':
        workers[o['w']].call(1)
        return None
      if op == 'submit':          # Worker.submit of a non-blocking task on its own (what as_completed calls)
        task = lazy_fns.trace(len)([1, 2]) if o.get('task', 'ok') == 'ok' else lazy_fns.trace(len)(0.5)
        try:
          workers[o['w']].submit(task)
          return 'ok'
        except shim._Killed:  # pylint: disable=protected-access
          raise
        except Exception as e:  # pylint: disable=broad-except
          from harness.core import err_kind
          return f'err:{err_kind(e)}:{str(e)[:18]}'
      if op == 'as_completed':
        from ml_metrics._src.chainables import orchestrate

        def gen_tasks():
          for k in o['tasks']:
            lazy = lazy_fns.trace(len)([1, 2]) if k == 'ok' else lazy_fns.trace(len)(0.5)
            kinds[id(lazy)] = k
            state.setdefault('keep', []).append(lazy)
            yield lazy
        if o['take'] == 0:
          orchestrate.as_completed(pool, gen_tasks()).close()          # never started: runs nothing
          return 'never-started'
        gen = orchestrate.as_completed(pool, gen_tasks(), ignore_failures=o['ignore'])
        try:
          n = 0
          for _ in gen:
            n += 1
            if o['take'] is not None and n >= o['take']:
              gen.close()
              return 'closed'
          return 'ok'
        except shim._Killed:  # pylint: disable=protected-access
          raise
        except Exception as e:  # pylint: disable=broad-except
          from harness.core import err_kind
          return f'err:{err_kind(e)}'
      if op in COMPOSITE_OPS:
        task = lazy_fns.trace(len)([1, 2]) if o['task'] == 'ok' else lazy_fns.trace(len)(0.5)   # TypeError at the worker
        try:
          pool.run(task) if op == 'run' else pool.call_and_wait(task)
          return 'ok'
        except shim._Killed:  # pylint: disable=protected-access
          raise
        except Exception as e:  # pylint: disable=broad-except
          from harness.core import err_kind
          return f'err:{err_kind(e)}:{str(e)[:18]}'
      raise ValueError(op)

    def do_env(o, tid=None, j=None):
      op = o['op']
      if op == 'die':
        reg.unregister(addrs[o['w']])
      elif op == 'revive':
        reg.register(addrs[o['w']], clock.time())
      elif op == 'send':
        if composite:     # inline transport: the heartbeat is delivered (its handler runs) at once
          opinfo[f'{tid},{j}'] = dict(method='heartbeat', sender=o['w'], alive=bool(o['alive']), fail=False)
        courier.Client(master).futures.heartbeat(addrs[o['w']], bool(o['alive']))
      elif op == 'deliver':
        pend = fakecourier.world().pending
        info = None
        if pend:
          c = pend[o['k'] % len(pend)]
          sender = addrs.index(c.args[0]) if (c.method == 'heartbeat' and c.args and c.args[0] in addrs) else None
          info = dict(method=c.method, sender=sender, alive=(bool(c.args[1]) if len(c.args) > 1 else True), fail=bool(o['fail']))
        opinfo[f'{tid},{j}'] = info
        fakecourier.deliver(o['k'], fate=fakecourier.APP_ERROR if o['fail'] else None)
      elif op == 'tick':
        clock.advance(o['d'])
      elif op == 'shutdown':      # the REAL CourierClient.shutdown of the worker's client object (round 6)
        workers[o['w']].shutdown()
      else:
        raise ValueError(op)
      return None

    def body(tid, th):
      results[tid] = []
      fn = do_pool if th['kind'] == 'pool' else do_env
      for j, o in enumerate(th['ops']):
        if j:                      # the first operation begins with the thread's own (shim) 'start' step
          sched.step('start')
        cur_op[tid] = j
        results[tid].append(fn(o, tid, j))
      state[tid] = 'finished'

    for tid, th in enumerate(case['threads']):
      sched.spawn(f"{th['kind']}{tid}", body, tid, th)
    err = None
    try:
      outcome = sched.run()
    except shim.SchedulerError as e:
      outcome, err = 'schedule_rejected', str(e)
    if outcome == 'stopped' or (stepwise and outcome == 'max_steps'):
      outcome = 'cut'        # (stepwise: a spin loop of a composite operation whose exit the environment never enables)
    _CUR['sched'] = None
    final = snapshot()
    snaps.append(final)
    excs = {t.tid: f'{type(t.exc).__name__}: {t.exc}' for t in sched.threads if t.exc is not None}
    return dict(
        outcome=outcome, err=err, excs=excs,
        choices=[t for t, _ in sched.choices],
        steps=steps, enabled=enabled, snaps=snaps, opinfo=opinfo, alog={str(k): v for k, v in alog.items()},
        ac_released_busy=released_busy,
        results=[results.get(t, []) for t in range(len(case['threads']))],
        finished=[state.get(t) == 'finished' for t in range(len(case['threads']))],
        final=dict(locked=final['locked'], owners=final['owners'],
                   available=[[bool(w.is_available(p)) for w in workers] for p in pools],
                   acquired=[[idx[id(w)] for w in p.acquired_workers] for p in pools],
                   get=[safe_get(a) for a in addrs]),
        blocked=[list(b) for b in sched.blocked])
  finally:
    _CUR['sched'] = None
    if undo_probes is not None:
      undo_probes()
    courier_utils.threading = saved_threading
    courier_utils._worker_registry = saved_reg  # pylint: disable=protected-access
    courier_utils.futures, fc_core.cf = saved_futures, saved_cf
    if not had_prop:
      try:
        del courier_worker.Worker._worker_pool  # pylint: disable=protected-access
      except AttributeError:
        pass
    fakecourier.patch_time(None)
    logging.disable(logging.NOTSET)


# ------------------------------------------------------------------ model side

import os as _os
# the model is the model of the REPAIRED as_completed (release_all(unused) only for a non-empty set); development aid:
# The shipped as_completed calls release_all(unused_workers) also with an EMPTY set, which release_all reads as 'all workers'
# (the running and reserved workers are released mid-run).  That is not a violation of C20 / C06 as stated (the pool releases
# workers it owns; results travel in futures), so the code is left as it is and the model follows it: fixed = False.
# VERIF_C20_AC_FIXED=1 replays the guarded variant (`if unused_workers:`) that C20_as_completed_release_never_empty describes.
AC_FIXED = _os.environ.get('VERIF_C20_AC_FIXED', '0') != '0'


def model_threads(case, alog=None):
  """The threads as the model sees them.  Round 11: an `as_completed` operation is the PROGRAM `asCompleted` of the product LTS
  (tasks, ignore_failures, what the consumer does); the pool-level calls its body was observed to make (`alog`) are passed as
  the prophecy script — it carries the environment's choices (set iteration orders, shuffle, sample); the controller of the
  model decides which call comes next and accepts the observed one only if the Python semantics allows it.  The `submit`
  entries of the log are not part of the script (the pieces of `worker.submit` are discovered by the driver); they are
  compared with the submissions the model made."""
  out = []
  for t, th in enumerate(case['threads']):
    ops = []
    for o in th['ops']:
      if o['op'] == 'as_completed':
        log = (alog or {}).get(str(t), [])
        if o['take'] == 0 or not log:
          # (a generator closed before its first next() runs no line of as_completed: an operation that does nothing)
          ops.append(dict(op='next_idle', p=o['p'], ws=[], acq=False))
        else:
          ops.append(dict(op='as_completed', p=o['p'], tasks=[k != 'ok' for k in o['tasks']], ignore=bool(o['ignore']),
                          take=o['take'], fixed=bool(case.get('ac_fixed', AC_FIXED)),
                          script=[model_op(x) for x in log if x['op'] != 'submit']))
      else:
        ops.append(model_op(o))
    out.append(dict(kind=th['kind'], ops=ops))
  return out


def model_request(case, choices, alog=None):
  return dict(model='owner', mode='xsched', nworkers=case['nworkers'], pw=case['pw'], thr=case['thr'], now=case['now'],
              reg0=case['reg0'], mp=case.get('mp') or [1] * case['nworkers'], threads=model_threads(case, alog),
              sched=list(choices))


def model_op(o):
  if o['op'] == 'release':
    return dict(o, checked=True)
  return o


def model_obs(case, r):
  nt = len(case['threads'])
  return dict(accepted=r['accepted'], prophecy_ok=r.get('prophecy_ok', True), steps=[[t, l] for t, l, _ in r['trace']], pps=[pp for _, _, pp in r['trace']],
              enabled=r['enabled_trace'], enabled_final=r['enabled'], results=r['results'], finished=r['finished'],
              locked=r['locked'], locked_by=r['locked_by'], available=r['available'], acquired=r['acquired'],
              get=r['get'], reg_trace=r['reg_trace'], reg=r['reg'],
              outcome='done' if all(r['finished']) else ('open' if r['enabled'] else 'deadlock'), nt=nt,
              case=dict(threads=case['threads'], nworkers=case['nworkers'], pw=case['pw']))


def _canon_res(th, res):
  out = []
  for o, v in zip(th['ops'], res):
    out.append(v)
  return out


def compare(obs, m):
  case = m['case']
  if obs['outcome'] == 'schedule_rejected':
    return f"real code rejected the schedule: {obs['err']}"
  if obs['excs']:
    return f"a thread of the real run ended with an exception: {obs['excs']}"
  if not m['accepted']:
    k = len(m['steps'])
    return (f"model rejects choice #{k} (real step {obs['steps'][k] if k < len(obs['steps']) else None}) taken by the real code")
  for t, th in enumerate(case['threads']):      # scheda: the observed script has the shape the theorems assume (body ++ [finaliser])
    for j, o in enumerate(th['ops']):
      if o['op'] == 'as_completed' and j < len(obs['results'][t]) and obs['results'][t][j] != 'never-started':
        log = obs.get('alog', {}).get(str(t), [])
        if not log or log[-1]['op'] != 'finalize':
          return f'thread {t}: as_completed ended ({obs["results"][t][j]}) and the last pool operation of its body is not the finaliser release_all(): {log[-1:]}'
  if not m['prophecy_ok']:
    return 'driver: the schedule replayed on the pure xstep? against the discovered script of pieces differs from the first pass'
  real = [[t, ('start' if l == 'pstart' else l)] for t, l, _ in obs['steps']]
  if real != m['steps']:
    for k, (a, b) in enumerate(zip(real, m['steps'])):
      if a != b:
        return f'operation #{k}: real {a} vs model {b} (model program point {m["pps"][k]})'
    return f"trace lengths differ: real {len(real)} model {len(m['steps'])}"
  for k, (a, b) in enumerate(zip(obs['enabled'], m['enabled'])):
    if sorted(a) != sorted(b):
      return f'enabled threads before step {k}: real {sorted(a)} vs model {sorted(b)}'
  for k, (s, b) in enumerate(zip(obs['snaps'], m['reg_trace'] + [m['reg']])):
    a = [('absent' if v == 'absent' else (None if v is None else int(v))) for v in s['reg']]
    if a != b:
      return f'registry before step {k}: real {a} vs model {b}'
  if obs['outcome'] in ('done', 'deadlock', 'cut'):
    # results of the operations finished so far (model: values of Owner operations only)
    for t, th in enumerate(case['threads']):
      if th['kind'] == 'pool' and any(o['op'] == 'as_completed' for o in th['ops']):
        # round 11: how as_completed ended (model: the outcome its controller recorded when the finaliser ended)
        want = [canon_ac_outcome(v) for v in obs['results'][t]]
        got = [('never-started' if g == 'none' else g) for g in m['results'][t]]
        if want != got[:len(want)] or (obs['outcome'] == 'done' and want != got):
          return f'thread {t}: as_completed ended real {want} vs model {got}'
        continue
      if th['kind'] != 'pool':
        continue
      want = [(canon_outcome(v) if o['op'] in COMPOSITE_OPS + ('submit',) else v) for o, v in zip(th['ops'], obs['results'][t])]
      got = m['results'][t]
      got = [None if o['op'] in ('release_all', 'release', 'call') else g for o, g in zip(th['ops'], got)]
      if want != got:
        return f'thread {t}: results real {want} vs model {got}'
    f = obs['final']
    lb = [[p in f['owners'][w] for w in range(case['nworkers'])] for p in range(len(case['pw']))]
    for k, a, b in (('locked', f['locked'], m['locked']), ('locked_by', lb, m['locked_by']),
                    ('available', f['available'], m['available']), ('acquired', f['acquired'], m['acquired']),
                    ('get', [int(x) for x in f['get']], m['get'])):
      if a != b:
        return f'final {k}: real {a} vs model {b}'
    if obs['outcome'] != 'cut':
      if obs['finished'] != m['finished']:
        return f"finished threads: real {obs['finished']} vs model {m['finished']}"
      if obs['outcome'] != m['outcome']:
        return f"outcome: real {obs['outcome']} vs model {m['outcome']}"
  return None
