"""C13 machinery: run the REAL parallel-iteration entry points (`pmap`, `piter_fn`, `piter`,
`piter_multiplex`, `MultiplexIterator(parallism=…)`) of ml_metrics/_src/utils/iter_utils.py

  (1) under the deterministic scheduler (harness/sched/shim.py) and compare, step by step, with the
      Lean LTS `Model/Piter.lean` (driver model "piter"), and
  (2) on the real `ThreadPoolExecutor` (no shim), checking results and thread liveness.

A case:
  {api, par, cap, workers, inputs:[[v|'fail']], fn, fail_on, num_steps, max_batch, sched}
  api      'pmap' | 'piter_fn' | 'piter' | 'piter_multiplex' | 'multiplex' | 'piter2' (two-level, oracle only)
           | 'chain' (q2.enqueue_from_iterator(q1) on top of piter_multiplex, oracle only)
  multi_ret  the input iterators end with StopIteration(900+i, 950+i) (as an upstream queue's StopIteration(*returned)
           does) instead of StopIteration(900+i): everything that forwards it has to keep every value
  fwd      (piter2) iterator_fn = map(...), which forwards the input queue's StopIteration(*returned), instead of a
           generator with its own return value
  par      parallelism degree P (number of producers for one shared input)
  cap      buffer_size (ignored by 'multiplex', which uses 3*P)
  workers  max_workers of the pool given to piter_fn / piter / piter_multiplex (0 = default pool)
  fn       row-wise function, one of FNS; fail_on = input value on which it raises (or None)
  num_steps  early stop after that many delivered elements (None = run to the end)
Round 8: input items may be any of lib_queue.FAULTS ('fail' = ValueError, 'fail:kbd' = KeyboardInterrupt, 'fail:exit',
  'fail:genexit', 'fail:cancel': BaseExceptions that are not Exceptions); fail_cls = the class the row function raises on
  fail_on; post = k: when the run has ended, the main thread calls next() k more times on the same iterator (observers after
  the fact); intr = {'at': n}: the consumer is interrupted (KeyboardInterrupt) at the n-th scheduler decision at which it
  sits at a yield point inside next() (harness/lib_interrupt.py) -- such runs are checked by the oracle only.
Values are distinct ints < 500; `dup*` adds 500.
"""
import logging
import random

from harness.core import err_kind
from harness.sched import shim
from harness import lib_queue as lq
from harness import lib_interrupt as li

MAX_BATCH = 4096      # iter_utils._MAX_BATCH_SIZE (checked in run_real)

FNS = {
    'ident': lambda x: [x],
    'inc': lambda x: [x + 1],
    'keep_even': lambda x: [x] if x % 2 == 0 else [],
    'dup': lambda x: [x, x + 500],
    'dup_odd': lambda x: [x, x + 500] if x % 2 == 1 else [],
}
MAP_FNS = ('ident', 'inc')     # usable with pmap (one output per input)
INJECTED = []        # exception objects raised by sources / row functions of the current run (identity for the oracle)


def row_fn(case):
  f, bad = FNS[case['fn']], case.get('fail_on')

  cls = lq.FAULTS[case.get('fail_cls') or 'fail']

  def fn(x):
    if bad is not None and x == bad:
      e = cls(f'fn failed on {x}')
      INJECTED.append(e)
      raise e
    return f(x)
  return fn


def make_iter_fn(case, counter):
  """generator-based iter_fn (row-wise flat-map); the k-th generator created returns 800+k"""
  fn = row_fn(case)

  def iter_fn(it):
    k = counter[0]
    counter[0] += 1

    def gen():
      for x in it:
        for y in fn(x):
          yield y
      return 800 + k
    return gen()
  return iter_fn


def source_rets(case, i):
  """arguments of the StopIteration that ends input i"""
  return [900 + i, 950 + i] if case.get('multi_ret') else [900 + i]


class Source:
  """An input iterator; every `next` is a scheduler yield point labelled 'next'; records which managed thread
  pulled which value; ends with StopIteration(*rets)."""

  def __init__(self, sched, items, rets, pulled, injected=None):
    self.s, self.items, self.rets, self.i, self.pulled = sched, list(items), list(rets), 0, pulled
    self.injected = injected if injected is not None else []

  def __iter__(self):
    return self

  def __next__(self):
    self.s.step('next')
    if self.i >= len(self.items):
      raise StopIteration(*self.rets)
    it = self.items[self.i]
    self.i += 1
    if lq.is_fail(it):
      e = lq.FAULTS[it](f'source failed at {self.i - 1}')
      self.injected.append(e)
      raise e
    t = self.s.current()
    self.pulled.setdefault(t.tid if t is not None else -1, []).append(it)
    return it


def shape(case):
  """(producer specs, batch_max, max_workers, stop_on_end, cap) as the real code will set them up."""
  api, P, n = case['api'], case['par'], len(case['inputs'])
  src_ret = lambda i: 900 + i
  more = lambda i: source_rets(case, i)[1:]
  if api == 'pmap':
    return [dict(sid=0, lock=True, ret=src_ret(0), more=more(0)) for _ in range(P)], MAX_BATCH, P + 1, False, case['cap']
  if api in ('piter_fn', 'piter') and n == 1:
    return [dict(sid=0, lock=True, ret=800 + k) for k in range(P)], MAX_BATCH, case['workers'], False, case['cap']
  if api == 'piter':          # several inputs, no iterator_fn: piter_multiplex(buffer_size or max_parallism)
    return ([dict(sid=i, lock=False, ret=src_ret(i), more=more(i)) for i in range(n)], MAX_BATCH, case['workers'], False,
            case['cap'] or P)
  if api == 'piter_multiplex':
    withfn = case['fn'] != 'ident' or case.get('fail_on') is not None
    return ([dict(sid=i, lock=False, ret=(800 + i) if withfn else src_ret(i), more=[] if withfn else more(i))
             for i in range(n)],
            case.get('max_batch') or MAX_BATCH, case['workers'], False, case['cap'])
  if api == 'multiplex':
    withfn = case['fn'] != 'ident' or case.get('fail_on') is not None
    if n == 1:
      return ([dict(sid=0, lock=True, ret=(800 + k) if withfn else src_ret(0), more=[] if withfn else more(0))
               for k in range(P)], MAX_BATCH, P, True, 3 * P)
    return ([dict(sid=i, lock=False, ret=(800 + i) if withfn else src_ret(i), more=[] if withfn else more(i))
             for i in range(n)], MAX_BATCH, P, True, 3 * P)
  raise ValueError(api)


def build(case, iter_utils, sources, pool_of):
  """Calls the public entry point; returns (iterator, multiplex_iterator_or_None, queue_or_None)."""
  api, P, n = case['api'], case['par'], len(case['inputs'])
  k = case.get('num_steps')
  counter = [0]
  deq = lambda q: q.dequeue_as_iterator(num_steps=k) if k is not None else iter(q)
  if api == 'pmap':
    f = row_fn(case)
    q = iter_utils.pmap(lambda x: f(x)[0], sources[0], max_parallism=P, buffer_size=case['cap'])
    return deq(q), None, q
  if api == 'piter_fn':
    q = iter_utils.piter_fn(make_iter_fn(case, counter), input_iterable=sources[0], thread_pool=pool_of(case['workers']),
                            parallism=P, buffer_size=case['cap'])
    return deq(q), None, q
  if api == 'chain':
    pool = pool_of(0)
    q1 = iter_utils.piter_multiplex(sources, pool, buffer_size=case['cap'])
    q = iter_utils.IteratorQueue(case['cap'], max_enqueuer=1)
    pool.submit(q.enqueue_from_iterator, q1)
    return deq(q), None, q
  if api in ('piter', 'piter2'):
    it_fn = make_iter_fn(case, counter) if (n == 1 or api == 'piter2') else None
    if api == 'piter2' and case.get('fwd'):
      f1 = row_fn(case)
      it_fn = lambda it: map(lambda x: f1(x)[0], it)
    q = iter_utils.piter(it_fn, input_iterators=sources, max_parallism=P, buffer_size=case['cap'],
                         thread_pool=pool_of(case['workers']) if case['workers'] else None)
    return deq(q), None, q
  if api == 'piter_multiplex':
    withfn = case['fn'] != 'ident' or case.get('fail_on') is not None
    its = sources
    if withfn:
      it_fn = make_iter_fn(case, counter)
      its = [it_fn(s) for s in sources]
    q = iter_utils.piter_multiplex(its, pool_of(case['workers']), buffer_size=case['cap'],
                                   max_batch_size=case.get('max_batch') or 0)
    return deq(q), None, q
  if api == 'multiplex':
    withfn = case['fn'] != 'ident' or case.get('fail_on') is not None
    m = iter_utils.MultiplexIterator(data_sources=sources, iter_fn=make_iter_fn(case, counter) if withfn else None,
                                     parallism=P)
    return m, m, None
  raise ValueError(api)


def consume(case, it, mux, got, sched=None, injected=()):
  """The user's loop. Returns the canonical end-of-iteration outcome (and, under 'cls', the real class)."""
  k = case.get('num_steps')
  arm = sched is not None and case.get('intr') is not None

  def nxt():
    if arm:
      sched.arm(sched.current().tid)
    try:
      return next(it)
    finally:
      if arm:
        sched.disarm()
  try:
    if mux is not None and k is not None:
      for _ in range(k):
        got.append(nxt())
      mux.maybe_stop()            # early stop of a MultiplexIterator: queue stop + pool shutdown
      return {'raise': 'StopIteration', 'args': []}
    while True:
      got.append(nxt())
  except BaseException as e:  # pylint: disable=broad-except
    if isinstance(e, shim._Killed):
      raise
    return lq.exc_obs(e, injected)[0]


def norm_label(l):
  return l.split(' ')[0] if l.startswith(('submit ', 'shutdown ')) else l


def run_real(case, max_steps=8000):
  from ml_metrics._src.utils import iter_utils
  assert iter_utils._MAX_BATCH_SIZE == MAX_BATCH
  logging.disable(logging.CRITICAL)
  enabled_rec = []
  del INJECTED[:]
  intr = case.get('intr')
  chooser = lq.make_chooser(case['sched'], enabled_rec)
  if intr is not None:
    sched = li.InterruptScheduler(li.interrupting_chooser(chooser, intr['at']), max_steps=max_steps, at=intr['at'])
  else:
    sched = shim.Scheduler(chooser, max_steps=max_steps)
  pulled, got, futs, pools, res = {}, [], [], [], {}
  err = None
  post = None
  with (li.patched if intr is not None else shim.patched)(sched, [iter_utils]):
    fm = iter_utils.futures
    orig = fm.ThreadPoolExecutor

    def recording_pool(*a, **kw):
      p = orig(*a, **kw)
      sub = p.submit

      def submit(fn, *aa, **kk):
        f = sub(fn, *aa, **kk)
        futs.append(f)
        return f
      p.submit = submit
      pools.append(p)
      return p
    fm.ThreadPoolExecutor = recording_pool

    def pool_of(workers):
      return fm.ThreadPoolExecutor(max_workers=workers) if workers else fm.ThreadPoolExecutor()

    def consumer():
      sources = [Source(sched, items, source_rets(case, i), pulled, INJECTED) for i, items in enumerate(case['inputs'])]
      it, mux, q = build(case, iter_utils, sources, pool_of)
      res['it'], res['mux'] = it, mux
      res['end'] = consume(case, it, mux, got, sched, INJECTED)
      res['q'] = q
      if mux is None:
        for p in pools:
          p.shutdown()
      res['finished'] = True

    sched.spawn('t0', consumer)
    try:
      outcome = sched.run()
    except shim.SchedulerError as e:
      outcome, err = 'schedule_rejected', str(e)
    if outcome == 'done' and case.get('post') and res.get('it') is not None:
      # observers after the fact: the (unmanaged) main thread calls next() again on the same iterator
      post = []
      for _ in range(case['post']):
        try:
          v = next(res['it'])
          post.append(dict(value=v))
        except shim.SchedulerError:
          post.append(dict(end={'raise': 'would_block'}))
          break
        except BaseException as e:  # pylint: disable=broad-except
          o, info = lq.exc_obs(e, INJECTED)
          post.append(dict(end=o, exc=info))
  logging.disable(logging.NOTSET)
  if res.get('q') is not None:
    res['returned'] = list(res['q'].returned)      # read when every thread has stopped
  k = case.get('num_steps')
  early = bool(k is not None and len(got) == k and res.get('end') == {'raise': 'StopIteration', 'args': []})
  threads = [dict(done=bool(sched.threads[0].done and res.get('finished')), received=list(got), pulled=[],
                  outcome=res.get('end'), early=early)]
  for i, t in enumerate(sched.threads[1:], start=1):
    f = futs[i - 1] if i - 1 < len(futs) else None
    exc = f.exception(timeout=0) if (f is not None and f.done()) else None
    threads.append(dict(done=bool(t.done), received=[], pulled=[v for v in pulled.get(i, [])],
                        outcome=None if exc is None else lq.exc_obs(exc, INJECTED)[0], early=False))
  obs = dict(
      outcome=outcome, err=err,
      choices=[[t, a] for t, a in sched.choices],
      trace=[[t, norm_label(l)] for t, l in sched.trace],
      enabled=enabled_rec, threads=threads, returned=res.get('returned'),
      blocked=[list(b) for b in sched.blocked], nthreads=len(sched.threads))
  if INJECTED:
    obs['fault_classes'] = sorted({type(e).__name__ for e in INJECTED})
  end_exc = getattr(sched.threads[0], 'exc', None)
  if intr is not None:
    obs['intr'] = dict(fired=list(sched.fired) if sched.fired else None, offers=sched.offers)
  if post is not None:
    obs['post'] = post
  return obs


# ------------------------------------------------------------------ model side

def model_request(case, choices):
  prods, batch_max, workers, stop_on_end, cap = shape(case)
  return dict(model='piter', cap=cap, batch_max=batch_max, max_workers=workers, stop_on_end=stop_on_end,
              num_steps=case.get('num_steps'), inputs=[['fail' if lq.is_fail(v) else v for v in it] for it in case['inputs']],
              prods=prods, fn=case['fn'],
              fail_on=case.get('fail_on'), want_enabled=True,
              schedule=[c[0] if c[1] is None else [c[0], c[1]] for c in choices])


def model_requests_obs(case, obs):
  if case['api'] in ('piter2', 'chain'):
    return []
  if (obs.get('intr') or {}).get('fired'):
    return []          # an interrupted run has no counterpart in Model/Piter.lean: oracle only
  return [model_request(case, obs['choices'])]


def model_obs(case, resps):
  if not resps:
    return None
  r = resps[0]
  outcome = 'done' if r['all_done'] else ('deadlock' if not r['enabled'] else 'open')
  return dict(accepted=r['accepted'], trace=r['trace'], threads=r['threads'], outcome=outcome,
              enabled=r['enabled_trace'], nsteps=len(r['trace']), returned=r['returned'])


def compare(obs, m):
  if m is None:
    return None
  if obs['outcome'] == 'schedule_rejected':
    return f"real code rejected the schedule: {obs['err']}"
  # threads that were never submitted do not exist on the real side
  mt = m['threads'][:obs['nthreads']]
  if any(not (t['outcome'] is None and not t['pulled']) for t in m['threads'][obs['nthreads']:]):
    return 'model ran a producer the real code never submitted'
  if not m['accepted']:
    k = m['nsteps']
    return f"model rejects choice #{k} {obs['choices'][k] if k < len(obs['choices']) else None} taken by the real code"
  if obs['trace'] != m['trace']:
    for k, (a, b) in enumerate(zip(obs['trace'], m['trace'])):
      if a != b:
        return f'operation #{k}: real {a} vs model {b}'
    return f"trace lengths differ: real {len(obs['trace'])} model {len(m['trace'])}"
  srt = lambda l: sorted(l, key=lambda c: (c[0], c[1] or ''))
  for k, (a, b) in enumerate(zip(obs['enabled'], m['enabled'])):
    if srt(a) != srt(b):
      return f'enabled choices before step {k}: real {srt(a)} vs model {srt(b)}'
  if obs['threads'] != mt:
    return f"thread outcomes differ: real {obs['threads']} vs model {mt}"
  if obs['returned'] is not None and obs['outcome'] == 'done' and obs['returned'] != m['returned']:
    return f"queue.returned differs: real {obs['returned']} vs model {m['returned']}"
  if obs['outcome'] in ('done', 'deadlock') and obs['outcome'] != m['outcome']:
    return f"outcome differs: real {obs['outcome']} vs model {m['outcome']}"
  return None


# ------------------------------------------------------------------ the property, on real observations

def sequential(case):
  """Sequential evaluation: (outputs of all non-failing rows, does any row fail?, all generators' return values)."""
  fn = row_fn(case)
  outs, fails = [], False
  for items in case['inputs']:
    for v in items:
      if lq.is_fail(v):
        fails = True
        continue
      try:
        outs.extend(fn(v))
      except BaseException:  # pylint: disable=broad-except
        fails = True
  return sorted(outs), fails


def expected_returns(case):
  """every generator's return value: what queue.returned and the final StopIteration have to carry"""
  allsrc = [v for i in range(len(case['inputs'])) for v in source_rets(case, i)]
  if case['api'] == 'chain':
    return sorted(allsrc)
  if case['api'] == 'piter2':
    if case.get('fwd'):       # each of the P pass-through threads forwards everything the input stage collected
      return sorted(allsrc * case['par'])
    return sorted(800 + k for k in range(case['par']))
  return sorted(v for p in shape(case)[0] for v in [p['ret']] + p.get('more', []))


def sub_multiset(a, b):
  import collections
  ca, cb = collections.Counter(a), collections.Counter(b)
  return all(cb[k] >= n for k, n in ca.items())


def _srt(l):
  return sorted(l, key=lambda v: (str(type(v)), v if isinstance(v, int) else 0, str(v)))


def result_oracle(case, got, end, returned=None):
  """multiset equality with the sequential evaluation / all return values collected (None = fine)"""
  seq, fails = sequential(case)
  sorted = _srt   # values delivered by a broken implementation need not be ints
  k = case.get('num_steps')
  if not sub_multiset(got, seq):
    return f'delivered {sorted(got)} is not a sub-multiset of the sequential outputs {seq} (duplicated or invented element)'
  if k is not None and len(got) == k and end == {'raise': 'StopIteration', 'args': []}:
    return None                                     # stopped early after exactly k elements
  if k is not None and len(got) > k:
    return f'delivered {len(got)} elements after num_steps={k}'
  if fails:
    if end != {'raise': 'ValueError'}:
      return f'a row fails in the sequential evaluation but the parallel iteration ended with {end} after {sorted(got)}'
    return None
  if end is None or end.get('raise') != 'StopIteration':
    return f'iteration ended with {end}, expected StopIteration'
  if sorted(got) != seq:
    return f'delivered multiset {sorted(got)} != sequential evaluation {seq}'
  rets = expected_returns(case)
  if sorted(end.get('args', [])) != rets:
    return f"StopIteration carries {end.get('args')} != all generators' return values {rets}"
  if returned is not None and sorted(returned) != rets:
    return f'queue.returned {returned} != all generators\' return values {rets}'
  return None


def sched_oracle(case, obs):
  if obs['outcome'] != 'done':
    return (f"{obs['outcome']}: helper threads never finish / pool shutdown never returns; blocked {obs['blocked']} "
            f"after {len(obs['choices'])} steps" + (f" (consumer interrupted at {obs['intr']['fired']})" if (obs.get('intr') or {}).get('fired') else ''))
  for i, t in enumerate(obs['threads']):
    if not t['done']:
      return f'thread {i} did not finish'
  t0 = obs['threads'][0]
  if case['api'] == 'multiplex' and case['par'] and not any(t == 0 and l == 'shutdown' for t, l in obs['trace']):
    return (f'the iteration of the MultiplexIterator ended with {t0["outcome"]} but its thread pool was never shut down '
            f'(fault classes {obs.get("fault_classes")})')
  fired = (obs.get('intr') or {}).get('fired')
  if fired:
    # after ANY exception leaves the consumer no helper thread stays blocked and the pool is shut down (checked above);
    # the interrupt is not swallowed, nothing is duplicated or invented
    seq, _ = sequential(case)
    if not sub_multiset(t0['received'], seq):
      return f'delivered {_srt(t0["received"])} is not a sub-multiset of the sequential outputs {seq}'
    if t0['outcome'] is None or t0['outcome']['raise'] == 'StopIteration':
      return f'the consumer was interrupted at {fired} inside next() but its iteration ended with {t0["outcome"]}'
    return None
  w = result_oracle(case, t0['received'], t0['outcome'], obs.get('returned'))
  if w is not None:
    return w
  # observers after the fact: further next() calls on the same iterator when everything has ended
  post = obs.get('post') or []
  seq_outs, fails = sequential(case)
  delivered = list(t0['received'])
  end = t0['outcome']
  k = case.get('num_steps')
  early = k is not None and end == {'raise': 'StopIteration', 'args': []}
  for j, pr in enumerate(post):
    e = pr.get('end')
    if e is not None and e['raise'] == 'would_block':
      return f'next() #{j + 1} after the end of the iteration ({end}) would wait for ever'
    if early:
      continue
    if fails and end == {'raise': 'ValueError'}:
      # C05 / C13: the failure is never turned into a clean end and never lost - but an element a producer had
      # already queued (it was past its `enqueue_done` test when the failure was recorded) may still be handed
      # out first: "already queued elements are not duplicated" is what the property says about them.  A later
      # next() may therefore deliver a value, provided it is a row of the sequential run not delivered before.
      if e is None and 'value' in pr:
        delivered.append(pr['value'])
        if not sub_multiset(delivered, seq_outs):
          return (f'the iteration failed ({end}) and a later next() #{j + 1} delivered {pr["value"]!r}, which the '
                  f'sequential evaluation does not produce (or not that often): delivered so far {delivered}')
        continue
      if e is None or e['raise'] != 'ValueError' or pr['exc']['cls'] not in (obs.get('fault_classes') or []):
        return (f'the iteration failed ({end}, classes {obs.get("fault_classes")}) but a later next() #{j + 1} on the same '
                f'iterator ended with {pr}: the recorded failure was lost')
    elif end is not None and end['raise'] == 'StopIteration':
      if e is None or e['raise'] != 'StopIteration':
        return f'the iteration ended cleanly but a later next() #{j + 1} ended with {pr}'
  if fails and obs.get('fault_classes') and len(obs['fault_classes']) == 1 and end == {'raise': 'ValueError'}:
    pass   # the class of the consumer's exception is the injected one: exc_obs maps only the injected OBJECT to 'ValueError'
  return None


# ------------------------------------------------------------------ generators

def gen_case(rng, quick=True, api=None):
  api = api or rng.choice(['pmap', 'piter_fn', 'piter_fn', 'piter', 'piter_multiplex', 'piter_multiplex',
                           'multiplex', 'multiplex', 'multiplex'])
  maxlen = 3 if quick else 4
  P = rng.randrange(1, 4)
  if api in ('pmap', 'piter_fn'):
    n = 1
  elif api == 'piter_multiplex':
    n = rng.randrange(1, 4)
  elif api in ('piter2', 'chain'):
    n = rng.randrange(2, 4)
  else:
    n = rng.choice([1, 1, 2, 3])
  inputs, base = [], 0
  for i in range(n):
    ln = rng.randrange(0, maxlen + 1)
    inputs.append([100 * i + j + 1 for j in range(ln)])
  fn = rng.choice(MAP_FNS) if api == 'pmap' else rng.choice(list(FNS))
  if api == 'piter' and n > 1:
    fn = 'ident'
  fail_on = None
  allv = [v for it in inputs for v in it]
  r = rng.random()
  if r < 0.2 and allv and not (api == 'piter' and n > 1):
    fail_on = rng.choice(allv)
  elif r < 0.4:
    i = rng.randrange(n)
    inputs[i].insert(rng.randrange(len(inputs[i]) + 1), 'fail')
  num_steps = rng.randrange(0, 5) if rng.random() < 0.3 else None
  case = dict(api=api, par=P, cap=rng.choice([0, 1, 1, 2, 3]), workers=rng.choice([0, 1, 2, 3]),
              inputs=inputs, fn=fn, fail_on=fail_on, num_steps=num_steps,
              max_batch=rng.choice([0, 0, 1, 2]) if api == 'piter_multiplex' else 0,
              sched=dict(kind=rng.choice(['random', 'pct']), seed=rng.randrange(10**9),
                         changes=rng.randrange(1, 6), horizon=rng.choice([50, 150, 400])))
  case['multi_ret'] = rng.random() < 0.4
  if api == 'piter2' and rng.random() < 0.6:
    # pass-through second stage (map): forwards the input queue's StopIteration(*returned)
    case['fwd'] = True
    if case['fn'] not in MAP_FNS:
      case['fn'] = rng.choice(MAP_FNS)
  if api == 'chain':
    # a hand-made chain has no upstream link: only the clean run is the library's business
    case.update(fn='ident', fail_on=None, num_steps=None, workers=0,
                inputs=[[v for v in it if v != 'fail'] for it in inputs])
  return case


def blocked_case(rng, quick=True):
  """>= 3 producers on a small buffer with enough outputs that several of them are parked in `put` on the full
  queue when another producer's input / the mapped function fails (or the consumer stops): every parked producer
  has to be woken (cf. blocked_producers_case of harness/props/c05.py)."""
  api = rng.choice(['piter_multiplex', 'piter_multiplex', 'piter_fn', 'pmap'])
  P = rng.randrange(3, 5)
  if api == 'piter_multiplex':
    inputs = [[100 * i + j + 1 for j in range(rng.randrange(2, 5))] for i in range(P)]
    fn = rng.choice(['ident', 'dup'])
  else:
    inputs = [[j + 1 for j in range(rng.randrange(5, 9))]]
    fn = rng.choice(MAP_FNS) if api == 'pmap' else rng.choice(['ident', 'dup', 'inc'])
  allv = [v for it in inputs for v in it]
  fail_on, num_steps = None, None
  r = rng.random()
  if r < 0.45:
    fail_on = rng.choice(allv[1:])
  elif r < 0.8:
    i = rng.randrange(len(inputs))
    inputs[i].insert(rng.randrange(1, len(inputs[i]) + 1), 'fail')
  else:
    num_steps = rng.randrange(0, 3)
  return dict(api=api, par=P, cap=rng.choice([1, 1, 2]), workers=0, inputs=inputs, fn=fn, fail_on=fail_on,
              num_steps=num_steps, max_batch=0, multi_ret=False, blocked=True,
              sched=dict(kind=rng.choice(['random', 'pct', 'pct']), seed=rng.randrange(10**9),
                         changes=rng.randrange(1, 6), horizon=rng.choice([50, 150, 400])))


def shrink(case, fails):
  import copy
  cur, changed = case, True
  while changed:
    changed = False
    for i, items in enumerate(cur['inputs']):
      if items:
        c = copy.deepcopy(cur)
        c['inputs'][i].pop()
        if c.get('fail_on') is not None and c['fail_on'] not in [v for it in c['inputs'] for v in it]:
          continue
        if fails(c):
          cur, changed = c, True
          break
  return cur
