"""'multi' cases of the C14 check: SEVERAL clients, each with its own constructor options, on ONE server (with its own
constructor options), histories that include the maintenance methods.   Model: lean/MlModel/Model/RemoteMulti.lean
(+ RemoteOpts.lean), theorems: Properties/C14Multi.lean, C14Opts.lean.

The constructor options are NOT listed here: `signatures()` reads them off the working tree with `inspect` at run
time (CourierClient / CourierServer / PrefetchedCourierServer `__init__`, RemoteObject.new / RemoteIterator.new /
RemoteIteratorQueue.new), `sample_option` draws every option at its default AND at non-default values chosen from the
type of the default, and `option_arms` is the per-option coverage the check enforces (a new option appears there by
itself).  Identity options (address / name / port) and the payload arguments are not sampled.

A case:
  {'kind': 'multi', 'fn_max': n, 'server': {'cls': 'CourierServer' | 'PrefetchedCourierServer', 'opts': {...}},
   'clients': [{opt: value}, ...], 'ops': [op, ...]}
ops (every op carries 'c' = index of the client that sends it; 'via' = how a handle obtained by ANOTHER client is
re-bound to client c: RemoteObject.new(handle.value, worker=<client | its ClientConfig | the address string>)):
  the ops of harness/lib_c14_hist.py on the stateful classes:  mk / get / getf / iter / next
  {'op': 'gen', 'items': [v], 'fin': {'stop': [v]} | {'fail': {kind, msg}}}   a generator with a chosen end, by handle
                                 ('new': 'client' | 'config' | 'str': handed out by RemoteIterator.new(generator, server_addr=..)
                                 instead of a lazy_result_ call)
  {'op': 'giter', 'h': k}        iter(remote_generator) -> RemoteIterator (a second handle to the same generator)
  {'op': 'gnext', 'h': k}        next(remote_iterator)
  {'op': 'clear'}                client.clear_cache()       (courier method `clear_cache`)
  {'op': 'info'}                 client.cache_info()
  {'op': 'hb', 'sender': s, 'alive': b}   client.send_heartbeat(s, b)
  {'op': 'shutdown', 'how': 'party' | 'client'}    a third party calls the `shutdown` method / client.shutdown()

Three passes: remote (the code under test), the same lazy expressions by lazy_fns.maybe_make in process, ordinary
Python on ordinary objects (the oracle's local reference; cache_result links through a textbook LRU that only
`clear` empties).
"""
import inspect
import re

from harness import lib_c14 as lib14
from harness import lib_c14_hist as hist
from harness import lib_c14_state as S
from harness import lib_c17

IDENTITY = {'self', 'address', 'server_name', 'port', 'name', 'value', 'iterator', 'q', 'worker', 'server_addr',
            'clients'}
HB = 100.0
_INT = lambda x: isinstance(x, int) and not isinstance(x, bool)


def signatures(cu, cs):
  """{target: {option: default}} read off the working tree."""
  out = {}
  for name, fn in (('CourierClient', cu.CourierClient.__init__), ('CourierServer', cs.CourierServer.__init__),
                   ('PrefetchedCourierServer', cs.PrefetchedCourierServer.__init__),
                   ('RemoteObject.new', cu.RemoteObject.new), ('RemoteIterator.new', cu.RemoteIterator.new),
                   ('RemoteIteratorQueue.new', cu.RemoteIteratorQueue.new),
                   ('RemoteIterator', cu.RemoteIterator.__init__),
                   ('RemoteIteratorQueue', cu.RemoteIteratorQueue.__init__)):
    opts = {}
    for p in inspect.signature(fn).parameters.values():
      if p.kind in (p.VAR_POSITIONAL, p.VAR_KEYWORD):
        continue
      opts[p.name] = None if p.default is inspect.Parameter.empty else p.default
    out[name] = opts
  return out


def _jsonable(v):
  return v if (v is None or isinstance(v, (bool, int, float, str))) else repr(v)


def options(sig, target):
  """the sampled options of a target: everything but identity / payload arguments"""
  return {k: _jsonable(v) for k, v in sig[target].items() if k not in IDENTITY}


def non_defaults(name, default):
  """Non-default values for an option, from the type of its default (so an option added later is sampled too)."""
  if isinstance(default, bool):
    return [not default]
  if name == 'iterate_batch_size':
    return [2, 3, 4, 7]
  if name == 'heartbeat_threshold_secs':
    return [HB, 500.0]                  # (virtual seconds; <= 60 logs a warning, still legal)
  if _INT(default):
    return [default + 1, default + 3, max(1, default // 2) if default > 2 else default + 5]
  if isinstance(default, float):
    return [30.0, 600.0] if default == 0.0 else [default * 2, 50.0]
  return []


def sample_option(rng, name, default, p_default=0.4):
  nd = non_defaults(name, default)
  if not nd or rng.random() < p_default:
    return default
  return rng.choice(nd)


def sample_opts(rng, sig, target):
  return {k: sample_option(rng, k, d) for k, d in options(sig, target).items()}


def option_arms(sig, case):
  """coverage arms of a case: '<target>.<option> default' / '... non-default' for every sampled option"""
  out = []
  for o in case['clients']:
    for k, d in options(sig, 'CourierClient').items():
      out.append(f'CourierClient.{k} ' + ('default' if o.get(k, d) == d else 'non-default'))
  cls = case['server']['cls']
  for k, d in options(sig, cls).items():
    out.append(f'{cls}.{k} ' + ('default' if case['server']['opts'].get(k, d) == d else 'non-default'))
  for op in case['ops']:
    if 'via' in op:
      out.append('RemoteObject.new.worker ' + op['via'])
    if 'new' in op:
      out.append('RemoteIterator.new.server_addr ' + op['new'])
  return out


def need_arms(sig):
  out = []
  for t in ('CourierClient', 'CourierServer', 'PrefetchedCourierServer'):
    for k, d in options(sig, t).items():
      out.append(f'{t}.{k} default')
      if non_defaults(k, d):
        out.append(f'{t}.{k} non-default')
  return out + ['RemoteObject.new.worker client', 'RemoteObject.new.worker config', 'RemoteObject.new.worker str',
                'RemoteIterator.new.server_addr client', 'RemoteIterator.new.server_addr config',
                'RemoteIterator.new.server_addr str']


# ----------------------------------------------------------------------------- generation

def _gen_fin(rng):
  k = rng.random()
  if k < 0.3:
    return {'stop': []}
  if k < 0.6:
    return {'stop': [{'i': rng.randrange(10, 20)}]}
  return {'fail': {'kind': rng.choice(['ValueError', 'KeyError', 'RuntimeError', 'TypeError']),
                   'msg': rng.choice(['boom', 'gen failed'])}}


def gen_multi_case(rng, sig, n_ops=None, force=None):
  """`force`: {'batch': b, 'n': items, 'fin': fin} pins the iterator part (small-exhaustive stage)."""
  n_clients = rng.choice([1, 2, 2, 3])
  clients = [sample_opts(rng, sig, 'CourierClient') for _ in range(n_clients)]
  for o in clients:
    o['heartbeat_threshold_secs'] = rng.choice([HB, 500.0]) if rng.random() < 0.7 else o['heartbeat_threshold_secs']
  if rng.random() < 0.35:
    clients[0] = dict(options(sig, 'CourierClient'))      # all defaults: the client an address string stands for
  if force:
    clients[-1]['iterate_batch_size'] = force['batch']
  plain = [i for i, o in enumerate(clients) if o == options(sig, 'CourierClient')]

  def how(c):
    return rng.choice(['client', 'config'] + (['str', 'str'] if c in plain else []))
  cls = rng.choice(['CourierServer', 'PrefetchedCourierServer'])
  server = {'cls': cls, 'opts': sample_opts(rng, sig, cls)}
  ops, kinds, owner = [], [], []

  def add(op, kind=None):
    ops.append(op)
    kinds.append(kind)
    owner.append(op['c'])

  def pick(*want):
    return [i for i, k in enumerate(kinds) if k in want]

  def client_for(h):
    """the client that uses handle h: mostly its owner, sometimes another one (re-bound)"""
    c = owner[h]
    if n_clients > 1 and rng.random() < 0.3:
      c2 = rng.choice([i for i in range(n_clients) if i != c])
      return c2, {'via': how(c2)}
    if c in plain and rng.random() < 0.3:
      return c, {'via': 'str'}
    return c, {}

  n_ops = n_ops or rng.randrange(6, 18)
  c0 = rng.randrange(n_clients)
  k0 = rng.choice(['Counter', 'Account', 'Store'])
  add({'c': c0, 'op': 'mk', 'cls': k0, 'args': hist._mk_args(rng, k0)}, k0)
  if force:
    c = n_clients - 1
    add({'c': c, 'op': 'gen', 'items': [{'i': 100 + i} for i in range(force['n'])], 'fin': force['fin']}, 'gen')
    g = len(ops) - 1
    if rng.random() < 0.7:
      add({'c': c, 'op': 'giter', 'h': g}, 'gen')
      g = len(ops) - 1
    rest = force['n'] + 3
    while rest > 0:
      if rng.random() < 0.25:
        cc = rng.randrange(n_clients)
        add({'c': cc, 'op': rng.choice(['clear', 'info'])})
      add({'c': c, 'op': 'gnext', 'h': g})
      rest -= 1
  shut = False
  while len(ops) < n_ops:
    r = rng.random()
    objs = pick('Counter', 'Account', 'Store')
    gens = pick('gen')
    its = pick('iter')
    c = rng.randrange(n_clients)
    if shut and r < 0.5:
      r = 0.3 + r                         # after a shutdown: mostly evaluations
    if r < 0.07:
      k = rng.choice(['Counter', 'Account', 'Store'])
      add({'c': c, 'op': 'mk', 'cls': k, 'args': hist._mk_args(rng, k)}, k)
    elif r < 0.15:
      n = rng.randrange(0, 7)
      op = {'c': c, 'op': 'gen', 'items': [{'i': rng.randrange(0, 50)} for _ in range(n)], 'fin': _gen_fin(rng)}
      if rng.random() < 0.4 and not shut:
        op['new'] = how(c)
      add(op, 'gen')
    elif r < 0.21 and gens:
      h = rng.choice(gens)
      cc, via = client_for(h)
      add(dict({'c': cc, 'op': 'giter', 'h': h}, **via), 'gen')
    elif r < 0.42 and gens:
      h = rng.choice(gens)
      cc, via = client_for(h)
      for _ in range(rng.choice([1, 1, 2, 4])):
        add(dict({'c': cc, 'op': 'gnext', 'h': h}, **via))
    elif r < 0.52:
      add({'c': c, 'op': 'clear'})
    elif r < 0.56:
      add({'c': c, 'op': 'info'})
    elif r < 0.60:
      add({'c': c, 'op': 'hb', 'sender': rng.choice(['peer_a', 'peer_b']), 'alive': rng.random() < 0.7})
    elif r < 0.63 and len(ops) > 4 and not shut:
      add({'c': c, 'op': 'shutdown', 'how': rng.choice(['party', 'party', 'client'])})
      shut = True
    elif r < 0.68 and its:
      h = rng.choice(its)
      cc, via = client_for(h)
      add(dict({'c': cc, 'op': 'next', 'h': h}, **via))
    elif objs:
      h = rng.choice(objs)
      k = kinds[h]
      cc, via = client_for(h)
      q = rng.random()
      if q < 0.35:
        links = hist._links(rng.choice(hist.READS[k]))
        if rng.random() < 0.45:
          fl = [dict(l, cache=rng.random() < 0.7) for l in links]
          add({'c': cc, 'op': 'getf', 'h': h, 'links': fl})           # a memoised read (cache_result_)
        else:
          add(dict({'c': cc, 'op': 'get', 'h': h, 'links': links, 'lazy': False}, **via))
      elif q < 0.75:
        m, args = hist._mutation(rng, k)
        add(dict({'c': cc, 'op': 'get', 'h': h, 'links': [hist.L_attr(m), hist.L_call(args)], 'lazy': False}, **via))
      elif q < 0.82 and k == 'Account':
        add(dict({'c': cc, 'op': 'get', 'h': h, 'links': [hist.L_attr('get_limits'), hist.L_call([])], 'lazy': True},
                 **via), 'Store')
      elif q < 0.92 and k == 'Counter':
        add(dict({'c': cc, 'op': 'iter', 'h': h,
                  'links': [hist.L_attr('ticks'), hist.L_call([{'i': rng.randrange(0, 4)}])]}, **via), 'iter')
      else:
        add(dict({'c': cc, 'op': 'get', 'h': h, 'links': [], 'lazy': False}, **via))
  return {'kind': 'multi', 'fn_max': rng.choice([128, 128, 128, 0, 1, 2]), 'server': server, 'clients': clients,
          'ops': ops}


def fixed_multi_cases(sig):
  """Hand-written: the demos of seeded C14-m5 / C14-m6 as cases."""
  d = options(sig, 'CourierClient')
  dflt = dict(d, heartbeat_threshold_secs=HB)
  batch4 = dict(dflt, iterate_batch_size=4, call_timeout=30.0)
  srv = {'cls': 'CourierServer', 'opts': options(sig, 'CourierServer')}
  out = []
  six = [{'i': i} for i in range(6)]
  for fin in ({'fail': {'kind': 'ValueError', 'msg': 'boom after 6'}}, {'stop': [{'i': 66}]}, {'stop': []}):
    for n in (6, 4, 0):
      ops = [{'c': 1, 'op': 'gen', 'items': six[:n], 'fin': fin}, {'c': 1, 'op': 'giter', 'h': 0}]
      ops += [{'c': 1, 'op': 'gnext', 'h': 1} for _ in range(n + 3)]
      out.append({'kind': 'multi', 'fn_max': 128, 'server': srv, 'clients': [dflt, batch4], 'ops': ops})
  total = {'l': 'attr', 'name': 'total', 'cache': True}
  add1 = [hist.L_attr('add'), hist.L_call([{'i': 1}])]
  ops = [{'c': 1, 'op': 'mk', 'cls': 'Counter', 'args': [{'i': 10}]},
         {'c': 1, 'op': 'get', 'h': 0, 'links': add1, 'lazy': False},
         {'c': 0, 'op': 'getf', 'h': 0, 'links': [total]},
         {'c': 1, 'op': 'gen', 'items': [{'i': 7}, {'i': 8}], 'fin': {'fail': {'kind': 'ValueError', 'msg': 'boom'}}},
         {'c': 1, 'op': 'giter', 'h': 3}, {'c': 1, 'op': 'gnext', 'h': 4},
         {'c': 1, 'op': 'get', 'h': 0, 'links': add1, 'lazy': False},
         {'c': 0, 'op': 'getf', 'h': 0, 'links': [total]},
         {'c': 0, 'op': 'clear'},
         {'c': 0, 'op': 'getf', 'h': 0, 'links': [total]},
         {'c': 1, 'op': 'get', 'h': 0, 'links': add1, 'lazy': False},
         {'c': 1, 'op': 'get', 'h': 0, 'links': [hist.L_attr('total')], 'lazy': False},
         {'c': 0, 'op': 'get', 'h': 0, 'links': [hist.L_attr('total')], 'lazy': False, 'via': 'config'},
         {'c': 1, 'op': 'gnext', 'h': 4}, {'c': 1, 'op': 'gnext', 'h': 4}, {'c': 1, 'op': 'gnext', 'h': 3},
         {'c': 0, 'op': 'info'}, {'c': 1, 'op': 'hb', 'sender': 'peer_a', 'alive': True},
         {'c': 0, 'op': 'shutdown', 'how': 'party'},
         {'c': 1, 'op': 'get', 'h': 0, 'links': [hist.L_attr('nope')], 'lazy': False},
         {'c': 1, 'op': 'get', 'h': 0, 'links': [hist.L_attr('total')], 'lazy': False},
         {'c': 0, 'op': 'shutdown', 'how': 'client'},
         {'c': 1, 'op': 'get', 'h': 0, 'links': [hist.L_attr('total')], 'lazy': False}]
  out.append({'kind': 'multi', 'fn_max': 128, 'server': srv, 'clients': [dflt, batch4], 'ops': ops})
  boom = {'fail': {'kind': 'KeyError', 'msg': 'gone'}}
  ops = [{'c': 1, 'op': 'mk', 'cls': 'Counter', 'args': [{'i': 3}]},
         {'c': 2, 'op': 'get', 'h': 0, 'links': add1, 'lazy': False, 'via': 'str'},
         {'c': 2, 'op': 'gen', 'items': six[:3], 'fin': boom, 'new': 'str'},
         {'c': 1, 'op': 'gen', 'items': six[:5], 'fin': {'stop': [{'i': 9}]}, 'new': 'config'},
         {'c': 0, 'op': 'gen', 'items': six[:1], 'fin': {'stop': []}, 'new': 'client'},
         {'c': 0, 'op': 'clear'}]
  ops += [{'c': 2, 'op': 'gnext', 'h': 2} for _ in range(5)] + [{'c': 1, 'op': 'gnext', 'h': 3} for _ in range(7)]
  ops += [{'c': 1, 'op': 'gnext', 'h': 4, 'via': 'client'} for _ in range(3)]
  out.append({'kind': 'multi', 'fn_max': 128, 'server': srv, 'clients': [dflt, batch4, dict(d)], 'ops': ops})
  return out


# ----------------------------------------------------------------------------- running

def _cfg_obs(cfg):
  return {'call_timeout': int(cfg.call_timeout or 0), 'max_parallelism': int(cfg.max_parallelism),
          'heartbeat_threshold_secs': int(cfg.heartbeat_threshold_secs),
          'iterate_batch_size': int(cfg.iterate_batch_size)}


def client_cfg(sig, opts):
  """the configuration a client built with `opts` must carry (what the model is told)"""
  d = dict(options(sig, 'CourierClient'), **opts)
  return {'call_timeout': int(d['call_timeout'] or 0), 'max_parallelism': int(d['max_parallelism']),
          'heartbeat_threshold_secs': int(d['heartbeat_threshold_secs']),
          'iterate_batch_size': int(d['iterate_batch_size'])}


def _enc_exc(e, err_kind, lf):
  kind = err_kind(e)
  if isinstance(e, StopIteration):
    return {'err': kind, 'msg': '', 'args': [S.snapshot(a) for a in e.args]}
  msg = re.sub(r'id=\d+', 'id=#', str(e.args[0]) if e.args else '')[:160]
  for pre in ('Try longer timeout on', 'Failed to connect to worker', 'Worker disconnected'):
    if msg.startswith(pre):
      msg = pre
  return {'err': kind, 'msg': msg, 'args': []}


def run_remote(case, rem, clients, E, err_kind):
  """The history through the clients.  `rem`: the c14.Remote holding the server; `clients`: the CourierClients."""
  lf, cu, fc = E['lf'], E['cu'], E['fc']
  results, obs = [], []

  def worker_of(c, how):
    return clients[c] if how == 'client' else clients[c].configs if how == 'config' else rem.name

  def bound(h, op):
    """handle h as client op['c'] uses it"""
    if 'via' not in op:
      return h
    w = worker_of(op['c'], op['via'])
    if isinstance(h, cu.RemoteIterator):
      return cu.RemoteIterator(cu.RemoteObject.new(h.iterator.value, worker=w))
    return cu.RemoteObject.new(h.value, worker=w)

  for op in case['ops']:
    k = op['op']
    cl = clients[op['c']]
    h = results[op['h']] if 'h' in op and op['h'] < len(results) else None
    res, thunk, ob = None, None, None
    if k == 'mk':
      thunk = lambda: cl.get_result(lf.trace(S.CLASSES[op['cls']])(*[S.pv(a) for a in op['args']], lazy_result_=True))
    elif k == 'gen':
      stop, fail = (None, (op['fin']['fail']['kind'], op['fin']['fail']['msg'], 0)) if 'fail' in op['fin'] else \
          ([S.pv(v) for v in op['fin']['stop']], None)
      if 'new' in op:
        # the server-side way of handing out an iterator (the in-process fake shares the object table with the server)
        thunk = lambda: cu.RemoteIterator.new(lib14.gen([S.pv(v) for v in op['items']], stop, fail),
                                              server_addr=worker_of(op['c'], op['new']))
      else:
        thunk = lambda: cl.get_result(lf.trace(lib14.gen)([S.pv(v) for v in op['items']], stop, fail, lazy_result_=True))
    elif k == 'clear':
      thunk = lambda: cl.clear_cache().result(timeout=30)
    elif k == 'info':
      def thunk():
        i = cl.cache_info()
        return ('info', [i.hits, i.misses, i.currsize])
    elif k == 'hb':
      thunk = lambda: cl.send_heartbeat(op['sender'], op['alive']).result(timeout=30)
    elif k == 'shutdown':
      if op['how'] == 'client':
        thunk = lambda: cl.shutdown().result(timeout=30)
      else:
        thunk = lambda: fc.Client(rem.name).shutdown()
    elif h is None:
      ob = {'skip': True}
    elif k in ('get', 'iter', 'next', 'giter', 'gnext'):
      hb = bound(h, op)
      root = hb if isinstance(hb, cu.RemoteObject) else hb.iterator
      if k == 'get':
        thunk = lambda: hist._apply_links(root, op['links'], lf, op.get('lazy', False)).result_()
      elif k == 'iter':
        thunk = lambda: iter(hist._apply_links(root, op['links'], lf))
      elif k == 'giter':
        thunk = lambda: iter(root)
      else:
        it = hb if isinstance(hb, cu.RemoteIterator) else cu.RemoteIterator(hb)
        thunk = lambda: next(it)
    elif k == 'getf':
      root = h.value if isinstance(h, cu.RemoteObject) else h.iterator.value
      thunk = lambda: cl.get_result(hist._apply_links(root, op['links'], lf))
    if thunk is not None:
      try:
        r = thunk()
        if isinstance(r, tuple) and r and r[0] == 'info':
          ob = {'info': r[1]}
        elif k in ('clear', 'hb', 'shutdown'):
          ob = {'none': True} if r is None else {'val': repr(r)[:80]}
        elif k == 'gnext':
          ob = {'elem': S.snapshot(r)}
        else:
          ob = hist.enc_result(r, cu, lf)
          if 'remote' in ob:
            res = r
            cfg = r.client_configs if isinstance(r, cu.RemoteObject) else r.iterator.client_configs
            ob['cfg'] = _cfg_obs(cfg)
      except Exception as e:  # pylint: disable=broad-except
        ob = _enc_exc(e, err_kind, lf)
    results.append(res)
    obs.append(ob)
  return obs


def run_lazy_local(case, E, err_kind):
  """The same lazy expressions by lazy_fns.maybe_make in this process: no server, no client.  `clear` is
  lazy_fns.clear_cache() (what the courier method is bound to); the other maintenance methods have no counterpart."""
  lf, cu = E['lf'], E['cu']
  results, obs = [], []
  dead = False
  for op in case['ops']:
    k = op['op']
    h = results[op['h']] if 'h' in op and op['h'] < len(results) else None
    res, thunk, ob = None, None, None
    if k == 'mk':
      thunk = lambda: lf.maybe_make(lf.trace(S.CLASSES[op['cls']])(*[S.pv(a) for a in op['args']], lazy_result_=True))
    elif k == 'gen':
      stop, fail = (None, (op['fin']['fail']['kind'], op['fin']['fail']['msg'], 0)) if 'fail' in op['fin'] else \
          ([S.pv(v) for v in op['fin']['stop']], None)
      if 'new' in op:
        thunk = lambda: lf.LazyObject.new(iter(lib14.gen([S.pv(v) for v in op['items']], stop, fail)))
      else:
        thunk = lambda: lf.maybe_make(lf.trace(lib14.gen)([S.pv(v) for v in op['items']], stop, fail, lazy_result_=True))
    elif k == 'clear':
      lf.clear_cache()
      ob = {'none': True}
    elif k in ('info', 'hb'):
      ob = {'none': True}
    elif k == 'shutdown':
      ob = {'none': True}
      dead = dead or op['how'] == 'client'
    elif h is None:
      ob = {'skip': True}
    elif k in ('get', 'getf'):
      thunk = lambda: lf.maybe_make(hist._apply_links(h, op['links'], lf, op.get('lazy', False)))
    elif k == 'iter':
      thunk = lambda: lf.maybe_make(lf.trace(iter)(hist._apply_links(h, op['links'], lf), lazy_result_=True))
    elif k == 'giter':
      thunk = lambda: lf.maybe_make(lf.trace(iter)(h, lazy_result_=True))
    elif k in ('next', 'gnext'):
      thunk = lambda: lf.maybe_make(lf.trace(next)(h))
    if thunk is not None:
      if dead:
        ob = {'noeval': True}
      else:
        try:
          r = thunk()
          if k == 'gnext':
            ob = {'elem': S.snapshot(r)}
          else:
            ob = hist.enc_result(r, cu, lf)
            if 'remote' in ob:
              res = r
        except Exception as e:  # pylint: disable=broad-except
          ob = _enc_exc(e, err_kind, lf)
    results.append(res)
    obs.append(ob)
  return obs


def run_twin(case, err_kind):
  """Ordinary Python on ordinary objects: no lazy expression, no server, no client, no id.  cache_result links go
  through a textbook LRU that only `clear` empties (written from the statement: a cached call evaluates once and
  afterwards returns the identical object until the cache is cleared or evicts it)."""
  lru = lib_c17.RefLRU(case['fn_max'])
  vars_, obs = [], []
  dead = False
  for op in case['ops']:
    k = op['op']
    h = vars_[op['h']] if 'h' in op and op['h'] < len(vars_) else None
    held, thunk, keep, ob = None, None, False, None
    if k == 'mk':
      thunk, keep = (lambda: S.CLASSES[op['cls']](*[S.pv(a) for a in op['args']])), True
    elif k == 'gen':
      stop, fail = (None, (op['fin']['fail']['kind'], op['fin']['fail']['msg'], 0)) if 'fail' in op['fin'] else \
          ([S.pv(v) for v in op['fin']['stop']], None)
      thunk, keep = (lambda: lib14.gen([S.pv(v) for v in op['items']], stop, fail)), True
    elif k == 'clear':
      lru.clear()
      ob = {'none': True}
    elif k in ('info', 'hb'):
      ob = {'none': True}
    elif k == 'shutdown':
      ob = {'none': True}
      dead = dead or op['how'] == 'client'
    elif h is None:
      ob = {'skip': True}
    elif k == 'get':
      thunk, keep = (lambda: hist.twin_chain(lru, op['h'], h.obj, op['links'])), bool(op.get('lazy')) and bool(op['links'])
    elif k == 'getf':
      thunk = lambda: hist.twin_chain(lru, op['h'], h.obj, op['links'])
    elif k == 'iter':
      thunk, keep = (lambda: iter(hist.twin_chain(lru, op['h'], h.obj, op['links']))), True
    elif k == 'giter':
      thunk, keep = (lambda: iter(h.obj)), True
    elif k in ('next', 'gnext'):
      thunk = lambda: next(h.obj)
    if thunk is not None:
      if dead:
        ob = {'noeval': True}
      else:
        try:
          r = thunk()
          if isinstance(r, hist._Held):
            r, keep = r.obj, True
          if keep:
            held = hist._Held(r)
            ob = {'remote': ('var', len(vars_))}
          elif k == 'gnext':
            ob = {'elem': S.snapshot(r)}
          else:
            ob = hist.enc_result(r, None, hist._NoLazy)
        except Exception as e:  # pylint: disable=broad-except
          ob = _enc_exc(e, err_kind, None)
    vars_.append(held)
    obs.append(ob)
  return obs


def renumber(obs):
  return hist.renumber(obs)


# ----------------------------------------------------------------------------- oracle

def _plain(ob):
  return {k: v for k, v in ob.items() if k not in ('cfg', 'fn')}


def oracle(case, sig, obs):
  """Remote = local, for every client and every option: each request answers what the same history gives on local
  objects (value, or exception type and message; generators: the elements in order, then the end ONCE with its
  return value or failure); a handle is bound to the configuration of the client it was obtained through; the
  maintenance methods answer None / a cache_info and change nothing a client can see except that memoised reads are
  recomputed after clear_cache; after a shutdown request a failing evaluation is a TimeoutError and no request
  returns a different value; after client.shutdown() every request fails (never a value)."""
  ops = case['ops']
  rem, loc, twin = obs['multi'], obs['multi_local'], obs['multi_twin']
  if len(rem) != len(ops):
    return f'the remote pass stopped after {len(rem)} of {len(ops)} requests: {rem[-1] if rem else None}'
  shut = dead = False
  for i, (op, r, l, t) in enumerate(zip(ops, rem, loc, twin)):
    where = f'request {i} by client {op["c"]} {_short(op)}'
    k = op['op']
    if k == 'shutdown':
      shut, dead = True, dead or op['how'] == 'client'
    if k in ('clear', 'hb', 'shutdown'):
      if r != {'none': True}:
        return f'{where}: the maintenance method answered {r}'
      continue
    if k == 'info':
      if 'info' not in r or not all(_INT(x) and x >= 0 for x in r['info']) or r['info'][2] > max(case['fn_max'], 0):
        return f'{where}: cache_info answered {r} (bound {case["fn_max"]})'
      continue
    if l.get('skip'):
      continue
    if dead:
      if 'err' not in r or r['err'] not in ('RuntimeError', 'TimeoutError'):
        return f'{where}: after client.shutdown() the request must fail (worker declared dead), got {r}'
      continue
    for ref, what in ((l, 'local evaluation (maybe_make)'), (t, 'the same history on local objects')):
      if shut and 'err' in ref:
        if r.get('err') != 'TimeoutError':
          return f'{where}: {what} raises {ref["err"]}; a server shutting down must answer TimeoutError, got {r}'
        continue
      if _plain(r) != _plain(ref):
        return f'{where}: the client got {_plain(r)}, {what} gives {_plain(ref)}'
    if 'remote' in r:
      want = client_cfg(sig, case['clients'][op['c']])
      if r.get('cfg') != want:
        return f'{where}: the handle is bound to {r.get("cfg")}, the client was built with {want}'
  return None


def _short(op):
  from harness.core import jdump
  return jdump({k: v for k, v in op.items() if k != 'c'})[:160]


# ----------------------------------------------------------------------------- coverage (case + reference pass only)

def branches(case, sig, twin):
  out = list(option_arms(sig, case))
  ops = case['ops']
  gen_of, pos, batch_of, fin_of, n_of = {}, {}, {}, {}, {}
  owner = {}
  cleared_by = []
  made_by = {}
  shut = None
  for i, (op, t) in enumerate(zip(ops, twin)):
    k = op['op']
    b = case['clients'][op['c']].get('iterate_batch_size', 1)
    if k == 'gen':
      gen_of[i], pos[i], fin_of[i], n_of[i] = i, 0, op['fin'], len(op['items'])
      made_by[i] = op['c']
    elif k == 'giter' and op['h'] in gen_of:
      gen_of[i] = gen_of[op['h']]
      made_by[i] = op['c']
    elif k == 'gnext' and op['h'] in gen_of and not t.get('noeval'):
      g = gen_of[op['h']]
      if 'err' in t and pos[g] == n_of[g]:
        kind = 'fails' if 'fail' in fin_of[g] else ('returns a value' if fin_of[g]['stop'] else 'ends')
        out.append(f'iterator {kind}' + (' with iterate_batch_size > 1' if b > 1 else ''))
        if b > 1 and 'fail' in fin_of[g] and n_of[g] % b != 0:
          out.append('iterator fails inside a batch (position not a multiple of iterate_batch_size)')
        if b > 1 and 'fail' in fin_of[g]:
          out.append(f'iterator fails at position {min(n_of[g], 6)} with iterate_batch_size > 1')
        pos[g] += 1
      elif 'err' in t:
        out.append('StopIteration again after the end' + (' with iterate_batch_size > 1' if b > 1 else ''))
      else:
        pos[g] += 1
      if op['c'] != made_by.get(op['h']):
        out.append('remote iterator advanced by another client')
    if k in ('mk',) and 'remote' in t:
      made_by[i] = op['c']
    if k == 'get' and op.get('lazy') and 'remote' in t:
      made_by[i] = op['c']
    if k == 'iter' and 'remote' in t:
      made_by[i] = op['c']
    if k == 'clear':
      cleared_by.append(op['c'])
    if k == 'shutdown':
      shut = op['how']
    if k in ('get', 'getf', 'next', 'iter') and 'h' in op and op['h'] in made_by and not t.get('skip'):
      if cleared_by and any(c != made_by[op['h']] for c in cleared_by) and 'err' not in t and not t.get('noeval'):
        out.append("handle used after ANOTHER client's clear_cache")
      if cleared_by and made_by[op['h']] in cleared_by and 'err' not in t and not t.get('noeval'):
        out.append("handle used after its own client's clear_cache")
      if op['c'] != made_by[op['h']]:
        out.append('handle used by another client than the one that obtained it')
    if k == 'gnext' and cleared_by and op['h'] in gen_of and not t.get('noeval'):
      out.append('remote iterator advanced after a clear_cache')
    if k == 'getf' and any(l.get('cache') for l in op['links']) and 'err' not in t:
      out.append('memoised read' + (' after clear_cache' if cleared_by else ''))
    if shut == 'party' and k in ('get', 'getf', 'gnext', 'next') and not t.get('skip'):
      out.append('evaluation after a shutdown request: ' + ('fails' if 'err' in t else 'succeeds'))
    if t.get('noeval'):
      out.append('request after client.shutdown()')
    if k in ('info', 'hb'):
      out.append('maintenance method ' + k)
  out.append(f'{len(case["clients"])} clients')
  return out


NEED = ['iterator fails', 'iterator fails with iterate_batch_size > 1', 'iterator returns a value',
        'iterator returns a value with iterate_batch_size > 1', 'iterator ends with iterate_batch_size > 1',
        'iterator fails inside a batch (position not a multiple of iterate_batch_size)',
        'StopIteration again after the end with iterate_batch_size > 1',
        'remote iterator advanced by another client', "handle used after ANOTHER client's clear_cache",
        "handle used after its own client's clear_cache", 'handle used by another client than the one that obtained it',
        'remote iterator advanced after a clear_cache', 'memoised read', 'memoised read after clear_cache',
        'evaluation after a shutdown request: fails', 'evaluation after a shutdown request: succeeds',
        'request after client.shutdown()', 'maintenance method info', 'maintenance method hb',
        '1 clients', '2 clients', '3 clients'] + \
       [f'iterator fails at position {p} with iterate_batch_size > 1' for p in range(0, 7)]


# ----------------------------------------------------------------------------- model

def model_request(case, sig, local=False):
  clients = [client_cfg(sig, o) for o in case['clients']]
  return dict(model='remotemulti', fn_max=case['fn_max'], clients=clients, ops=case['ops'], local=local)


def canon_model(ob):
  """driver observation -> the encoding of the passes"""
  if 'exc' in ob:
    x = ob['exc']
    return {'err': x['kind'], 'msg': x['msg'], 'args': []}
  if 'raised' in ob:
    x = ob['raised']
    return {'err': x['kind'], 'msg': x['msg'], 'args': x['args']}
  if 'err' in ob:
    return {'err': ob['err']}
  return ob


def compare_model(case, impl, model, what):
  from harness.core import jdump
  if len(impl) != len(model):
    return f'{len(impl)} observations ({what}) vs {len(model)} (model)'
  for i, (a, b) in enumerate(zip(impl, model)):
    b = canon_model(b)
    if 'err' in a and 'err' in b:
      # exception messages of the stateful classes are not modelled; protocol messages and generator failures are
      if a['err'] != b['err'] or (b.get('msg') and a.get('msg') != b['msg']) or \
          ('args' in b and a.get('args', []) != b['args']):
        return f'request {i} {_short(case["ops"][i])}: {jdump(a)[:200]} ({what}) vs {jdump(b)[:200]} (model)'
      continue
    if a.get('noeval'):
      continue
    if a != b:
      return f'request {i} {_short(case["ops"][i])}: {jdump(a)[:200]} ({what}) vs {jdump(b)[:200]} (model)'
  return None


def drop_op(case, i):
  c = hist.drop_op(case, i)
  return c


def shrink(case, fails):
  return hist.shrink(case, fails)
