"""Helpers of the C10 check: building real data sources / pipelines from a JSON case and running
checkpoint histories on them through the public API (`it.state`, `.from_state(...)`).

A case:
  src     {'kind':'seq','chain':[{'idx','num','off'},...], 'parts':[sizes]?}   SequenceDataSource(...).shard(...)...
          {'kind':'iter','idx','num','off'}                                   ShardedIterable(...).shard(idx,num) [from_state for off]
  pipe.chain2 {'a','b'}      a second named transform (its own runner) chained after the aggregate's transform
  data    [[row,...],...]    one list of int rows per source element
  scalar  bool               source elements are the ints data[i][0] (else the lists themselves)
  pipe    None | {'a','b','drop':None|{'m','r'},'target':t,'agg':'sumcount'|'sumcount_inplace'|'meanvar','via':'batch'|'apply'}
  threads num_threads of the TreeTransform (pipelines only)
  ops     [['take',k] | ['ckpt'] | ['restore']]
  final   k   (a last take that drains)
  idiom   'fresh' | 'self'   restore through a fresh root iterator (the tests' idiom) or through the running one
"""
import copy

import numpy as np

from harness.core import err_kind


class SumCount:
  """A purely functional Aggregatable (new state per update)."""

  def create_state(self):
    return (0, 0)

  def update_state(self, state, inputs):
    rows = _rows(inputs)
    return (state[0] + sum(rows), state[1] + len(rows))

  def merge_states(self, states):
    states = list(states)
    return (sum(s[0] for s in states), sum(s[1] for s in states))

  def get_result(self, state):
    return {'sum': state[0], 'count': state[1]}


class SumCountInPlace(SumCount):
  """Same aggregate, but the state is a list that `update_state` mutates and returns (the
  MergeableMetricAggFn convention), so that a missing copy in checkpoint/restore is observable."""

  def create_state(self):
    return [0, 0]

  def update_state(self, state, inputs):
    rows = _rows(inputs)
    state[0] += sum(rows)
    state[1] += len(rows)
    return state


def _rows(x):
  if isinstance(x, np.ndarray):
    return [int(v) for v in x.reshape(-1).tolist()]
  if isinstance(x, (list, tuple)):
    return [int(v) for v in x]
  return [int(x)]


def out_canon(x):
  """an output of the iterator as a list of int rows"""
  return _rows(x)


def py_data(case):
  if case['scalar']:
    return [r[0] for r in case['data']]
  return [list(r) for r in case['data']]


def build_source(case):
  from ml_metrics._src.chainables import io
  src = case['src']
  data = py_data(case)
  if src['kind'] == 'seq':
    parts = src.get('parts')
    if parts:
      seqs, i = [], 0
      for s in parts:
        seqs.append(data[i:i + s])
        i += s
      seqs.append(data[i:])
      ds = io.SequenceDataSource.from_sequences(seqs)
    else:
      ds = io.SequenceDataSource(data)
    for c in src['chain']:
      ds = ds.shard(c['idx'], c['num'], c['off'])
    return ds
  ds = io.ShardedIterable(data)
  if (src['idx'], src['num']) != (0, 1):
    ds = ds.shard(src['idx'], src['num'])
  if src['off']:
    ds = ds.from_state(io.ShardConfig(src['idx'], src['num'], src['off']))
  return ds


def build_pipeline(case, ds):
  from ml_metrics._src.aggregates import rolling_stats
  from ml_metrics._src.chainables import transform
  pc = case['pipe']
  a, b = pc['a'], pc['b']
  if case['scalar']:
    fn = lambda x: a * x + b
  else:
    fn = lambda rows: [a * x + b for x in rows]
  c2 = pc.get('chain2')
  p = transform.TreeTransform(name='a' if c2 else '', num_threads=case.get('threads', 0)).data_source(ds)
  t = pc.get('target', 0)
  if t and pc.get('via') == 'apply':
    p = p.apply(fn, batch_size=t)
  else:
    p = p.apply(fn)
  if pc.get('drop'):
    m, r = pc['drop']['m'], pc['drop']['r']
    p = p.filter(lambda y: (y if case['scalar'] else y[0]) % m != r)
  if t and pc.get('via') != 'apply':
    p = p.batch(t)
  agg = pc.get('agg', 'sumcount')
  if agg == 'sumcount':
    p = p.agg(SumCount())
  elif agg == 'sumcount_inplace':
    p = p.agg(SumCountInPlace())
  elif agg == 'meanvar':
    p = p.agg(rolling_stats.MeanAndVariance().as_agg_fn())
  if c2:
    # a second named transform = a second runner whose data source is the first runner's iterator
    a2, b2 = c2['a'], c2['b']
    fn2 = (lambda y: a2 * y + b2) if case['scalar'] else (lambda rows: [a2 * y + b2 for y in rows])
    p = p.chain(transform.TreeTransform(name='b').apply(fn2))
  return p


def agg_canon(result):
  """agg_result of the chained iterator -> {'sum','count'} (floats)"""
  if result is None:
    return None
  r = result
  if isinstance(r, dict) and set(r) == {'sum', 'count'}:
    return {'sum': float(r['sum']), 'count': float(r['count'])}
  if hasattr(r, 'count') and hasattr(r, 'mean'):
    cnt = float(np.sum(r.count))
    return {'sum': float(np.sum(r.mean * r.count)) if cnt else 0.0, 'count': cnt}
  raise TypeError(f'unexpected aggregate result {type(r)}')


def ret_canon(value):
  """StopIteration.value of a pipeline iterator -> canonical aggregate (None when nothing is returned)"""
  if value is None:
    return None
  if hasattr(value, 'agg_result'):
    return agg_canon(value.agg_result)
  return 'unexpected:' + type(value).__name__


class Runner:
  """Runs one history on the real iterators."""

  def __init__(self, case):
    self.case = case
    self.ds = build_source(case)
    self.pipe = build_pipeline(case, self.ds) if case.get('pipe') else None
    self.threads = case.get('threads', 0) if self.pipe is not None else 0
    self._abandoned = []

  def fresh(self):
    if self.pipe is not None:
      return self.pipe.make().iterate()
    return self.ds.iterate()

  def restore(self, it, state):
    base = it if self.case.get('idiom') == 'self' else self.fresh()
    new = base.from_state(state)
    if base is not it:
      self.abandon(base)
    return new

  def abandon(self, it):
    """Producer threads of an abandoned threaded iterator park on the bounded queue for ever
    (`maybe_stop` does not wake them): drain it so that the pool can shut down."""
    if self.threads:
      for _ in it:
        pass

  def take(self, it, k):
    out = []
    self.last_ret = 'not-exhausted'
    for _ in range(k):
      try:
        out.append(out_canon(next(it)))
      except StopIteration as e:
        # `_ChainedRunnerIterator.__next__` returns the aggregate as the generator return value
        self.last_ret = ret_canon(e.value)
        break
    return out

  def agg(self, it):
    if self.pipe is None or not self.case['pipe'].get('agg'):
      return None
    return agg_canon(it.agg_result)

  def run(self):
    case = self.case
    it = self.fresh()
    saved = it.state
    log, probes = [], []
    for op in case['ops']:
      if op[0] == 'take':
        log.append(self.take(it, op[1]))
      elif op[0] == 'ckpt':
        saved = it.state
        if case.get('probe'):
          # what a restore from this state delivers when drained at once (threaded tie only)
          base = self.fresh()
          pr = base.from_state(copy.deepcopy(saved))
          self.abandon(base)
          probes.append(sorted(self.take(pr, 10 ** 6)))
      elif op[0] == 'restore':
        old = it
        it = self.restore(it, saved)
        self.abandon(old)
      else:
        raise ValueError(op)
    final = self.take(it, case['final'])
    obs = dict(log=log, final=final, agg=self.agg(it), err=None, ret=self.last_ret)
    if probes:
      obs['probes'] = probes
    full_it = self.fresh()
    obs['full'] = self.take(full_it, 10 ** 6)
    obs['full_agg'] = self.agg(full_it)
    obs['full_ret'] = self.last_ret
    return obs


def run_history(case):
  try:
    return Runner(case).run()
  except Exception as e:  # pylint: disable=broad-except
    return dict(log=None, final=None, agg=None, err=err_kind(e), full=None, full_agg=None, ret=None, full_ret=None)


def surviving(ops, log, final):
  """Outputs delivered on the surviving timeline: a restore rolls back to the last checkpoint."""
  committed, tentative, i = [], [], 0
  for op in ops:
    if op[0] == 'take':
      tentative += log[i]
      i += 1
    elif op[0] == 'ckpt':
      committed += tentative
      tentative = []
    elif op[0] == 'restore':
      tentative = []
  return committed + tentative + list(final)
