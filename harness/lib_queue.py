"""Shared machinery for C04/C05 (and reused by C13/C15): run the REAL IteratorQueue under the
deterministic scheduler and compare with the Lean LTS (`Model/Queue.lean`, driver model "queue").

A case:
  {cap, max_enq, timeout(bool), threads:[prog], sched:{kind:'random'|'pct', seed} | {kind:'replay', choices:[...]},
   backend?: one of lib_queue_backends.BACKENDS (absent = IteratorQueue(cap), the default buffer)}
  prog = {kind:'producer', src:[v | 'fail'], ret:r} | {kind:'get'} | {kind:'batch', max:m, block:b}
       | {kind:'stopper', exc:'ValueError'} | {kind:'stopper'}
The impl observation lists, step by step, the choice made, the label executed and the set of
choices that were enabled — the model must accept the same choices, produce the same labels and
offer the same enabled sets, and end with the same per-thread outcomes.

`model_guided` (bottom of the file) goes the other way round: schedules are chosen on the model so that
they cover its program points, then replayed on the real code (used by `extra(ctx)` of C04/C05).
"""
import asyncio
import logging
import random

from harness.core import err_kind
from harness.sched import shim

TIMEOUT_SECS = 1.0   # any non-None value: the scheduler decides whether it "fires"

# Fault alphabet of a source item (round 8): 'fail' raises ValueError; the others raise a BaseException that is NOT an
# Exception.  The model has one failing item (`Item.fail`); the class only matters to the oracle ("THAT exception").
FAULTS = {'fail': ValueError, 'fail:kbd': KeyboardInterrupt, 'fail:exit': SystemExit, 'fail:genexit': GeneratorExit,
          'fail:cancel': asyncio.CancelledError}


def is_fail(it):
  return isinstance(it, str) and it in FAULTS


def exc_obs(e, injected):
  """Canonical outcome of a thread that ended with exception `e`.  An exception object injected by the harness into a
  source (whatever its class) is THE failure: kind 'ValueError' as in the model; `cls` keeps the real class name and
  `same` says that it is the very object that was raised in the producer (the oracle looks at both)."""
  same = any(e is x for x in injected)
  d = {'raise': 'ValueError' if same else (err_kind(e) if isinstance(e, Exception) else 'Base:' + type(e).__name__)}
  if isinstance(e, StopIteration):
    d['args'] = list(e.args)
  return d, dict(cls=type(e).__name__, same=same)


class Source:
  """A producer's source iterator; every `next` is a scheduler yield point labelled 'next'."""

  def __init__(self, sched, items, ret, injected=None):
    self.s, self.items, self.ret, self.i = sched, list(items), ret, 0
    self.injected = injected if injected is not None else []

  def __iter__(self):
    return self

  def __next__(self):
    self.s.step('next')
    if self.i >= len(self.items):
      raise StopIteration(self.ret)
    it = self.items[self.i]
    self.i += 1
    if is_fail(it):
      e = FAULTS[it](f'source failed at {self.i - 1}')
      self.injected.append(e)
      raise e
    return it


def phased_chooser(spec, record):
  """Directed event orders (round 8, "observers after the fact"): `phases` = [{tids:[...], until:{tid, nexts}?}, ...].
  The chooser runs, among the enabled threads, one of the EARLIEST phase (from the current one on) that has an enabled
  thread, uniformly at random (seeded); threads of no / an earlier phase come last.  A phase with `until` ends for good
  as soon as thread `tid` has executed `nexts` source pulls and its pending operation is the next pull (so the stopper
  of the following phase lands while that producer is inside next()).  With a timeout configured the timeout
  alternatives are taken with probability `tw`."""
  rng = random.Random(spec['seed'])
  phases = spec['phases']
  cur = [0]
  tw = spec.get('tw', 0.0)

  def until_holds(u, sched):
    t = sched.threads[u['tid']] if u['tid'] < len(sched.threads) else None
    if t is None or t.done or t.pending is None or t.pending.label != 'next':
      return False
    return sum(1 for tid, l in sched.trace if tid == u['tid'] and l == 'next') >= u['nexts']

  def choose(opts, sched):
    record.append([[t, a] for t, a in opts])
    normal = [i for i, (_, a) in enumerate(opts) if a is None]
    alt = [i for i, (_, a) in enumerate(opts) if a is not None]
    if alt and (not normal or rng.random() < tw):
      return rng.choice(alt)
    while cur[0] < len(phases) - 1 and phases[cur[0]].get('until') and until_holds(phases[cur[0]]['until'], sched):
      cur[0] += 1
    for ph in phases[cur[0]:]:
      cand = [i for i in normal if opts[i][0] in ph['tids']]
      if cand:
        return rng.choice(cand)
    return rng.choice(normal)
  return choose


def make_chooser(spec, record):
  kind = spec['kind']
  if kind == 'replay':
    inner = shim.replay_chooser([c if isinstance(c, int) else (c[0], c[1]) for c in spec['choices']],
                                strict=True)
    tail_stop = spec.get('stop_after', True)
    n = len(spec['choices'])

    def choose(opts, sched):
      record.append([[t, a] for t, a in opts])
      if sched.steps >= n and tail_stop:
        return None
      return inner(opts, sched)
    return choose
  if kind == 'phased':
    return phased_chooser(spec, record)
  rng = random.Random(spec['seed'])
  inner = (shim.priority_chooser(rng, change_points=spec.get('changes', 3), horizon=spec.get('horizon', 150))
           if kind == 'pct' else shim.random_chooser(rng, timeout_weight=spec.get('tw', 0.03)))

  def choose(opts, sched):
    record.append([[t, a] for t, a in opts])
    return inner(opts, sched)
  return choose


def run_real(case, max_steps=6000):
  from ml_metrics._src.utils import iter_utils
  logging.disable(logging.CRITICAL)
  enabled_rec = []
  sched = shim.Scheduler(make_chooser(case['sched'], enabled_rec), max_steps=max_steps)
  outcomes = {}
  injected = []        # the exception objects raised by the sources (identity matters to the oracle)
  err = None
  post = None

  def ended(i, got, e):
    if isinstance(e, shim._Killed):      # the scheduler tearing the run down: not an outcome
      raise e
    o, info = exc_obs(e, injected)
    outcomes[i] = dict(received=got, outcome=o, exc=info)

  backend = case.get('backend')      # round 10: the buffer under the queue is a constructor parameter (lib_queue_backends)
  if backend:
    from harness import lib_queue_backends as lqb
    patch = lqb.patched(sched, [iter_utils])
  else:
    patch = shim.patched(sched, [iter_utils])
  with patch:
    if backend:
      q = lqb.make_queue(iter_utils, sched, case, TIMEOUT_SECS if case['timeout'] else None)
    else:
      q = iter_utils.IteratorQueue(case['cap'], max_enqueuer=case['max_enq'],
                                   timeout=TIMEOUT_SECS if case['timeout'] else None)

    def producer(i, src):
      try:
        q.enqueue_from_iterator(src)
        outcomes[i] = dict(received=[], outcome=None)
      except BaseException as e:  # pylint: disable=broad-except
        ended(i, [], e)

    def get_loop(i):
      got = []
      outcomes[i] = dict(received=got, outcome=None, running=True)
      try:
        while True:
          got.append(q.get())
      except BaseException as e:  # pylint: disable=broad-except
        ended(i, got, e)

    def batch_loop(i, mx, block):
      got = []
      outcomes[i] = dict(received=got, outcome=None, running=True)
      try:
        while True:
          got.extend(q.get_batch(mx, block=block))
      except BaseException as e:  # pylint: disable=broad-except
        ended(i, got, e)

    def stopper(i, exc):
      try:
        q.maybe_stop(None if exc is None else ValueError('stop requested'))
        outcomes[i] = dict(received=[], outcome=None)
      except BaseException as e:  # pylint: disable=broad-except
        ended(i, [], e)

    for i, p in enumerate(case['threads']):
      k = p['kind']
      if k == 'producer':
        sched.spawn(f't{i}', producer, i, Source(sched, p['src'], p['ret'], injected))
      elif k == 'get':
        sched.spawn(f't{i}', get_loop, i)
      elif k == 'batch':
        sched.spawn(f't{i}', batch_loop, i, p['max'], p['block'])
      elif k == 'stopper':
        sched.spawn(f't{i}', stopper, i, p.get('exc'))
    try:
      outcome = sched.run()
    except shim.SchedulerError as e:
      outcome, err = 'schedule_rejected', str(e)
    if outcome == 'done' and case.get('post'):
      post = post_probes(q, case['post'], injected, len(all_values(case)) + 2)
  logging.disable(logging.NOTSET)
  threads, excs = [], []
  for i, _ in enumerate(case['threads']):
    t = sched.threads[i]
    o = outcomes.get(i)
    threads.append(dict(done=bool(t.done and o is not None and not o.get('running')),
                        received=list((o or {}).get('received', [])),
                        outcome=(o or {}).get('outcome')))
    excs.append((o or {}).get('exc'))
  obs = dict(
      outcome=outcome, err=err,
      choices=[[t, a] for t, a in sched.choices],
      trace=[[t, l] for t, l in sched.trace],
      enabled=enabled_rec,
      threads=threads,
      blocked=[list(b) for b in sched.blocked],
  )
  if any(excs):
    obs['excs'] = excs           # real class of every thread's final exception, and whether it is the injected object
  if post is not None:
    obs['post'] = post
  return obs


def post_probes(q, kinds, injected, bound):
  """Observers AFTER the fact: when every thread of the run has finished, the (unmanaged) main thread calls the
  queue's public consumer API again -- a second / third consumer arriving late.  Each probe drains what is left and
  reports how it ended.  Under the shim an unmanaged thread that would block raises SchedulerError: reported as
  'would_block' (= an indefinite wait)."""
  import queue as _q
  out = dict(exception=None if q.exception is None else exc_obs(q.exception, injected)[1], probes=[])
  for kind in kinds:
    vals, end, info = [], None, None
    try:
      if kind == 'iter':
        it = iter(q)
      for _ in range(bound):
        if kind == 'get':
          vals.append(q.get())
        elif kind == 'get_nowait':
          vals.append(q.get_nowait())
        elif kind == 'get_batch':
          r = q.get_batch()
          if not r:
            end = {'raise': 'EmptyBatch'}       # [] from a finished queue: the caller's loop would spin for ever
            break
          vals.extend(r)
        elif kind == 'iter':
          vals.append(next(it))
      else:
        end = {'raise': 'NeverEnds'}
    except (_q.Empty, asyncio.QueueEmpty):
      end = {'raise': 'Empty'}
    except shim.SchedulerError:
      end = {'raise': 'would_block'}
    except BaseException as e:  # pylint: disable=broad-except
      end, info = exc_obs(e, injected)
    out['probes'].append(dict(kind=kind, values=vals, end=end, exc=info))
    if end == {'raise': 'would_block'}:
      break                        # the probe left a lock / wait list half-way: later probes would be meaningless
  out['exception_after'] = None if q.exception is None else exc_obs(q.exception, injected)[1]
  return out


def model_request(case, choices):
  return dict(model='queue', cap=case['cap'], max_enq=case['max_enq'], timeout=case['timeout'],
              ignore_error=False, threads=model_threads(case),
              schedule=[c[0] if c[1] is None else [c[0], c[1]] for c in choices])


def model_threads(case):
  """the programs as the model takes them: every fault class is the model's one failing item"""
  return [dict(p, src=['fail' if is_fail(v) else v for v in p['src']]) if p['kind'] == 'producer' else p
          for p in case['threads']]


def all_values(case):
  return sorted(v for p in case['threads'] if p['kind'] == 'producer' for v in p['src'] if not is_fail(v))


def gen_threads(rng, nprod, ncons, maxlen, fail_p=0.0, batch_p=0.5, stopper=None):
  ths = []
  for p in range(nprod):
    n = rng.randrange(0, maxlen + 1)
    src = [p * 100 + i for i in range(n)]
    if fail_p and rng.random() < fail_p:
      src.insert(rng.randrange(0, n + 1), 'fail')
    ths.append(dict(kind='producer', src=src, ret=900 + p))
  for _ in range(ncons):
    if rng.random() < batch_p:
      ths.append(dict(kind='batch', max=rng.choice([1, 2, 3, 1024]), block=rng.random() < 0.4))
    else:
      ths.append(dict(kind='get'))
  if stopper is not None:
    ths.append(stopper)
  return ths


# ------------------------------------------------------------------ property-module plumbing

def run_impl(case):
  return run_real(case)


def model_requests_obs(case, obs):
  r = model_request(case, obs['choices'])
  r['want_enabled'] = True
  return [r]


def model_obs(case, resps):
  """Observation predicted by the model, in the same shape as run_real's (the schedule is an input)."""
  r = resps[0]
  n = len(r['trace'])
  outcome = 'done' if r['all_done'] else ('deadlock' if not r['enabled'] else 'open')
  return dict(accepted=r['accepted'], trace=r['trace'], threads=r['threads'], outcome=outcome,
              enabled=r['enabled_trace'], nsteps=n)


def compare(obs, m):
  if obs['outcome'] == 'schedule_rejected':
    return f"real code rejected the schedule: {obs['err']}"
  if not m['accepted']:
    k = m['nsteps']
    return f"model rejects choice #{k} {obs['choices'][k] if k < len(obs['choices']) else None} taken by the real code"
  if obs['trace'] != m['trace']:
    for k, (a, b) in enumerate(zip(obs['trace'], m['trace'])):
      if a != b:
        return f'operation #{k}: real {a} vs model {b}'
    return f"trace lengths differ: real {len(obs['trace'])} model {len(m['trace'])}"
  srt = lambda l: sorted(l, key=lambda c: (c[0], c[1] or ''))
  for k, (a, b) in enumerate(zip(obs['enabled'], m['enabled'])):
    if srt(a) != srt(b):
      return f'enabled choices before step {k}: real {srt(a)} vs model {srt(b)}'
  if obs['threads'] != m['threads']:
    return f"thread outcomes differ: real {obs['threads']} vs model {m['threads']}"
  if obs['outcome'] in ('done', 'deadlock') and obs['outcome'] != m['outcome']:
    return f"outcome differs: real {obs['outcome']} vs model {m['outcome']}"
  return None


def producers(case):
  return [(i, p) for i, p in enumerate(case['threads']) if p['kind'] == 'producer']


def consumers(case):
  return [(i, p) for i, p in enumerate(case['threads']) if p['kind'] in ('get', 'batch')]


def safety_oracle(case, obs):
  """No duplication, nothing invented, per-producer order at each consumer."""
  vals = all_values(case)
  got = [v for i, _ in consumers(case) for v in obs['threads'][i]['received']]
  if len(set(got)) != len(got):
    return f'an element was delivered twice: {sorted(got)}'
  if not set(got) <= set(vals):
    return f'an element was invented: {sorted(set(got) - set(vals))}'
  for i, _ in consumers(case):
    r = obs['threads'][i]['received']
    for p in {v // 100 for v in r}:
      sub = [v for v in r if v // 100 == p]
      if sub != sorted(sub):
        return f'consumer {i} received producer {p} out of order: {sub}'
  return None


def shrink_schedule_case(case, fails):
  """Drop trailing source items / threads while the failure persists (schedules are re-drawn by seed)."""
  import copy
  if case['sched']['kind'] == 'replay':
    return case        # a literal schedule belongs to exactly these programs: nothing to re-draw
  cur = case
  changed = True
  while changed:
    changed = False
    for i, p in enumerate(cur['threads']):
      if p['kind'] == 'producer' and p['src']:
        c = copy.deepcopy(cur)
        c['threads'][i]['src'].pop()
        if fails(c):
          cur, changed = c, True
          break
  return cur


# ------------------------------------------------------------------ model-guided stage (extra)

def cover_request(cfg, seed, walks, max_len):
  return dict(model='queue', op='cover', cap=cfg['cap'], max_enq=cfg['max_enq'], timeout=cfg['timeout'],
              ignore_error=False, threads=model_threads(cfg), seed=seed, walks=walks, max_len=max_len)


def model_guided(ctx, configs, seed, unreachable=None, oracle=None, walks=None, max_len=600, stage='model_guided'):
  """Program-point coverage of the Lean LTS, measured on schedules the REAL code executes.

  For every configuration {cap, max_enq, timeout, threads} the driver (`"op": "cover"`) runs seeded
  random walks on the model and returns a small set of schedules that together reach every program
  point (`Pc` constructor; the timeout alternative of a parked wait is a point of its own) reached by
  any walk.  Each schedule is replayed choice by choice on the real IteratorQueue (`run_real`, strict
  replay), the observation is compared with the model's replay of the same choices (`compare`: every
  label, every enabled set, the final thread outcomes) and, for walks that ran to the end, checked by
  the property's `oracle`.  A program point counts as executed by the real code only if it lies on a
  schedule whose comparison passed.

  Recorded: ctx.count('pc', name) per executed point, ctx.count('pc_unreached', name) per point of the
  model no replayed schedule reached.  Failures: a disagreement / rejected schedule goes to
  ctx.extra_disagreements, an oracle failure to ctx.extra_oracle_failures (both fail the check); a
  point that is neither reached nor listed in `unreachable` ({name: reason}) is a broken coverage
  promise of the stage -> InfraError (as C19's branch promise).
  """
  import time
  from harness.core import InfraError
  t0 = time.time()
  unreachable = dict(unreachable or {})
  walks = walks or (300 if ctx.quick else 3000)
  covers = ctx.lean.ask_many([cover_request(cfg, seed * 1000 + k, walks, max_len) for k, cfg in enumerate(configs)])
  for cfg, cv in zip(configs, covers):
    if 'driver_error' in cv:
      raise InfraError(f'driver rejected cover request {cfg}: {cv}')
  cases, runs, ends = [], [], []
  for k, (cfg, cv) in enumerate(zip(configs, covers)):
    ctx.count('model_guided:walk_end', 'done', cv['walks_done'])
    ctx.count('model_guided:walk_end', 'other', cv['walks'] - cv['walks_done'])
    for sch, end in zip(cv['schedules'], cv['ends']):
      case = dict(cap=cfg['cap'], max_enq=cfg['max_enq'], timeout=cfg['timeout'], threads=cfg['threads'],
                  sched=dict(kind='replay', choices=sch), model_guided=dict(config=k, end=end))
      if cfg.get('backend'):
        case['backend'] = cfg['backend']
      cases.append(case)
      runs.append(run_real(case))
      ends.append(end)
  reqs = []
  for case, obs in zip(cases, runs):
    r = model_requests_obs(case, obs)[0]
    r['want_pcs'] = True
    reqs.append(r)
  resps = ctx.lean.ask_many(reqs)
  all_pcs = sorted({n for cv in covers for n in cv['all_pcs']})
  reached, bad = set(), 0
  for case, obs, end, r in zip(cases, runs, ends, resps):
    if 'driver_error' in r:
      raise InfraError(f'driver rejected replay of {jshort(case)}: {r}')
    ctx.extra_evals += 1
    m = model_obs(case, [r])
    why = compare(obs, m)
    want = case['sched']['choices']
    took = [c[0] if c[1] is None else [c[0], c[1]] for c in obs['choices']]
    if why is None and took != want:
      why = f'real code executed {len(took)} of the {len(want)} scheduled choices'
    if why is None and end in ('done', 'deadlock') and obs['outcome'] != end:
      why = f"the model's walk ends in {end}, the real code in {obs['outcome']}"
    if why is not None:
      bad += 1
      ctx.extra_disagreements.append((stage, case, dict(impl=obs, model=m, why=why)))
      continue
    if oracle is not None and end != 'max_len':
      w = oracle(case, obs)
      if w is not None:
        ctx.extra_oracle_failures.append((case, w))
    ctx.count('model_guided:replayed', end)
    for name in r['pc_trace']:
      ctx.count('pc', name)
      reached.add(name)
  ctx.hist.setdefault('pc', {})
  ctx.hist.setdefault('pc_unreached', {})
  missing = []
  for name in all_pcs:
    if name not in reached:
      ctx.count('pc_unreached', name)
      if name not in unreachable:
        missing.append(name)
  surprise = sorted(n for n in unreachable if n in reached)
  wall = time.time() - t0
  ctx.notes.append(
      f'{stage}: {len(configs)} configurations x {walks} model walks -> {len(cases)} covering schedules replayed on the '
      f'real code ({bad} disagree); program points executed by the real code {len(reached)}/{len(all_pcs)}; '
      f'unreachable in this setting (by construction) {sorted(unreachable)}; '
      f'reached although listed unreachable {surprise}; stage wall {wall:.1f}s')
  if missing and not bad:
    raise InfraError(f'{stage}: program points promised but not reached by any replayed schedule: {missing}')
  return dict(reached=sorted(reached), missing=missing, all_pcs=all_pcs, schedules=len(cases), wall=wall)


def jshort(x, n=400):
  import json
  return json.dumps(x, sort_keys=True, default=str)[:n]
