"""C10, chains of named transforms of any length: building the real pipeline from a JSON case and running a
checkpoint history on it through the public API (`it.state`, `.from_state(...)`, `it.agg_result`, `it.agg_state`,
`StopIteration.value`).

A chain case is a C10 case (see lib_resume.py) whose `pipe` is
  {'stages': [{'name': 'a', 'a': A, 'b': B, 'drop': None | {'m','r'}, 'agg': None | 'sumcount' | 'sumcount_inplace'
               | 'meanvar'}, ...]}                                     upstream first, 1..5 stages, distinct names
Stage i is `TreeTransform(name=...).apply(x -> A*x+B)[.filter(...)][.agg(..., output_keys='k<name>')]`; the first one
owns the data source, the others are `.chain(...)`ed: one TransformRunner per stage, runner i+1 iterating over the
iterator of runner i.

Observation (all API level, canonical):
  log / final / full     as lib_resume
  agg, full_agg          {'k<name>': {'sum','count'}}  of `it.agg_result` after the final drain (None without aggregates)
  agg_state, full_…      the same read through `it.agg_state` (keys: MetricKey.metrics)
  ret, full_ret          StopIteration.value: {'result': …, 'state': …} of the AggregateResult (None when nothing returned)
  snaps                  `it.agg_result` (canonical) after every op of the history (a restore: of the NEW iterator)
"""
import numpy as np

from harness.core import err_kind
from harness import lib_resume as L


def stage_key(st):
  return 'k' + st['name']


def build_chain(case, ds):
  from ml_metrics._src.aggregates import rolling_stats
  from ml_metrics._src.chainables import transform
  scalar = case['scalar']
  p = None
  for i, st in enumerate(case['pipe']['stages']):
    a, b = st['a'], st['b']
    fn = (lambda x, a=a, b=b: a * x + b) if scalar else (lambda rows, a=a, b=b: [a * x + b for x in rows])
    t = transform.TreeTransform(name=st['name'])
    if i == 0:
      t = t.data_source(ds)
    t = t.apply(fn)
    if st.get('drop'):
      m, r = st['drop']['m'], st['drop']['r']
      t = t.filter(lambda y, m=m, r=r: (y if scalar else y[0]) % m != r)
    agg = st.get('agg')
    if agg == 'sumcount':
      t = t.agg(L.SumCount(), output_keys=stage_key(st))
    elif agg == 'sumcount_inplace':
      t = t.agg(L.SumCountInPlace(), output_keys=stage_key(st))
    elif agg == 'meanvar':
      t = t.agg(rolling_stats.MeanAndVariance().as_agg_fn(), output_keys=stage_key(st))
    elif agg is not None:
      raise ValueError(agg)
    p = t if p is None else p.chain(t)
  return p


def _one(v):
  """one stage's aggregate (a result dict, a state pair, or a MeanAndVariance) -> {'sum','count'}"""
  if isinstance(v, dict) and set(v) == {'sum', 'count'}:
    return {'sum': float(v['sum']), 'count': float(v['count'])}
  if isinstance(v, (tuple, list)) and len(v) == 2:
    return {'sum': float(v[0]), 'count': float(v[1])}
  if hasattr(v, 'count') and hasattr(v, 'mean'):
    cnt = float(np.sum(v.count))
    return {'sum': float(np.sum(v.mean * v.count)) if cnt else 0.0, 'count': cnt}
  raise TypeError(f'unexpected aggregate {type(v)}')


def result_canon(res):
  if res is None:
    return None
  return {str(k): _one(v) for k, v in dict(res).items()}


def state_canon(state):
  if state is None:
    return None
  out = {}
  for k, v in dict(state).items():
    m = getattr(k, 'metrics', k)
    name = m[0] if isinstance(m, tuple) and len(m) == 1 else m
    out[str(name)] = _one(v)
  return out


def ret_canon(value):
  if value is None:
    return None
  if hasattr(value, 'agg_result'):
    return {'result': result_canon(value.agg_result), 'state': state_canon(value.agg_state)}
  return 'unexpected:' + type(value).__name__


class ChainRunner(L.Runner):
  """lib_resume.Runner over a chain of stages, observing every stage's aggregate."""

  def __init__(self, case):  # pylint: disable=super-init-not-called
    self.case = case
    self.ds = L.build_source(case)
    self.pipe = build_chain(case, self.ds)
    self.threads = 0
    self._abandoned = []

  def take(self, it, k):
    out = []
    self.last_ret = 'not-exhausted'
    for _ in range(k):
      try:
        out.append(L.out_canon(next(it)))
      except StopIteration as e:
        self.last_ret = ret_canon(e.value)
        break
    return out

  def agg(self, it):
    return result_canon(it.agg_result)

  def run(self):
    case = self.case
    it = self.fresh()
    saved = it.state
    log, snaps = [], []
    for op in case['ops']:
      if op[0] == 'take':
        log.append(self.take(it, op[1]))
      elif op[0] == 'ckpt':
        saved = it.state
      elif op[0] == 'restore':
        it = self.restore(it, saved)
      else:
        raise ValueError(op)
      snaps.append(self.agg(it))
    final = self.take(it, case['final'])
    obs = dict(log=log, final=final, agg=self.agg(it), agg_state=state_canon(it.agg_state), err=None,
               ret=self.last_ret, snaps=snaps)
    full_it = self.fresh()
    obs['start_agg'] = self.agg(full_it)
    obs['full'] = self.take(full_it, 10 ** 6)
    obs['full_agg'] = self.agg(full_it)
    obs['full_agg_state'] = state_canon(full_it.agg_state)
    obs['full_ret'] = self.last_ret
    return obs


def run_chain_history(case):
  try:
    return ChainRunner(case).run()
  except Exception as e:  # pylint: disable=broad-except
    return dict(log=None, final=None, agg=None, agg_state=None, err=err_kind(e), full=None, full_agg=None,
                full_agg_state=None, ret=None, full_ret=None, snaps=None, start_agg=None)
