"""Numerical conditioning of the rolling statistics: sub-checks of C01 / C07 / C11 (work package SC07).

The properties say "up to floating-point rounding".  This module makes that precise and checkable for the one place
where the shipped code subtracts: `MeanAndVariance` / `Var` / `Mean` (rolling_stats.py:345-420, the pairwise
Chan/Welford pooling) and the function API `metrics.rolling_stats.{mean,var,stddev,count,total}`.

Inputs are ILL-CONDITIONED BUT LEGAL float64 data: |mean|/std from 1 to 1e9, epoch timestamps, sensor readings with
a large offset, constant columns, two-point columns, near-cancelling pairs, tiny (1e-100) and huge (1e100) scales,
NaN entries, 1-D and 2-D.  Every float64 is a dyadic rational, so the case JSON carries the data EXACTLY
({"n","d"}), the Lean model (driver "aggrolling") computes the exact rational statistics of exactly these numbers,
and the oracle does the same independently with `fractions.Fraction`.

TOLERANCE RULE (stated, derived, not tuned per input).  For one column with n non-NaN values x_i, exact mean mu,
exact population variance v, sigma = sqrt(v), rms^2 = mu^2 + v (mean of squares), eps = 2^-53, u = 8*max(n,2)*eps:

    |mean_hat  - mu|       <=  u * mean(|x_i|)                      (error bound of any summation order)
    |total_hat - sum x_i|  <=  u * sum(|x_i|)
    |var_hat   - v|        <=  u * sigma * rms  +  u^2 * rms^2      (*)
    |std_hat   - sigma|    <=  min(sqrt(tol_var), tol_var / sigma) + 4 eps sigma
    count exact;  var_hat >= 0 and std_hat not NaN whenever n >= 1 (failures outright, whatever the tolerance)

(*) is v * (u*kappa + (u*kappa)^2) with kappa = rms / sigma = sqrt(1 + mu^2/v), the condition number of the variance
as a function of the data (Chan, Golub, LeVeque 1983, (2.1)): the first term is the forward error of ANY backward
stable algorithm (relative perturbations of size u in the data move v by at most ~2*u*kappa*v); the second term is
the only place where the TEXTBOOK two-pass formula itself has kappa^2 (its error bound is n*eps + n^2 eps^2 kappa^2:
the computed mean is off by <= n*eps*|mu| and enters the sum of squares quadratically) - it also gives the absolute
floor u^2 * mu^2 for a constant column (v = 0).  The shipped pairwise update (weighted variances plus weighted
squared mean shifts, every term >= 0) is backward stable: measured on 10k ill-conditioned inputs its error is
<= 0.7 * (n*eps*sigma*rms) (one batch) and <= 5.4 * eps*sigma*rms for n = 300 in 300 batches, i.e. a margin of >= 25x
under (*).  A formula that subtracts two quantities of size rms^2 (e.g. pooled second moments minus the squared
mean) has an error of ~eps * rms^2 = eps * kappa^2 * v, which exceeds (*) as soon as kappa > ~8n and is off by the
factor kappa/(8n) (up to 1e7 in the sample): it fails with a concrete input, typically with a negative variance.

Nothing here looks at private attributes; the programs are the rolling family's (make/add/merge/merge_states/
result/call, object and AggregateFn API) and are executed by `harness.agg.rolling.run_prog` / `model_prog`.
"""
from __future__ import annotations

import math
from fractions import Fraction as Fr

import numpy as np

from harness.agg import rolling as R
from harness.core import err_kind

EPS = 2.0 ** -53
NAN = R.NAN
C_TOL = 8

LEAN = {'C01': ['MlModel.Properties.C01.Rolling'],
        'C07': ['MlModel.Properties.C07.Rolling', 'MlModel.Properties.C07.RollingCond'],
        'C11': ['MlModel.Properties.C11.Rolling']}

TOL_RULE = ('conditioning: float64 result vs the exact rational statistics of the (dyadic) inputs; per column with n '
            'non-NaN values, u = 8*max(n,2)*2^-53: |mean err| <= u*mean|x|, |total err| <= u*sum|x|, |var err| <= '
            'u*sigma*rms + u^2*rms^2 (rms^2 = mean^2 + var; = var*(u*kappa + (u*kappa)^2), kappa = sqrt(1+mean^2/var) the '
            'condition number of the variance; the kappa^2 term is the one the textbook two-pass formula has), '
            '|stddev err| <= min(sqrt(tol_var), tol_var/sigma) + 4*eps*sigma, count exact; var < 0 or stddev NaN with n >= 1 '
            'and results of the same data differing by more than 2*tol are failures outright')

ARMS = ['kappa 1e0-1e2', 'kappa 1e2-1e4', 'kappa 1e4-1e6', 'kappa 1e6-1e9', 'timestamps', 'offset sensor',
        'constant column', 'two-point column', 'near-cancelling pairs', 'tiny scale', 'huge scale', 'NaN entries',
        '1-D', '2-D', 'negative mean', '>=3 batches', 'one-row batches', '>=2 shards', 'aggfn api', 'object api']


# ----------------------------------------------------------------------------- data

def gen_column(rng, n, arms):
  r = rng.random()
  if r < 0.5:
    lk = rng.uniform(0, 9)
    kappa = 10 ** lk
    arms.add('kappa 1e0-1e2' if lk < 2 else 'kappa 1e2-1e4' if lk < 4 else 'kappa 1e4-1e6' if lk < 6 else 'kappa 1e6-1e9')
    q = rng.random()
    if q < 0.15:
      s = 10 ** rng.uniform(-100, -30)
      arms.add('tiny scale')
    elif q < 0.3:
      s = 10 ** rng.uniform(30, 100)
      arms.add('huge scale')
    else:
      s = 10 ** rng.uniform(-6, 6)
    sign = rng.choice([-1.0, 1.0])
    if sign < 0:
      arms.add('negative mean')
    mean = sign * kappa * s
    return [mean + s * rng.gauss(0, 1) for _ in range(n)]
  if r < 0.62:
    arms.add('timestamps')
    base = rng.choice([1.7e9, 1.6e9, 1.7e12, 9.46e8])
    spread = rng.choice([1.0, 60.0, 3600.0, 0.001])
    return [base + rng.uniform(0, spread) for _ in range(n)]
  if r < 0.72:
    arms.add('offset sensor')
    off, noise = rng.choice([(5.0e7, 0.5), (-3.0e8, 2.0), (1.0e6, 0.01), (273.15e3, 1e-3), (-1e10, 1.0)])
    if off < 0:
      arms.add('negative mean')
    return [off + noise * rng.gauss(0, 1) for _ in range(n)]
  if r < 0.8:
    arms.add('constant column')
    c = rng.choice([0.1, 1 / 3, 1e9 + 0.1, -7.3e-5, 123456789.125, 1e-40, 3e60, 0.0])
    return [c] * n
  if r < 0.9:
    arms.add('two-point column')
    m = rng.choice([1.0, -1.0]) * 10 ** rng.uniform(0, 12)
    d = 10 ** rng.uniform(-3, 1)
    return [m + rng.choice([-d, d]) for _ in range(n)]
  arms.add('near-cancelling pairs')
  out = []
  big = 10 ** rng.uniform(3, 15)
  while len(out) < n:
    x = big * rng.uniform(0.5, 1.5)
    out += [x, -x * (1 + rng.choice([0, 1e-15, 1e-12, -1e-9, 1e-6]))]
  out = out[:n]
  rng.shuffle(out)
  return out


def enc_float(x):
  return NAN if x != x else R.enc(Fr(x))


def gen_data(rng, arms, valid_rows=False):
  """(cfg, whole batch) in the rolling family's MeanAndVariance case format.  `valid_rows`: every 2-D row keeps at
  least one non-NaN entry, so that no accumulator sees only NaNs (that input class is the open finding F26 of C07:
  the accumulator stays scalar; it is generated for C07 only, where it is listed)."""
  n = rng.choice([2, 3, 5, 8, 13, 20, 40])
  p_nan = 0.08 if rng.random() < 0.3 else 0.0
  def nanify(col):
    out = [float('nan') if rng.random() < p_nan else x for x in col]
    if any(x != x for x in out):
      arms.add('NaN entries')
    return out
  if rng.random() < 0.5:
    arms.add('1-D')
    col = nanify(gen_column(rng, n, arms))
    return dict(dim=1), dict(dim=1, xs=[enc_float(x) for x in col])
  arms.add('2-D')
  k = rng.randint(1, 3)
  raw = [gen_column(rng, n, arms) for _ in range(k)]
  cols = [nanify(c) for c in raw]
  if valid_rows:
    for i in range(n):
      if all(cols[j][i] != cols[j][i] for j in range(k)):
        cols[0][i] = raw[0][i]
  return dict(dim=2, k=k), dict(dim=2, k=k, rows=[[enc_float(cols[j][i]) for j in range(k)] for i in range(n)])


def compose(rng, spec, cfg, whole, arms):
  """random composition of `whole` (rows kept in order) into shards of batches, empty ones included."""
  n = spec.size(whole)
  nb = rng.choice([1, 2, 2, 3, 4, 6, n])
  cuts = sorted(rng.randint(0, n) for _ in range(nb - 1))
  batches = spec.split(cfg, whole, cuts)
  ns = rng.randint(1, min(4, len(batches)))
  scuts = sorted(rng.randint(0, len(batches)) for _ in range(ns - 1))
  shards = [batches[a:b] for a, b in zip([0] + scuts, scuts + [len(batches)])]
  if len(batches) >= 3:
    arms.add('>=3 batches')
  if any(spec.size(b) == 1 for b in batches):
    arms.add('one-row batches')
  if len(shards) >= 2:
    arms.add('>=2 shards')
  return shards


# ----------------------------------------------------------------------------- exact statistics and tolerances

def columns_of(b):
  if b['dim'] == 1:
    return [[R.frac(x) for x in b['xs']]], False
  return [[R.frac(r[j]) for r in b['rows']] for j in range(b['k'])], True


def col_exact(col):
  v = [x for x in col if x is not None]
  n = len(v)
  if n == 0:
    return dict(n=0)
  tot = sum(v, Fr(0))
  mu = tot / n
  var = sum(((x - mu) ** 2 for x in v), Fr(0)) / n
  return dict(n=n, total=tot, mean=mu, var=var, abssum=sum((abs(x) for x in v), Fr(0)))


def fsqrt(x):
  """sqrt of a non-negative Fraction as a float, without overflow for huge numerators"""
  x = Fr(x)
  if x == 0:
    return 0.0
  try:
    return math.sqrt(x)
  except OverflowError:
    return math.sqrt(x.numerator) / math.sqrt(x.denominator)


def col_tol(st):
  """the tolerance rule of the module docstring for one column"""
  n = st['n']
  if n == 0:
    return dict(mean=0.0, total=0.0, var=0.0, stddev=0.0)
  u = C_TOL * max(n, 2) * EPS
  sigma = fsqrt(st['var'])
  rms = fsqrt(st['mean'] ** 2 + st['var'])
  tol_var = u * sigma * rms + (u * rms) ** 2
  tol_std = math.sqrt(tol_var) if sigma == 0 else min(math.sqrt(tol_var), tol_var / sigma)
  absmean = float(st['abssum'] / n)
  return dict(mean=u * absmean, total=u * float(st['abssum']), var=tol_var, stddev=tol_std + 4 * EPS * sigma)


def expected(metric, batch):
  """exact statistics (as correctly rounded floats) and tolerances of the dataset `batch`, per field and column"""
  cols, vec = columns_of(batch)
  sts = [col_exact(c) for c in cols]
  tols = [col_tol(s) for s in sts]
  num = lambda s, k: NAN if s['n'] == 0 else float(s[k])
  want = dict(vec=vec, count=[s['n'] for s in sts], mean=[num(s, 'mean') for s in sts], var=[num(s, 'var') for s in sts],
              total=[0.0 if s['n'] == 0 else float(s['total']) for s in sts],
              stddev=[NAN if s['n'] == 0 else fsqrt(s['var']) for s in sts])
  tol = {k: [t[k] for t in tols] for k in ('mean', 'total', 'var', 'stddev')}
  if metric == 'var':
    return dict(vec=vec, var=want['var']), dict(var=tol['var']), [s['n'] for s in sts]
  if metric == 'mean':
    return dict(vec=vec, mean=want['mean']), dict(mean=tol['mean']), [s['n'] for s in sts]
  return want, tol, [s['n'] for s in sts]


def within(got, want, tol, scale=1.0):
  """field-wise comparison of one result observation; returns None or the first difference"""
  if isinstance(got, dict) and 'err' in got:
    return f"raised {got['err']}"
  if not isinstance(got, dict) or set(got) != set(want):
    return f'shape differs: {got} vs {want}'
  for k, w in want.items():
    g = got[k]
    if k == 'vec':
      if g != w:
        return f'vec={g}, expected {w}'
      continue
    if len(g) != len(w):
      return f'{k}: {len(g)} columns, expected {len(w)}'
    for j, (a, b) in enumerate(zip(g, w)):
      if k == 'count':
        if a != b:
          return f'count[{j}] = {a}, exact {b}'
        continue
      if a == NAN or b == NAN:
        if a != b:
          return f'{k}[{j}] = {a}, exact {b}'
        continue
      if isinstance(a, str) or isinstance(b, str):
        if a != b:
          return f'{k}[{j}] = {a}, exact {b}'
        continue
      t = scale * tol[k][j] + 2 * EPS * abs(b)
      if abs(a - b) > t:
        return (f'{k}[{j}] = {a!r}, exact value {b!r}: |error| = {abs(a - b):.3g} exceeds the derived tolerance '
                f'{t:.3g} by a factor {abs(a - b) / t if t else float("inf"):.3g}')
  return None


def outright(got, counts):
  """failures whatever the tolerance: a negative variance, a NaN stddev of a non-empty column"""
  if not isinstance(got, dict) or 'err' in got:
    return None
  for j, n in enumerate(counts):
    if n >= 1:
      if 'var' in got and j < len(got['var']) and isinstance(got['var'][j], float) and got['var'][j] < 0:
        return f'negative variance {got["var"][j]!r} (column {j}, {n} values)'
      if 'stddev' in got and j < len(got['stddev']) and got['stddev'][j] == NAN:
        return f'stddev is NaN for a column with {n} values (variance {got.get("var", [None] * (j + 1))[j]!r})'
  return None


# ----------------------------------------------------------------------------- cases

def sub_case(case, name):
  return dict(metric=case['metric'], cfg=case['cfg'], api=case.get('api', 'object'), prog=case['progs'][name])


def c01_progs(spec, cfg, whole, shards, rng, api):
  n = len(shards)
  sharded = R.shards_prog(spec, cfg, shards, rng, api)
  single = [dict(op='make', acc=0), dict(op='add', acc=0, batch=whole), dict(op='result', acc=0)]
  return dict(sharded=sharded, single=single), dict(sharded=[whole], single=[whole])


def c07_progs(spec, cfg, whole, shards, rng, api):
  parts = R.all_batches(shards)
  batched = [dict(op='make', acc=0)] + [dict(op='add', acc=0, batch=p) for p in parts] + [dict(op='result', acc=0)]
  single = [dict(op='make', acc=0), dict(op='add', acc=0, batch=whole), dict(op='result', acc=0)]
  call = [dict(op='call', batch=whole)]
  return dict(batched=batched, single=single, call=call), dict(batched=[whole], single=[whole], call=[whole])


def c11_progs(spec, cfg, whole, shards, rng, api):
  """both bracketings of a 3-way merge, both orders of a 2-way merge, a fresh state on either side"""
  bs = [b for b in R.all_batches(shards) if spec.size(b) > 0]     # an accumulator fed only empty 2-D batches: F26
  k = max(1, len(bs) // 3)
  A, B, C = bs[:k], bs[k:2 * k], bs[2 * k:]

  def mk(i, part):
    return [dict(op='make', acc=i)] + [dict(op='add', acc=i, batch=b) for b in part]

  def mg(i, j):
    return dict(op='merge', acc=i, other=j)

  res = lambda i: dict(op='result', acc=i)
  cat = lambda parts: spec.concat(cfg, [b for p in parts for b in p])
  progs = {
      'left': mk(0, A) + mk(1, B) + mk(2, C) + [mg(0, 1), mg(0, 2), res(0)],
      'right': mk(0, A) + mk(1, B) + mk(2, C) + [mg(1, 2), mg(0, 1), res(0)],
      'ba': mk(0, A) + mk(1, B) + [mg(1, 0), res(1), res(0)],
      'fresh_a': mk(0, []) + mk(1, A + B) + [mg(0, 1), res(0), res(1)],
      'a_fresh': mk(0, A + B) + mk(1, []) + [mg(0, 1), res(0)],
  }
  data = {'left': [cat([A, B, C])], 'right': [cat([A, B, C])], 'ba': [cat([B, A]), cat([A])],
          'fresh_a': [cat([A, B]), cat([A, B])], 'a_fresh': [cat([A, B])]}
  return progs, data


def gen(ctx, pid, builder, n_quick, n_thorough):
  rng = ctx.rng
  for c in ctx.corpus(f'{pid}_conditioning'):
    yield c
  for _ in range(n_quick if ctx.quick else n_thorough):
    arms = set()
    metric = rng.choice(['meanvar', 'meanvar', 'meanvar', 'var', 'mean'])
    spec = R.SPECS[metric]
    cfg, whole = gen_data(rng, arms, valid_rows=(pid != 'C07'))
    shards = compose(rng, spec, cfg, whole, arms)
    api = 'aggfn' if rng.random() < 0.4 else 'object'
    arms.add(api + ' api')
    progs, data = builder(spec, cfg, whole, shards, rng, api)
    for a in arms:
      ctx.count(f'{pid} conditioning arm', a)
    ctx.count(f'{pid} conditioning metric', metric)
    yield dict(kind='cond', metric=metric, cfg=cfg, api=api, progs=progs, data=data, whole=whole,
               fnapi=(pid == 'C07' and metric == 'meanvar'))


def run_impl(case):
  out = {}
  for name in sorted(case['progs']):
    o, _ = R.run_prog(sub_case(case, name))
    out[name] = [x for x in o if x is not None]
  res = dict(results=out)
  if case.get('fnapi'):
    from ml_metrics._src.metrics import rolling_stats as fapi
    spec = R.SPECS['meanvar']
    (batch,) = spec.args(case['cfg'], case['whole'])
    try:
      res['function_api'] = dict(
          vec=np.asarray(fapi.mean(batch)).ndim >= 1,
          count=[int(c) for c in np.atleast_1d(np.asarray(fapi.count(batch))).tolist()],
          mean=spec._vec(fapi.mean(batch))[1], var=spec._vec(fapi.var(batch))[1],
          total=spec._vec(fapi.total(batch))[1], stddev=spec._vec(fapi.stddev(batch))[1])
    except Exception as e:  # pylint: disable=broad-except
      res['function_api'] = {'err': err_kind(e)}
  # the tolerances travel with the observation so that the correspondence can use the same rule; they are computed
  # from the case alone (exact Fractions), never from the code or the model
  res['tol'] = {name: [expected(case['metric'], d)[1] for d in ds] for name, ds in case['data'].items()}
  return res


def model_requests(case):
  reqs = [R.model_prog(sub_case(case, name)) for name in sorted(case['progs'])]
  if case.get('fnapi'):
    reqs.append(R.model_prog(dict(metric='meanvar', cfg=case['cfg'], prog=[dict(op='call', batch=case['whole'])])))
  return reqs


def model_obs(case, resps):
  out = {}
  names = sorted(case['progs'])
  for name, r in zip(names, resps):
    out[name] = [x for x in R.model_out(sub_case(case, name), r) if x is not None]
  res = dict(results=out)
  if case.get('fnapi'):
    res['function_api'] = R.model_out(case, resps[len(names)])[0]
  return res


def compare(a, b):
  """real float64 results vs the exact values of the Lean model, under the module's tolerance rule"""
  ra, rb = a['results'], b['results']
  if set(ra) != set(rb):
    return 'different programs'
  for name in ra:
    if len(ra[name]) != len(rb[name]):
      return f'{name}: different number of results'
    for x, y, tol in zip(ra[name], rb[name], a['tol'][name]):
      if isinstance(x, dict) and 'err' in x or isinstance(y, dict) and 'err' in y:
        if x != y:
          return f'{name}: {x} vs model {y}'
        continue
      w = within(x, y, tol)
      if w:
        return f'{name}: real code vs exact model: {w}'
  if 'function_api' in a:
    fa, fb = a['function_api'], b.get('function_api')
    if 'err' in fa or (isinstance(fb, dict) and 'err' in fb):
      return None if fa == fb else f'function API: {fa} vs model {fb}'
    w = within(fa, fb, a['tol']['single'][0])
    if w:
      return f'function API: real code vs exact model: {w}'
  return None


def oracle(case, obs):
  """every reported statistic equals the textbook value of its data within the derived tolerance; variances are
  non-negative, stddev is a number; results of the same data (different batching / sharding / bracketing / API)
  agree within twice the tolerance.  Exact Fractions from the raw examples only."""
  metric = case['metric']
  seen = []
  for name in sorted(case['progs']):
    res = obs['results'][name]
    datas = case['data'][name]
    if len(res) != len(datas):
      return f'{name}: {len(res)} results for {len(datas)} reads: {res}'
    for r, d in zip(res, datas):
      want, tol, counts = expected(metric, d)
      bad = outright(r, counts)
      if bad:
        return f'{name}: {bad}'
      w = within(r, want, tol)
      if w:
        return f'{name}: {w}'
      seen.append((name, r, d, tol))
  for i, (n1, r1, d1, tol) in enumerate(seen):
    for n2, r2, d2, _ in seen[i + 1:]:
      if d1 == d2:
        w = within(r1, r2, tol, scale=2.0)
        if w:
          return f'the result depends on the batching / grouping / API: {n1} vs {n2}: {w}'
  if 'function_api' in obs:
    want, tol, counts = expected('meanvar', case['whole'])
    fa = obs['function_api']
    bad = outright(fa, counts) or within(fa, want, tol)
    if bad:
      return f'function API: {bad}'
  return None


def nontrivial(case, obs):
  return R.SPECS[case['metric']].size(case['whole']) >= 2


def margin(case, obs):
  """max over all reported numbers of |error| / tolerance (1.0 = at the limit) - for the evidence"""
  worst = 0.0
  for name, res in obs['results'].items():
    for r, d in zip(res, case['data'][name]):
      if not isinstance(r, dict) or 'err' in r:
        continue
      want, tol, _ = expected(case['metric'], d)
      for k in tol:
        for a, b, t in zip(r.get(k, []), want[k], tol[k]):
          if isinstance(a, float) and isinstance(b, float):
            t = t + 2 * EPS * abs(b)
            if t > 0:
              worst = max(worst, abs(a - b) / t)
  return worst


def finding(case, what):
  for ds in case['data'].values():
    for d in ds:
      if d['dim'] == 2 and all(x == NAN for r in d['rows'] for x in r):
        return 'F26'       # an accumulator that saw only 2-D data without a single non-NaN entry stays scalar
  for name, prog in case['progs'].items():
    f = R.finding_class(dict(metric=case['metric'], cfg=case['cfg'], prog=prog), what)
    if f:
      return f
  return None


def neighbours(case, rng):
  """failing-input search: fresh ill-conditioned data through the same program shapes"""
  class _Ctx:
    quick = True
    def __init__(self):
      self.rng = rng
    def corpus(self, name=None):
      return []
    def count(self, *a, **k):
      pass
  pid = case.get('pid', 'C07')
  builder = {'C01': c01_progs, 'C07': c07_progs, 'C11': c11_progs}[pid]
  for c in gen(_Ctx(), pid, builder, 300, 300):
    yield dict(c, pid=pid)


def shrink(case, fails):
  return case


def _sub(pid, builder, n_quick, n_thorough, what):
  class Sub:
    LEAN_MODULES = LEAN[pid]
    TRUSTED = R.C01.TRUSTED + [
        'conditioning: IEEE-754 float64 arithmetic of numpy is not modelled; the model is exact over Q on the exact '
        '(dyadic) inputs and the comparison uses the stated, derived tolerance rule']
    ASSUMPTIONS = ['conditioning: finite float64 data with magnitudes in [1e-100, 1e100] (squares do not overflow), '
                   'NaN entries allowed; <= 40 values per column in the sample']
    RULE = (f'conditioning ({what}): MeanAndVariance / Var / Mean on ill-conditioned legal float64 data (|mean|/std 1..1e9, '
            'timestamps, offset sensors, constant / two-point columns, near-cancelling pairs, scales 1e-100..1e100, NaNs, '
            '1-D / 2-D; arms enforced, hist "conditioning arm") through the object and AggregateFn API; ' + TOL_RULE +
            '; non-trivial = at least 2 values')

    @staticmethod
    def gen_cases(ctx):
      for c in gen(ctx, pid, builder, n_quick, n_thorough):
        yield dict(c, pid=pid)

    @staticmethod
    def extra(ctx):
      got = ctx.hist.get(f'{pid} conditioning arm', {})
      missing = [a for a in ARMS if not got.get(a)]
      if missing:
        from harness.core import InfraError
        raise InfraError(f'{pid} conditioning: generator missed promised arms {missing}')
      # how far below the derived tolerance the unchanged code stays (measured on a fresh sample, in-process)
      class _Quiet:
        quick, rng = True, ctx.rng
        corpus = staticmethod(lambda name=None: [])
        count = staticmethod(lambda *a, **k: None)
      worst, n = 0.0, 0
      for c in gen(_Quiet, pid, builder, 60, 60):
        worst = max(worst, margin(c, run_impl(c)))
        n += 1
      ctx.extra_evals += n
      ctx.notes.append(f'{pid} conditioning: max |error| / derived tolerance over {n} fresh cases = {worst:.3g} '
                       f'(1.0 would be at the limit; a cancelling variance formula reaches 1e3..1e7)')

  Sub.run_impl = staticmethod(run_impl)
  Sub.model_requests = staticmethod(model_requests)
  Sub.model_obs = staticmethod(model_obs)
  Sub.compare = staticmethod(compare)
  Sub.oracle = staticmethod(oracle)
  Sub.nontrivial = staticmethod(nontrivial)
  Sub.finding = staticmethod(finding)
  Sub.neighbours = staticmethod(neighbours)
  Sub.shrink = staticmethod(shrink)
  return Sub


CHECKS = {
    'C01': _sub('C01', c01_progs, 260, 6000, 'sharded/batched run vs one batch'),
    'C07': _sub('C07', c07_progs, 260, 6000, 'batched accumulator, one-batch accumulator, one-shot call, function API vs '
                'the textbook value'),
    'C11': _sub('C11', c11_progs, 200, 5000, 'both bracketings, both orders, fresh state on either side'),
}
