"""C11 sub-check "heapobs": aliasing of array-valued accumulator state, compared with the cell-heap models
(work package C11T).

Real code (public API only):
  ml_metrics._src.aggregates.retrieval.ThresholdedRetrieval(thresholds=, metrics=)
      .add(y_true, y_pred, y_prob) -> batch _ThresholdedConfusionMatrix      .merge(other)     .result() -> dict
      public arrays: .thresholds, .confusion_matrix.{thresholds, tp_trues, tp_preds, p_preds}; int: .confusion_matrix.p_trues
  (further classes are registered in ADAPTERS below)
  ml_metrics._src.aggregates.classification.ConfusionMatrixAggFn(...)  .create_state / .update_state / .merge_states / .get_result
      public arrays of a state: .tp, .tn, .fp, .fn
  ml_metrics._src.aggregates.rolling_stats.Histogram(range=, bins=)   .add(x) -> batch Histogram   .merge   .result() -> HistogramResult
      public arrays: .hist, .bin_edges
Model: lean/MlModel/Model/Agg/HeapObs.lean (populations with returned values and caller writes),
  Model/Agg/ThrHeap.lean (ThresholdedRetrieval over buffer cells), Model/Agg/CmStateHeap.lean (confusion-matrix states), Model/Agg/HistHeap.lean (Histogram);
  driver lean/Driver/AggObs.lean ("aggobs"); theorems lean/MlModel/Properties/C11/RetrievalThrHeap.lean,
  ClassificationStateHeap.lean, RollingHistHeap.lean.

One case = a program over numbered accumulators and the list `outs` of every value the caller was handed:
  {"op":"make"} {"op":"add","acc":i,"batch":..} {"op":"merge","acc":i,"other":j} {"op":"result","acc":i}
  {"op":"poke","out":k,"arr":n,"val":v}      outs[k].<n-th private array>[...] = v   (mutate one side ...)
  {"op":"merge_states","accs":[i,j,..],"container":c}   ONE call agg_fn.merge_states(<container of the states i, j, ..>), 0..9
                                              states (work package SC11; model: Model/Agg/HeapMS.lean SysR.mergeStates);
                                              ThresholdedRetrieval via base.as_agg_fn, Histogram via .as_agg_fn()
After EVERY op both sides report
  classes : for the arrays [public arrays of acc 0.., arrays of outs 0..] the partition into "same memory"
            (real code: `is` / np.shares_memory, transitive closure; model: equal buffer reference)
  vals    : the content of each of those arrays (... read the other) and the accumulators' immutable public fields
  err     : error kind if the op raised.
The oracle is evaluated on the real code's observation only (see `oracle`).
"""
import copy
import itertools
from fractions import Fraction

from harness.core import canon, deep_close, err_kind

TRUSTED = [
    'heapobs: "same memory" on the real objects is `a is b or np.shares_memory(a, b)` (transitively closed) over the arrays '
    'reachable through public attributes and returned values; arrays held only privately are invisible to the tie',
    'heapobs: numpy semantics assumed by the heap model: `ndarray += x` writes the existing buffer, `a + b`, `np.divide(.., '
    'out=np.zeros_like(a))`, `arr.sum(axis=1)`, `arr.copy()` allocate; a Python int field is immutable',
]
ASSUMPTIONS = [
    'heapobs: ThresholdedRetrieval thresholds / probabilities are non-negative dyadic rationals (exact in float32)',
]


def _quiet():
  import warnings
  warnings.filterwarnings('ignore')


def _fl(x):
  return x['n'] / x['d'] if isinstance(x, dict) else float(x)


# ============================================================================ adapters (one per modelled class)

class ThrAdapter:
  """ThresholdedRetrieval."""
  name = 'thr'
  KINDS = ['precision', 'recall', 'f1_score']

  @staticmethod
  def make(case):
    from ml_metrics._src.aggregates import retrieval as R
    ts = [_fl(t) for t in case['thresholds']]
    names = [k if t is None else f'{k}@{_fl(t)!r}' for k, t in case['metrics']]
    return R.ThresholdedRetrieval(thresholds=tuple(ts), metrics=tuple(names))

  @staticmethod
  def batch_args(batch):
    import numpy as np
    yt = [np.asarray(r[0], dtype=int) for r in batch]
    yp = [np.asarray(r[1], dtype=int) for r in batch]
    pr = None if any(r[2] is None for r in batch) or not batch else [np.asarray([_fl(q) for q in r[2]], dtype=np.float32) for r in batch]
    return [yt, yp, pr]

  @staticmethod
  def do_add(case, accs, i, args):
    cm = accs[i].add(*args)
    # (private arrays, exposed arrays) of the batch object `add` returned
    return [cm.tp_trues, cm.tp_preds, cm.p_preds], [cm.thresholds]

  @staticmethod
  def do_merge(case, accs, i, j):
    accs[i].merge(accs[j])

  @staticmethod
  def agg_fn(case):
    from ml_metrics._src.aggregates import base as B
    from ml_metrics._src.aggregates import retrieval as R
    ts = [_fl(t) for t in case['thresholds']]
    names = [k if t is None else f'{k}@{_fl(t)!r}' for k, t in case['metrics']]
    return B.as_agg_fn(R.ThresholdedRetrieval, thresholds=tuple(ts), metrics=tuple(names))

  @staticmethod
  def do_result(case, accs, i):
    return ThrAdapter.result_out(case, accs[i].result())

  @staticmethod
  def pub(acc):
    cm = acc.confusion_matrix
    return [acc.thresholds, cm.thresholds, cm.tp_trues, cm.tp_preds, cm.p_preds]

  @staticmethod
  def scalars(acc):
    return [int(acc.confusion_matrix.p_trues)]

  @staticmethod
  def result_out(case, res):
    import numpy as np
    priv = []
    for k, t in case['metrics']:
      if t is None:
        priv.append(res[k if t is None else f'{k}@{_fl(t)!r}'])
    assert all(isinstance(a, np.ndarray) for a in priv), 'array-valued metric expected'
    return priv, [res['thresholds']]

  @staticmethod
  def reading(case, acc):
    """what the accumulator reports (for the oracle): result() in canonical form."""
    import numpy as np
    r = acc.result()
    return {str(k): canon(np.asarray(v, dtype=float)) for k, v in r.items()}

  @staticmethod
  def request(case):
    return dict(model='aggobs', cls='thr', thresholds=sorted(case['thresholds'], key=_fl), metrics=case['metrics'],
                prog=case['prog'])

  # ---- generators
  class Sim:
    """number of private arrays of the values the operations return"""
    def __init__(self, cfg):
      self.n_res = sum(1 for _, t in cfg['metrics'] if t is None)
    def make(self): pass
    def add(self, i, ok=True): return 3 if ok else 0
    def merge(self, i, j): pass
    def merge_states(self, ids): pass
    def result(self, i): return self.n_res

  @staticmethod
  def fixed_cfg():
    return dict(thresholds=[{'n': 0, 'd': 1}, {'n': 1, 'd': 2}],
                metrics=[['precision', None], ['recall', {'n': 1, 'd': 4}], ['f1_score', None]])

  @staticmethod
  def gen_cfg(rng):
    ts = sorted({Fraction(rng.randrange(0, 8), 8) for _ in range(rng.randrange(1, 4))})
    thresholds = [{'n': f.numerator, 'd': f.denominator} for f in ts]
    if rng.random() < 0.3:
      rng.shuffle(thresholds)
    ms = [[k, None] for k in rng.sample(ThrAdapter.KINDS, rng.randrange(1, 4))]
    if rng.random() < 0.4:
      f = Fraction(rng.randrange(0, 17), 16)
      ms.insert(rng.randrange(len(ms) + 1), [rng.choice(ThrAdapter.KINDS), {'n': f.numerator, 'd': f.denominator}])
    return dict(thresholds=thresholds, metrics=ms)

  @staticmethod
  def gen_batch(rng, cfg, malformed=False):
    if malformed:       # a matched prediction occurs twice among the true labels: the matcher asserts
      return [[[1, 1], [1], None]]
    with_prob = rng.random() < 0.7
    rows = []
    for _ in range(rng.choice([0, 1, 1, 2, 3])):
      t = rng.sample(range(5), rng.randrange(0, 4))
      p = rng.sample(range(5), rng.randrange(0, 4))
      pr = None
      if with_prob:
        pr = []
        for _ in p:
          f = Fraction(rng.randrange(0, 9), 8)
          pr.append({'n': f.numerator, 'd': f.denominator})
      rows.append([t, p, pr])
    return rows


class CmStateAdapter:
  """ConfusionMatrixAggFn through the AggregateFn state API: a slot is a state variable of the caller,
  add = `s[i] = fn.update_state(s[i], y_true, y_pred)` (the previous state object stays with the caller = returned value),
  merge = `s[i] = fn.merge_states([s[i], s[j]])`, result = `fn.get_result(s[i])`."""
  name = 'cmstate'
  CLASSES = [0, 1, 2]

  @staticmethod
  def fn(case):
    from ml_metrics._src.aggregates import classification as C
    if case['mode'] == 'binary':
      return C.ConfusionMatrixAggFn(metrics=['precision', 'recall', 'accuracy'], input_type='binary', pos_label=1)
    return C.ConfusionMatrixAggFn(metrics=['precision', 'recall', 'accuracy'], input_type='multiclass',
                                  average=case['mode'], vocab={c: c for c in CmStateAdapter.CLASSES})

  @staticmethod
  def make(case):
    return CmStateAdapter.fn(case).create_state()

  @staticmethod
  def batch_args(batch):
    import numpy as np
    return [np.asarray(batch['yt'], dtype=int), np.asarray(batch['yp'], dtype=int)]

  @staticmethod
  def arrays(st):
    return [] if st is None else [st.tp, st.tn, st.fp, st.fn]

  @staticmethod
  def do_add(case, accs, i, args):
    old = accs[i]
    accs[i] = CmStateAdapter.fn(case).update_state(old, *args)
    return CmStateAdapter.arrays(old), []

  @staticmethod
  def do_merge(case, accs, i, j):
    accs[i] = CmStateAdapter.fn(case).merge_states([accs[i], accs[j]])

  @staticmethod
  def agg_fn(case):
    return CmStateAdapter.fn(case)

  @staticmethod
  def do_result(case, accs, i):
    if accs[i] is not None:
      CmStateAdapter.fn(case).get_result(accs[i])
    return [], []

  @staticmethod
  def pub(st):
    return CmStateAdapter.arrays(st)

  @staticmethod
  def scalars(st):
    return []

  @staticmethod
  def reading(case, st):
    import numpy as np
    if st is None:
      return 'none'
    r = CmStateAdapter.fn(case).get_result(st)
    return {str(getattr(k, 'value', k)): canon(np.asarray(v, dtype=float)) for k, v in r.items()}

  @staticmethod
  def counts(case, batch):
    """the four count arrays of a batch by the textbook definition (independent of the code)."""
    yt, yp = batch['yt'], batch['yp']
    per = []
    for c in ([1] if case['mode'] == 'binary' else CmStateAdapter.CLASSES):
      tp = sum(1 for t, p in zip(yt, yp) if t == c and p == c)
      fp = sum(1 for t, p in zip(yt, yp) if t != c and p == c)
      fn = sum(1 for t, p in zip(yt, yp) if t == c and p != c)
      per.append((tp, len(yt) - tp - fp - fn, fp, fn))
    if case['mode'] == 'micro':
      per = [tuple(sum(x[k] for x in per) for k in range(4))]
    return [[x[k] for x in per] for k in range(4)]

  @staticmethod
  def request(case):
    prog = [dict(op, batch={'cm': CmStateAdapter.counts(case, op['batch'])}) if op['op'] == 'add' else op
            for op in case['prog']]
    return dict(model='aggobs', cls='cmstate', prog=prog)

  class Sim:
    def __init__(self, cfg):
      self.live = []
    def make(self): self.live.append(False)
    def add(self, i, ok=True):
      n = 4 if self.live[i] else 0
      self.live[i] = True
      return n
    def merge(self, i, j): self.live[i] = self.live[i] or self.live[j]
    def merge_states(self, ids):
      if ids:
        self.live[ids[0]] = any(self.live[i] for i in ids)
    def result(self, i): return 0

  @staticmethod
  def fixed_cfg():
    return dict(mode='macro')

  @staticmethod
  def gen_cfg(rng):
    return dict(mode=rng.choice(['binary', 'macro', 'micro']))

  @staticmethod
  def gen_batch(rng, cfg, malformed=False):
    n = rng.choice([1, 2, 3, 4])
    labs = [0, 1] if cfg['mode'] == 'binary' else CmStateAdapter.CLASSES
    return {'yt': [rng.choice(labs) for _ in range(n)], 'yp': [rng.choice(labs) for _ in range(n)]}


class HistAdapter:
  """Histogram(range=(0, nb), bins=nb): add returns the batch Histogram, result() a HistogramResult of copies."""
  name = 'hist'

  @staticmethod
  def make(case):
    from ml_metrics._src.aggregates import rolling_stats as RS
    return RS.Histogram(range=(0, case['bins']), bins=case['bins'])

  @staticmethod
  def batch_args(batch):
    import numpy as np
    return [np.asarray([_fl(x) for x in batch], dtype=float)]

  @staticmethod
  def do_add(case, accs, i, args):
    b = accs[i].add(*args)
    return [b.hist, b.bin_edges], []

  @staticmethod
  def do_merge(case, accs, i, j):
    accs[i].merge(accs[j])

  @staticmethod
  def agg_fn(case):
    return HistAdapter.make(case).as_agg_fn()

  @staticmethod
  def do_result(case, accs, i):
    r = accs[i].result()
    return [r.hist, r.bin_edges], []

  @staticmethod
  def pub(acc):
    return [acc.hist, acc.bin_edges]

  @staticmethod
  def scalars(acc):
    return []

  @staticmethod
  def reading(case, acc):
    r = acc.result()
    return {'hist': canon(r.hist), 'bin_edges': canon(r.bin_edges)}

  @staticmethod
  def counts(case, batch):
    """textbook binning: nb unit bins over [0, nb], the last one closed on the right; values outside are dropped."""
    nb = case['bins']
    out = [0] * nb
    for x in batch:
      v = _fl(x)
      if 0 <= v <= nb:
        out[min(int(v), nb - 1)] += 1
    return out

  @staticmethod
  def request(case):
    prog = [dict(op, batch={'counts': HistAdapter.counts(case, op['batch'])}) if op['op'] == 'add' else op
            for op in case['prog']]
    return dict(model='aggobs', cls='hist', edges=list(range(case['bins'] + 1)), prog=prog)

  class Sim:
    def __init__(self, cfg): pass
    def make(self): pass
    def add(self, i, ok=True): return 2
    def merge(self, i, j): pass
    def merge_states(self, ids): pass
    def result(self, i): return 2

  @staticmethod
  def fixed_cfg():
    return dict(bins=3)

  @staticmethod
  def gen_cfg(rng):
    return dict(bins=rng.choice([1, 2, 4]))

  @staticmethod
  def gen_batch(rng, cfg, malformed=False):
    out = []
    for _ in range(rng.choice([0, 1, 2, 3, 5])):
      f = Fraction(rng.randrange(-2, 4 * cfg['bins'] + 3), 4)
      out.append({'n': f.numerator, 'd': f.denominator})
    return out


ADAPTERS = {a.name: a for a in (ThrAdapter, CmStateAdapter, HistAdapter)}


# ============================================================================ real code

def _same(a, b):
  import numpy as np
  if a is b:
    return True
  if isinstance(a, np.ndarray) and isinstance(b, np.ndarray):
    return bool(np.shares_memory(a, b))
  return False


def _classes(arrays):
  """canonical partition: class index (by first occurrence) of every array."""
  parent = list(range(len(arrays)))

  def find(i):
    while parent[i] != i:
      parent[i] = parent[parent[i]]
      i = parent[i]
    return i
  for i in range(len(arrays)):
    for j in range(i):
      if _same(arrays[i], arrays[j]):
        parent[find(i)] = find(j)
  ids, out = {}, []
  for i in range(len(arrays)):
    out.append(ids.setdefault(find(i), len(ids)))
  return out


def _canon_ids(ids):
  m, out = {}, []
  for r in ids:
    out.append(m.setdefault(r, len(m)))
  return out


def run_impl(case):
  _quiet()
  import numpy as np
  ad = ADAPTERS[case['cls']]
  accs, outs, obs = [], [], []       # outs: (priv arrays, exposed arrays)
  for op in case['prog']:
    err, inputs_ok = None, True
    try:
      k = op['op']
      if k == 'make':
        accs.append(ad.make(case))
      elif k == 'add':
        args = ad.batch_args(op['batch'])
        before = copy.deepcopy(args)
        try:
          outs.append(ad.do_add(case, accs, op['acc'], args))
        except Exception:
          outs.append(([], []))
          raise
        finally:
          inputs_ok = deep_close(canon(before), canon(args))
      elif k == 'merge':
        ad.do_merge(case, accs, op['acc'], op['other'])
      elif k == 'merge_states':
        from harness.lib_states import pack
        ids = op['accs']
        st = ad.agg_fn(case).merge_states(pack([accs[i] for i in ids], op.get('container')))
        if ids:
          accs[ids[0]] = st          # what the caller goes on with
        elif st is not None:
          raise AssertionError('merge_states([]) returned an object')
      elif k == 'result':
        outs.append(ad.do_result(case, accs, op['acc']))
      elif k == 'poke':
        outs[op['out']][0][op['arr']][...] = op['val']
      else:
        raise AssertionError(k)
    except Exception as e:  # pylint: disable=broad-except
      err = err_kind(e)
    arrays, shape = [], {'accs': [], 'outs': []}
    for a in accs:
      p = ad.pub(a)
      shape['accs'].append(len(p))
      arrays += p
    for priv, exp in outs:
      shape['outs'].append(len(priv) + len(exp))
      arrays += priv + exp
    obs.append({
        'classes': _classes(arrays), 'shape': shape,
        'vals': [canon(np.asarray(a, dtype=float).reshape(-1)) for a in arrays],
        'scalars': [canon(ad.scalars(a)) for a in accs],
        'err': err,
        # for the oracle only (not compared with the model):
        'readings': [ad.reading(case, a) for a in accs],
        'inputs_ok': inputs_ok,
    })
  return obs


# ============================================================================ model side

def model_requests(case):
  return [ADAPTERS[case['cls']].request(case)]


ERR_NAMES = {'assertion': 'AssertionError', 'value': 'ValueError', 'type': 'TypeError', 'key': 'KeyError',
             'index': 'IndexError'}


def model_obs(case, resps):
  out = []
  for o in resps[0]['obs']:
    refs = [r for acc in o['refs']['accs'] for r in acc] + [r for ou in o['refs']['outs'] for r in ou]
    vals = [v for acc in o['vals']['accs'] for v in acc] + [v for ou in o['vals']['outs'] for v in ou]
    out.append({'classes': _canon_ids(refs),
                'shape': {'accs': [len(a) for a in o['refs']['accs']], 'outs': [len(a) for a in o['refs']['outs']]},
                'vals': vals, 'scalars': o['vals']['scalars'],
                'err': None if o['err'] is None else ERR_NAMES.get(o['err'].lower(), o['err'])})
  return out


def compare(impl_obs, mobs):
  if len(impl_obs) != len(mobs):
    return f'{len(impl_obs)} observations vs {len(mobs)} predicted'
  for t, (a, b) in enumerate(zip(impl_obs, mobs)):
    if a['err'] != b['err']:
      return f'op {t}: the code raised {a["err"]}, the model predicts {b["err"]}'
    if a['shape'] != b['shape']:
      return f'op {t}: number of arrays differs: {a["shape"]} vs {b["shape"]}'
    if a['classes'] != b['classes']:
      return (f'op {t}: sharing pattern of the public / returned arrays differs from the heap model: '
              f'{a["classes"]} vs predicted {b["classes"]}')
    if not deep_close(a['vals'], b['vals'], rel=1e-6, abs_=1e-9):
      return f'op {t}: array contents differ from the heap model'
    if not deep_close(a['scalars'], b['scalars']):
      return f'op {t}: scalar fields differ from the heap model'
  return None


# ============================================================================ the property on the real code

def oracle(case, obs):
  """From the English statement (not from the model):
  * merge / add only ever modify their receiver: what every OTHER accumulator reports (result()) is the same before and
    after, and every value handed out earlier (a batch object returned by add, a result) still has the content it had;
  * reading a result is repeatable and disturbs nothing: a `result` op, and the caller overwriting arrays of values it was
    handed (batch objects / result arrays other than the configuration entry 'thresholds'), change what NO accumulator
    reports; the value a `result` op returned is what the accumulator reports;
  * add never writes into the arrays the caller passed in; an op that raises leaves everything as it was."""
  prev = None
  for t, (op, o) in enumerate(zip(case['prog'], obs)):
    k = op['op']
    if not o['inputs_ok']:
      return f'op {t} (add): the arrays passed to add() were modified'
    recv = op.get('acc') if k in ('add', 'merge') and o['err'] is None else None
    if k == 'merge_states' and op['accs'] and o['err'] is None:
      recv = op['accs'][0]         # "Only the first state may be modified" (base.py:130)
    if prev is not None:
      for a, (r0, r1) in enumerate(zip(prev['readings'], o['readings'])):
        if a != recv and not deep_close(r0, r1, rel=1e-9, abs_=1e-12):
          what = 'raised but' if o['err'] else ''
          return (f'op {t} ({k}{" " + what if what else ""}) changed what accumulator {a} reports although it is not the '
                  f'receiver: {r0} -> {r1}')
      # values handed out earlier: the arrays of outs come after the accumulators' public arrays
      n_pub0, n_pub1 = sum(prev['shape']['accs']), sum(o['shape']['accs'])
      held0 = prev['vals'][n_pub0:]
      held1 = o['vals'][n_pub1:n_pub1 + len(held0)]
      poked = None
      if k == 'poke':
        poked = sum(prev['shape']['outs'][:op['out']]) + op['arr']
      for i, (v0, v1) in enumerate(zip(held0, held1)):
        if i != poked and not deep_close(v0, v1, rel=1e-9, abs_=1e-12):
          return f'op {t} ({k}) changed a value that had been returned to the caller earlier (array {i}): {v0} -> {v1}'
    prev = o
  return None


def nontrivial(case, obs):
  ks = [op['op'] for op in case['prog']]
  return ('merge' in ks or 'merge_states' in ks) and ('result' in ks or 'poke' in ks)


def finding(case, what):
  return None      # F-C11-cm-merge-first-none is fixed: nothing is suppressed


# ============================================================================ generators

def _random_prog(rng, ad, cfg, n_ops, malformed):
  prog, n_acc, outs = [], 0, []        # outs: number of private arrays of each returned value
  sim = ad.Sim(cfg)
  for _ in range(rng.randrange(2, 4)):
    prog.append({'op': 'make'})
    sim.make()
    n_acc += 1
  bad_at = rng.randrange(n_ops) if malformed else -1
  for t in range(n_ops):
    c = rng.random()
    if t == bad_at:
      i = rng.randrange(n_acc)
      prog.append({'op': 'add', 'acc': i, 'batch': ad.gen_batch(rng, cfg, malformed=True)})
      outs.append(sim.add(i, ok=False))
    elif c < 0.3:
      i = rng.randrange(n_acc)
      prog.append({'op': 'add', 'acc': i, 'batch': ad.gen_batch(rng, cfg)})
      outs.append(sim.add(i))
    elif c < 0.55:
      i = rng.randrange(n_acc)
      j = rng.choice([x for x in range(n_acc) if x != i])
      prog.append({'op': 'merge', 'acc': i, 'other': j})
      sim.merge(i, j)
    elif c < 0.75:
      i = rng.randrange(n_acc)
      prog.append({'op': 'result', 'acc': i})
      outs.append(sim.result(i))
    elif c < 0.95 and any(outs):
      k = rng.choice([i for i, n in enumerate(outs) if n])
      prog.append({'op': 'poke', 'out': k, 'arr': rng.randrange(outs[k]), 'val': rng.choice([0, 1, 5, 7])})
    else:
      prog.append({'op': 'make'})
      sim.make()
      n_acc += 1
  return prog


def _ms_prog(rng, ad, cfg, n, where, container, bystander):
  """ONE merge_states call over n states (work package SC11): n accumulators, each fed 0-2 batches (the ones at the list
  positions `where` never updated), some results read before, the list in any order (optionally one state left out),
  then a result of EVERY state, a caller write into an array handed out before the call, and later updates on either
  side.  The readings of all accumulators and the content of all returned arrays are observed after every operation."""
  sim = ad.Sim(cfg)
  prog, outs = [], []

  def emit(op):
    prog.append(op)
    k = op['op']
    if k == 'make':
      sim.make()
    elif k == 'add':
      outs.append(sim.add(op['acc']))
    elif k == 'merge_states':
      sim.merge_states(op['accs'])
    elif k == 'result':
      outs.append(sim.result(op['acc']))
  for _ in range(n):
    emit({'op': 'make'})
  order = list(range(n))
  if rng.random() < 0.5:
    rng.shuffle(order)
  if bystander and n >= 3:
    order.remove(rng.choice(order))
  unfed = set()
  if order:
    if 'first' in where:
      unfed.add(order[0])
    if 'last' in where and len(order) > 1:
      unfed.add(order[-1])
    if 'middle' in where and len(order) > 2:
      unfed.add(order[rng.randrange(1, len(order) - 1)])
  for i in range(n):
    if i not in unfed:
      for _ in range(2 if rng.random() < 0.3 else 1):
        emit({'op': 'add', 'acc': i, 'batch': ad.gen_batch(rng, cfg)})
  for i in range(n):
    if rng.random() < 0.3:
      emit({'op': 'result', 'acc': i})
  emit({'op': 'merge_states', 'accs': order, 'container': container})
  for i in range(n):
    emit({'op': 'result', 'acc': i})
  live = [k for k, m in enumerate(outs) if m]
  if live and rng.random() < 0.6:
    k = rng.choice(live)
    emit({'op': 'poke', 'out': k, 'arr': rng.randrange(outs[k]), 'val': rng.choice([0, 5, 7])})
  others = [i for i in range(n) if not order or i != order[0]]
  if order and others and rng.random() < 0.7:
    emit({'op': 'add', 'acc': rng.choice(others), 'batch': ad.gen_batch(rng, cfg)})
    emit({'op': 'add', 'acc': order[0], 'batch': ad.gen_batch(rng, cfg)})
    if rng.random() < 0.5:     # a second call with the (already merged) first state first again
      emit({'op': 'merge_states', 'accs': order[:1] + [i for i in others if i in order][:3], 'container': container})
  return prog, order, unfed


MS_WHERE = [(), ('first',), ('middle',), ('last',), ('first', 'last'), ()]


def gen_cases(ctx):
  import random
  from harness.lib_states import KINDS as CONTAINERS
  rng = ctx.rng
  for c in ctx.corpus('C11_heapobs'):
    ctx.count('heapobs:source', 'corpus')
    yield c
  # merge_states over MANY states: every class x every n = 0..9 (x 2 rounds quick, x 40 thorough)
  t = 0
  for ad in ADAPTERS.values():
    for rnd in range(2 if ctx.quick else 40):
      for n in range(0, 10):
        cfg = ad.gen_cfg(rng) if rnd else ad.fixed_cfg()
        where, container = MS_WHERE[t % len(MS_WHERE)], CONTAINERS[t % len(CONTAINERS)]
        prog, order, unfed = _ms_prog(rng, ad, cfg, n, where, container, bystander=(t % 4 == 3))
        t += 1
        ctx.count('heapobs:source', 'merge_states')
        ctx.count('heapobs:class', ad.name)
        ctx.count(f'heapobs:merge_states n/{ad.name}', n)
        ctx.count('heapobs:merge_states container', container)
        ctx.count('heapobs:merge_states list length', len(order))
        for w in where:
          if (w == 'first' and order) or (w == 'last' and len(order) > 1) or (w == 'middle' and len(order) > 2):
            ctx.count('heapobs:merge_states never-updated state', w)
        if len(order) < n:
          ctx.count('heapobs:merge_states never-updated state', 'bystander outside the list')
        for op in prog:
          ctx.count('heapobs:op', op['op'])
        yield dict(cls=ad.name, prog=prog, **cfg)
  for ad in ADAPTERS.values():
    # small-exhaustive: every sequence of 3 operations from a fixed alphabet after a fixed prefix
    # (three accumulators: 0 and 1 updated once, 2 never updated)
    cfg = ad.fixed_cfg()
    b = lambda seed: (ad.gen_batch(random.Random(seed), cfg) or ad.gen_batch(random.Random(seed + 100), cfg)
                      or ad.gen_batch(random.Random(seed + 200), cfg))
    prefix = [{'op': 'make'}, {'op': 'make'}, {'op': 'make'}, {'op': 'add', 'acc': 0, 'batch': b(1)},
              {'op': 'add', 'acc': 1, 'batch': b(2)}]
    alphabet = [{'op': 'add', 'acc': 0, 'batch': b(3)}, {'op': 'merge', 'acc': 0, 'other': 1}, {'op': 'merge', 'acc': 1, 'other': 0},
                {'op': 'merge', 'acc': 2, 'other': 1}, {'op': 'merge', 'acc': 2, 'other': 0},
                {'op': 'result', 'acc': 0}, {'op': 'result', 'acc': 1}, 'poke-last', 'poke-first']
    for seq in itertools.product(alphabet, repeat=3):
      sim = ad.Sim(cfg)
      prog, outs = [], []
      for op in prefix + list(seq):
        if isinstance(op, str):
          live = [k for k, n in enumerate(outs) if n]
          if not live:
            continue
          k = live[-1] if op == 'poke-last' else live[0]
          prog.append({'op': 'poke', 'out': k, 'arr': outs[k] - 1 if op == 'poke-last' else 0, 'val': 7})
          continue
        prog.append(op)
        if op['op'] == 'make':
          sim.make()
        elif op['op'] == 'add':
          outs.append(sim.add(op['acc']))
        elif op['op'] == 'merge':
          sim.merge(op['acc'], op['other'])
        elif op['op'] == 'result':
          outs.append(sim.result(op['acc']))
      ctx.count('heapobs:source', 'exhaustive')
      ctx.count('heapobs:class', ad.name)
      yield dict(cls=ad.name, prog=prog, **cfg)
    n = 200 if ctx.quick else 8000
    for i in range(n):
      cfg = ad.gen_cfg(rng)
      malformed = ad is ThrAdapter and rng.random() < 0.1
      prog = _random_prog(rng, ad, cfg, rng.randrange(4, 13), malformed)
      ctx.count('heapobs:source', 'malformed' if malformed else 'random')
      ctx.count('heapobs:class', ad.name)
      for op in prog:
        ctx.count('heapobs:op', op['op'])
      yield dict(cls=ad.name, prog=prog, **cfg)


def neighbours(case, rng):
  """failing-input search: drop one operation / cut the program (indices stay valid only for some; invalid ones are skipped)."""
  prog = case['prog']
  for cut in range(len(prog) - 1, 1, -1):
    yield dict(case, prog=prog[:cut])


def shrink(case, fails):
  prog = list(case['prog'])
  # shortest failing prefix
  for cut in range(1, len(prog) + 1):
    c = dict(case, prog=prog[:cut])
    try:
      if fails(c):
        return c
    except Exception:  # pylint: disable=broad-except
      pass
  return None


class C11:
  LEAN_MODULES = ['MlModel.Properties.C11.RetrievalThrHeap', 'MlModel.Properties.C11.ClassificationStateHeap',
                  'MlModel.Properties.C11.RollingHistHeap', 'MlModel.Properties.C11.MergeStates',
                  'MlModel.Properties.C11.ClassificationMergeStates',
                  'MlModel.Witness.C11MergeStates']
  TRUSTED = TRUSTED
  ASSUMPTIONS = ASSUMPTIONS
  RULE = ('heapobs [ThresholdedRetrieval; ConfusionMatrixAggFn state API (binary / macro / micro, explicit vocabulary); Histogram (unit bins)]: programs '
          'of make / add / merge / merge_states / result / poke (the caller overwrites an array of a value it was handed: a batch object, a '
          'result array, the previous state object of update_state) over 2-5 accumulators: corpus, then ONE merge_states call '
          'over n = 0..9 states per class (never-updated states first / middle / last, any order, bystander, container list / '
          'tuple / generator / iterator / deque; a result of every state afterwards, a caller write, later updates on either '
          'side; arms enforced), then every sequence of 3 '
          'operations from a 9-letter alphabet after a fixed prefix (two updated accumulators and a never-updated one), then '
          'random programs of 4-12 operations (ThresholdedRetrieval: 10% with an add the matcher rejects); after EVERY '
          'operation the partition of all public and returned arrays into same-memory classes and their contents are '
          'compared with the heap model; non-trivial = contains a merge and a result or poke; distinct = distinct canonical '
          'case JSON')
  gen_cases = staticmethod(gen_cases)

  @staticmethod
  def extra(ctx):
    from harness.core import InfraError
    from harness.lib_states import KINDS as CONTAINERS
    missing = []
    for ad in ADAPTERS:
      got = ctx.hist.get(f'heapobs:merge_states n/{ad}', {})
      missing += [f'{ad}: merge_states over {n} states' for n in range(10) if not got.get(str(n))]
    got = ctx.hist.get('heapobs:merge_states container', {})
    missing += [f'container {c}' for c in CONTAINERS if not got.get(c)]
    got = ctx.hist.get('heapobs:merge_states never-updated state', {})
    missing += [f'never-updated state {w}' for w in ('first', 'middle', 'last', 'bystander outside the list') if not got.get(w)]
    if missing:
      raise InfraError(f'heapobs: generator missed promised arms {missing}')

  run_impl = staticmethod(run_impl)
  model_requests = staticmethod(model_requests)
  model_obs = staticmethod(model_obs)
  oracle = staticmethod(oracle)
  nontrivial = staticmethod(nontrivial)
  finding = staticmethod(finding)
  compare = staticmethod(compare)
  neighbours = staticmethod(neighbours)
  shrink = staticmethod(shrink)


CHECKS = {'C11': C11}
