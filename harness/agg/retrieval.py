"""Metric family "retrieval": sub-checks of C01, C11 and C07.

Real code (entered through the public classes / functions):
  ml_metrics._src.aggregates.retrieval.TopKRetrieval(k_list=, metrics=, input_type=)  .add/.merge/.result
  TopKRetrieval(...).as_agg_fn()  create_state/update_state/merge_states/get_result/__call__
  ml_metrics._src.metrics.retrieval.<metric>(y_true, y_pred, k_list, input_type), topk_retrieval_metrics(...)
  ml_metrics._src.aggregates.retrieval.ThresholdedRetrieval(thresholds=, metrics=)      .add/.merge/.result
  ml_metrics._src.aggregates.utils.MeanState / TupleMeanState                           .add/.merge/.result/__call__
Models: lean/MlModel/Model/Agg/Retrieval.lean, RetrievalThr.lean (driver: lean/Driver/AggRetrieval.lean);
independent definitions: lean/MlModel/Model/Spec/Retrieval.lean; theorems: Properties/C01|C11|C07/Retrieval.lean.

One case = an *operation program* over numbered accumulators that both the real objects and the Lean model execute:
  ["new", i]  ["add", i, batch]  ["merge", i, j]  ["merge_states", [i, j, ...]]  ["result", i]  ["call", batch]
  ["fn", metric_name, batch]   (one-shot function API)
Every add / result / call / fn produces one observation.  A case also carries what the property oracle needs:
  eq     : pairs of observation indices whose results must be equal (sharded vs single batch, (a+b)+c vs a+(b+c), ...)
  layout : for C01 row independence: [[obs index of an add, [dataset row ids]], ...] and solo: obs index per dataset row
  spec   : observation indices whose value must equal the textbook definition over `spec_rows`
Case kinds: topk | thr | mean | tuplemean.
"""
import copy
import itertools
import math
import warnings
from fractions import Fraction

from harness.core import canon, deep_close, err_kind

METRICS = ['accuracy', 'precision', 'ppv', 'recall', 'sensitivity', 'tpr', 'positive_predictive_value',
           'intersection_over_union', 'f1_score', 'mean_average_precision', 'mean_reciprocal_rank', 'miss_rate',
           'false_discovery_rate', 'threat_score', 'fowlkes_mallows_index', 'dcg_score', 'ndcg_score']
FN_API = {m: m for m in METRICS}       # ml_metrics._src.metrics.retrieval.<name>
THR_KINDS = ['precision', 'recall', 'f1_score']

TRUSTED = [
    'retrieval family: modelled, not verified: numpy cumsum / take_along_axis / broadcasting / argmax / where / interp, '
    'Python sum() and `in` on lists (their list semantics are written out in Model/Agg/Retrieval*.lean); labels are '
    'ints in the sample',
    'retrieval family: sqrt (Fowlkes-Mallows) and 1/log2(rank+1) (DCG/NDCG) are symbolic terms in the model; the '
    'harness evaluates them in float64 and compares with relative tolerance 1e-9',
]
ASSUMPTIONS = [
    'retrieval family: a ranking lists distinct items and a label set has no duplicates (the theorems that use set '
    'notions carry `Nodup`; the code counts duplicates twice: recall 2.0 for y_pred=[a,a], y_true=[a]); every k >= 1',
    'retrieval family: ThresholdedRetrieval probabilities and thresholds are non-negative and exactly representable in '
    'float32 (dyadic) in the sample; the code stores thresholds and matched probabilities as float32',
]


# ============================================================================ independent textbook definitions

NAN = float('nan')


def _div(a, b):
  """numpy true division of finite numbers (0/0 = NaN)."""
  if isinstance(a, float) and math.isnan(a) or isinstance(b, float) and math.isnan(b):
    return NAN
  if b == 0:
    return NAN if a == 0 else math.copysign(math.inf, a)
  return Fraction(a) / Fraction(b)


def _isnan(x):
  return isinstance(x, float) and math.isnan(x)


def _g(rank):
  return 1.0 / math.log2(rank + 1)


def spec_row(metric, y_true, y_pred, k):
  """Textbook value of `metric`@k for one example (ranking y_pred, relevant set y_true), as float/Fraction/NaN."""
  top = y_pred[:k]
  rel = [p in y_true for p in top]                 # binary relevance of the retrieved items
  tp = sum(rel)                                    # |top_k ∩ true|
  n_ret = min(k, len(y_pred))                      # number of retrieved items
  n_true = len(y_true)
  precision = _div(tp, n_ret)
  recall = _div(tp, n_true)
  if metric in ('precision', 'ppv', 'positive_predictive_value'):
    return precision
  if metric in ('recall', 'sensitivity', 'tpr'):
    return recall
  if metric == 'accuracy':
    return 1 if tp > 0 else 0
  if metric == 'intersection_over_union':
    return _div(tp, n_ret + n_true - tp)           # |∩| / |∪|
  if metric == 'f1_score':
    if _isnan(precision) or _isnan(recall):
      return NAN
    return 0 if precision + recall == 0 else 2 * precision * recall / (precision + recall)
  if metric == 'miss_rate':
    return NAN if _isnan(recall) else 1 - recall
  if metric == 'false_discovery_rate':
    return NAN if _isnan(precision) else 1 - precision
  if metric == 'threat_score':
    # TP / (TP + FN + FP) where all k retrieved slots that are not hits count as false positives
    return _div(tp, tp + (n_true - tp) + (k - tp))
  if metric == 'fowlkes_mallows_index':
    if _isnan(precision) or _isnan(recall):
      return NAN
    return math.sqrt(precision * recall)
  if metric == 'mean_average_precision':
    s = Fraction(0)
    for i, r in enumerate(rel, start=1):
      if r:
        s += Fraction(sum(rel[:i]), i)             # precision at the rank of every relevant retrieved item
    return _div(s, min(k, n_true))
  if metric == 'mean_reciprocal_rank':
    for i, r in enumerate(rel, start=1):
      if r:
        return Fraction(1, i)
    return 0
  if metric == 'dcg_score':
    return sum(_g(i) for i, r in enumerate(rel, start=1) if r)
  if metric == 'ndcg_score':
    ideal = sum(_g(i) for i in range(1, min(k, n_true) + 1))
    dcg = sum(_g(i) for i, r in enumerate(rel, start=1) if r)
    return NAN if ideal == 0 else dcg / ideal
  raise ValueError(metric)


def spec_rows_of(cfg, batch):
  """[(y_true, y_pred, ks)] for a batch under the documented conventions of k_list / input_type."""
  rows = [([t], [p]) for t, p in batch] if cfg['multiclass'] else [(list(t), list(p)) for t, p in batch]
  out = []
  for t, p in rows:
    if cfg['k_list']:
      ks = [min(k, 1) for k in cfg['k_list']] if cfg['multiclass'] else list(cfg['k_list'])
    else:
      ks = [max(len(p), 1)]           # "None means consider all outputs in the prediction"
    out.append((t, p, ks))
  return out


def spec_result(cfg, batch):
  """Textbook result of the metric over a dataset: mean over the examples of the per-example value."""
  rows = spec_rows_of(cfg, batch)
  res = {}
  for m in cfg['metrics']:
    if not rows:
      res[m] = {'scalar': 0}
      continue
    nk = len(rows[0][2])
    vec = []
    for j in range(nk):
      vals = [spec_row(m, t, p, ks[j]) for t, p, ks in rows]
      vec.append(NAN if any(_isnan(v) for v in vals) else float(sum(float(v) for v in vals) / len(vals)))
    res[m] = vec
  return res


def spec_row_values(cfg, batch):
  rows = spec_rows_of(cfg, batch)
  return {m: [[_f(spec_row(m, t, p, k)) for k in ks] for t, p, ks in rows] for m in cfg['metrics']}


def _f(x):
  return x if isinstance(x, float) else float(x)


def thr_spec(thresholds, rows):
  """Pooled (micro) precision/recall/F1 at every threshold, from the raw rows (probabilities >= 0)."""
  ts = sorted(thresholds)
  out = {'precision': [], 'recall': [], 'f1_score': []}
  for t in ts:
    tp_pred = p_pred = tp_true = p_true = 0
    for y_true, y_pred, prob in rows:
      prob = prob if prob is not None else [1] * len(y_pred)
      scored = list(zip(y_pred, prob))
      p_pred += sum(1 for q in prob if q > t)                         # predicted positives
      tp_pred += sum(1 for x, q in scored if q > t and x in y_true)   # of which relevant
      p_true += len(y_true)                                           # relevant items
      tp_true += sum(1 for x in y_true if any(y == x and q > t for y, q in scored))   # of which retrieved
    p = Fraction(tp_pred, p_pred) if p_pred else Fraction(0)
    r = Fraction(tp_true, p_true) if p_true else Fraction(0)
    out['precision'].append(float(p))
    out['recall'].append(float(r))
    out['f1_score'].append(float(2 * p * r / (p + r)) if p + r else 0.0)
  return ts, out


# ============================================================================ real code

def _quiet():
  warnings.simplefilter('ignore')
  import numpy as np
  np.seterr(all='ignore')


def _xy(cfg, batch):
  if cfg['multiclass']:
    return [t for t, _ in batch], [p for _, p in batch]
  return [list(t) for t, _ in batch], [list(p) for _, p in batch]


def _res_obs(res, metrics):
  """TopKRetrieval.result() -> {metric: [floats] | {'scalar': x}}"""
  import numpy as np
  out = {}
  items = res.items() if isinstance(res, dict) else [(metrics[0], res)]
  for k, v in items:
    a = np.asarray(v)
    out[str(k)] = {'scalar': canon(float(a))} if a.ndim == 0 else canon(a.astype(float))
  return out


def _rows_obs(ret):
  import numpy as np
  out = {}
  for k, v in ret.items():
    k = 'mean_reciprocal_rank' if k == 'reciprocal_ranks' else str(k)
    out[k] = canon(np.asarray(v, dtype=float))
  return out


def run_topk(case):
  _quiet()
  from ml_metrics._src.aggregates import retrieval as R
  from ml_metrics._src.metrics import retrieval as F
  cfg, api = case['cfg'], case.get('api', 'object')
  it = 'multiclass' if cfg['multiclass'] else 'multiclass-multioutput'
  kw = dict(metrics=list(cfg['metrics']), k_list=cfg['k_list'], input_type=it)
  obs, accs = [], {}
  try:
    aggfn = R.TopKRetrieval(**kw).as_agg_fn()
  except Exception as e:  # pylint: disable=broad-except
    return [{'err': err_kind(e), 'at': 'construct'}]
  for op in case['prog']:
    try:
      name = op[0]
      if name == 'new':
        accs[op[1]] = R.TopKRetrieval(**kw) if api == 'object' else aggfn.create_state()
      elif name == 'add':
        yt, yp = _xy(cfg, op[2])
        if api == 'object':
          obs.append({'rows': _rows_obs(accs[op[1]].add(yt, yp))})
        else:
          accs[op[1]] = aggfn.update_state(accs[op[1]], yt, yp)
          obs.append({'rows': None})
      elif name == 'merge':
        if api == 'object':
          accs[op[1]].merge(accs[op[2]])
        else:
          accs[op[1]] = aggfn.merge_states([accs[op[1]], accs[op[2]]])
      elif name == 'merge_states':
        from harness.lib_states import pack   # case['container']: list (default) / tuple / generator / ... (SC11)
        accs[op[1][0]] = aggfn.merge_states(pack([accs[i] for i in op[1]], case.get('container')))
      elif name == 'result':
        r = accs[op[1]].result() if api == 'object' else aggfn.get_result(accs[op[1]])
        obs.append({'result': _res_obs(r, cfg['metrics'])})
      elif name == 'call':
        obs.append({'result': _res_obs(aggfn(*_xy(cfg, op[1])), cfg['metrics'])})
      elif name == 'fn':
        yt, yp = _xy(cfg, op[2])
        if op[1] == '*':
          r = F.topk_retrieval_metrics(list(cfg['metrics']), y_true=yt, y_pred=yp, k_list=cfg['k_list'], input_type=it)
          obs.append({'result': _res_obs(r, cfg['metrics'])})
        else:
          r = getattr(F, FN_API[op[1]])(yt, yp, k_list=cfg['k_list'], input_type=it)
          obs.append({'result': _res_obs(r, [op[1]])})
      else:
        raise AssertionError(name)
    except Exception as e:  # pylint: disable=broad-except
      obs.append({'err': err_kind(e), 'op': name})
      break
  return obs


def _thr_metric_names(ms):
  return [k if t is None else f'{k}@{_fl(t)!r}' for k, t in ms]


def _fl(x):
  return x['n'] / x['d'] if isinstance(x, dict) else float(x)


def run_thr(case):
  _quiet()
  import numpy as np
  from ml_metrics._src.aggregates import retrieval as R
  ts = [_fl(t) for t in case['thresholds']]
  names = _thr_metric_names(case['metrics'])
  make = lambda: R.ThresholdedRetrieval(thresholds=tuple(ts), metrics=tuple(names))
  obs, accs = [], {}
  for op in case['prog']:
    try:
      name = op[0]
      if name == 'new':
        accs[op[1]] = make()
      elif name == 'add':
        rows = op[2]
        yt = [list(r[0]) for r in rows]
        yp = [list(r[1]) for r in rows]
        pr = None if any(r[2] is None for r in rows) or not rows else [[_fl(q) for q in r[2]] for r in rows]
        cm = accs[op[1]].add(yt, yp, pr)
        obs.append({'batch': {'tp_trues': canon(np.asarray(cm.tp_trues)), 'tp_preds': canon(np.asarray(cm.tp_preds)),
                              'p_trues': int(cm.p_trues), 'p_preds': canon(np.asarray(cm.p_preds))}})
      elif name == 'merge':
        accs[op[1]].merge(accs[op[2]])
      elif name == 'merge_states':    # ThresholdedRetrieval through base.as_agg_fn -> MergeableMetricAggFn (SC11)
        from ml_metrics._src.aggregates import base as B
        from harness.lib_states import pack
        fn = B.as_agg_fn(R.ThresholdedRetrieval, thresholds=tuple(ts), metrics=tuple(names))
        accs[op[1][0]] = fn.merge_states(pack([accs[i] for i in op[1]], case.get('container')))
      elif name == 'result':
        r = accs[op[1]].result()
        out = []
        for n in names:
          v = np.asarray(r[n], dtype=float)
          out.append(canon(v) if v.ndim else canon(float(v)))
        obs.append({'result': out, 'thresholds': canon(np.asarray(r['thresholds'], dtype=float))})
      else:
        raise AssertionError(name)
    except Exception as e:  # pylint: disable=broad-except
      obs.append({'err': err_kind(e), 'op': name})
      break
  return obs


def _num(x):
  return NAN if x == 'nan' else _fl(x)


def run_mean(case):
  _quiet()
  from ml_metrics._src.aggregates import utils as U
  tup = case['kind'] == 'tuplemean'
  cls = U.TupleMeanState if tup else U.MeanState
  obs, accs = [], {}

  def args(b):
    return [[_num(x) for x in col] for col in b] if tup else [[_num(x) for x in b]]

  def res(r):
    return [canon(float(x)) for x in r] if tup else canon(float(r))
  for op in case['prog']:
    try:
      name = op[0]
      if name == 'new':
        accs[op[1]] = cls()
      elif name == 'add':
        b = accs[op[1]].add(*args(op[2]))
        if not tup:
          obs.append({'batch': [canon(float(b.total)), int(b.count)]})
      elif name == 'merge':
        accs[op[1]].merge(accs[op[2]])
      elif name == 'merge_states':    # MeanState / TupleMeanState through base.as_agg_fn (SC11)
        from ml_metrics._src.aggregates import base as B
        from harness.lib_states import pack
        accs[op[1][0]] = B.as_agg_fn(cls).merge_states(pack([accs[i] for i in op[1]], case.get('container')))
      elif name == 'result':
        obs.append({'result': res(accs[op[1]].result())})
      elif name == 'call':
        obs.append({'result': res(cls()(*args(op[1])))})
      else:
        raise AssertionError(name)
    except Exception as e:  # pylint: disable=broad-except
      obs.append({'err': err_kind(e), 'op': name})
      break
  return obs


def run_impl(case):
  k = case['kind']
  if k == 'topk':
    return run_topk(case)
  if k == 'thr':
    return run_thr(case)
  return run_mean(case)


# ============================================================================ model side

def model_requests(case):
  k = case['kind']
  if k == 'topk':
    reqs = []
    main = [op for op in case['prog'] if op[0] != 'fn']
    reqs.append(dict(model='aggretrieval', kind='topk', cfg=case['cfg'], prog=main))
    for op in case['prog']:
      if op[0] == 'fn':
        cfg = dict(case['cfg'])
        if op[1] != '*':
          cfg['metrics'] = [op[1]]
        reqs.append(dict(model='aggretrieval', kind='topk', cfg=cfg, prog=[['call', op[2]]]))
    return reqs
  if k == 'thr':
    return [dict(model='aggretrieval', kind='thr', thresholds=sorted(case['thresholds'], key=_fl),
                 metrics=case['metrics'], prog=case['prog'])]
  return [dict(model='aggretrieval', kind=k, prog=case['prog'])]


def _term(t):
  if 'sqrt' in t:
    return math.sqrt(_fl(t['sqrt']))
  if 'ndcg' in t:
    return sum(_g(r) for r in t['ndcg']) / sum(_g(r) for r in t['ideal'])
  return sum(_g(r) for r in t['dcg'])


def v_float(v):
  if v['q'] == 'nan':
    return NAN
  return _fl(v['q']) + sum(_term(t) for t in v['sym'])


def _mean_res(r):
  if r == 'scalar0':
    return {'scalar': 0}
  return canon([v_float(v) / r['count'] for v in r['total']])


def model_obs(case, resps):
  k = case['kind']
  if k == 'topk':
    main = iter(resps[0]['obs'])
    fns = iter(resps[1:])
    out = []
    api = case.get('api', 'object')
    n_obs = sum(1 for op in case['prog'] if op[0] in ('add', 'result', 'call', 'fn'))
    for op in case['prog']:
      if op[0] == 'fn':
        o = next(fns)['obs'][0]
      elif op[0] in ('add', 'result', 'call'):
        o = next(main)
      else:
        continue
      if 'rows' in o:
        out.append({'rows': None if api != 'object' else {m: canon([[v_float(v) for v in row] for row in rows]) for m, rows in o['rows']}})
      else:
        out.append({'result': {m: _mean_res(r) for m, r in o['result']}})
    return out
  if k == 'thr':
    out = []
    for o in resps[0]['obs']:
      if 'result' in o:
        res = [canon([_fl(x) for x in r]) if isinstance(r, list) else canon(_fl(r)) for r in o['result']]
        out.append({'result': res, 'thresholds': canon(sorted(_fl(t) for t in case['thresholds']))})
      else:
        out.append(o)
    return out
  out = []
  for o in resps[0]['obs']:
    if 'result' in o:
      r = o['result']
      out.append({'result': [canon(_num(x)) for x in r] if isinstance(r, list) else canon(_num(r))})
    elif 'batch' in o:
      out.append({'batch': [canon(_num(o['batch'][0])), o['batch'][1]]})
    else:
      out.append(o)
  return out


def compare(impl_obs, mobs):
  """Errors: only the error kind and the position are compared (the real code stops at the first error too)."""
  a = [{'err': o['err']} if 'err' in o else o for o in impl_obs]
  b = [{'err': o['err']} if 'err' in o else o for o in mobs]
  if any('err' in o and o.get('at') == 'construct' for o in impl_obs):
    return None          # construction errors are not modelled (oracle only)
  if len(a) != len(b):
    return f'{len(a)} observations vs {len(b)} predicted'
  for i, (x, y) in enumerate(zip(a, b)):
    if not deep_close(x, y, rel=1e-9, abs_=1e-12):
      return f'observation {i} differs'
  return None


# ============================================================================ generators

def rand_row(rng, alpha=6, max_true=4, max_pred=5, p_empty=0.08):
  items = list(range(alpha))
  nt = 0 if rng.random() < p_empty else rng.randrange(1, max_true + 1)
  np_ = 0 if rng.random() < p_empty else rng.randrange(1, max_pred + 1)
  return [sorted(rng.sample(items, min(nt, alpha))), rng.sample(items, min(np_, alpha))]


def rand_cfg(rng, multiclass=None):
  r = rng.random()
  if r < 0.25:
    ks = None
  elif r < 0.28:
    ks = []
  else:
    ks = [rng.randrange(1, 8) for _ in range(rng.randrange(1, 5))]
    if rng.random() < 0.6:
      ks = sorted(set(ks))
  ms = METRICS if rng.random() < 0.25 else rng.sample(METRICS, rng.randrange(1, 6))
  mc = (rng.random() < 0.15) if multiclass is None else multiclass
  return dict(k_list=ks, metrics=list(ms), multiclass=bool(mc))


def rand_batch(rng, cfg, n):
  if cfg['multiclass']:
    return [[rng.randrange(4), rng.randrange(4)] for _ in range(n)]
  return [rand_row(rng) for _ in range(n)]


def composition(rng, rows, max_shards=3, max_batches=3):
  """A random composition of `rows` (kept in order) into shards and of each shard into batches (empties allowed)."""
  n = len(rows)
  ids = list(range(n))
  ns = rng.randrange(1, max_shards + 1)
  cuts = sorted(rng.randrange(0, n + 1) for _ in range(ns - 1))
  shards = [ids[a:b] for a, b in zip([0] + cuts, cuts + [n])]
  out = []
  for sh in shards:
    nb = rng.randrange(0, max_batches + 1)
    if nb == 0:
      nb = 1 if sh else 0
    c2 = sorted(rng.randrange(0, len(sh) + 1) for _ in range(nb - 1))
    out.append([sh[a:b] for a, b in zip([0] + c2, c2 + [len(sh)])] if nb else [])
  return out


def topk_c01_case(rng, cfg, rows, api):
  comp = composition(rng, rows)
  prog, layout, n_obs = [], [], 0
  for s, batches in enumerate(comp):
    prog.append(['new', s])
    for ids in batches:
      prog.append(['add', s, [rows[i] for i in ids]])
      layout.append([n_obs, ids])
      n_obs += 1
  if api == 'aggfn' or rng.random() < 0.5:
    prog.append(['merge_states', list(range(len(comp)))])
  else:
    for s in range(1, len(comp)):
      prog.append(['merge', 0, s])
  prog.append(['result', 0])
  sharded = n_obs
  n_obs += 1
  R = len(comp)
  prog += [['new', R], ['add', R, rows], ['result', R]]
  layout.append([n_obs, list(range(len(rows)))])
  single = n_obs + 1
  n_obs += 2
  solo = []
  for i, r in enumerate(rows):
    prog += [['new', R + 1 + i], ['add', R + 1 + i, [r]]]
    solo.append(n_obs)
    n_obs += 1
  return dict(kind='topk', api=api, cfg=cfg, prog=prog, eq=[[sharded, single]], layout=layout, solo=solo,
              spec=[[single, rows]], shape=[[len(b) for b in sh] for sh in comp])


def gen_topk_c01(ctx):
  rng = ctx.rng
  # F4 witnesses first (DESIGN §7): ragged rankings split over batches
  cfg = dict(k_list=None, metrics=['mean_average_precision', 'ndcg_score', 'threat_score', 'precision'], multiclass=False)
  rows = [[[1], [1]], [[1, 2, 3], [3, 4, 1]]]
  for ks in (None, [1, 2, 3]):
    c = dict(cfg, k_list=ks)
    prog = [['new', 0], ['add', 0, rows[:1]], ['add', 0, rows[1:]], ['result', 0], ['new', 1], ['add', 1, rows], ['result', 1],
            ['new', 2], ['add', 2, rows[:1]], ['new', 3], ['add', 3, rows[1:]]]
    yield dict(kind='topk', api='object', cfg=c, prog=prog, eq=[[2, 4]], layout=[[0, [0]], [1, [1]], [3, [0, 1]]], solo=[5, 6],
               spec=[[4, rows]], shape=[[1, 1]])
  n = 250 if ctx.quick else 8000
  for _ in range(n):
    cfg = rand_cfg(rng)
    rows = rand_batch(rng, cfg, rng.choice([0, 1, 2, 2, 3, 4, 5, 6, 8]))
    yield topk_c01_case(rng, cfg, rows, rng.choice(['object', 'object', 'aggfn']))


def states_prog(acc0, batches_list):
  """ops that build, in accumulators acc0.., one state per element of batches_list (a list of batches)."""
  prog = []
  for i, batches in enumerate(batches_list):
    prog.append(['new', acc0 + i])
    for b in batches:
      prog.append(['add', acc0 + i, b])
  return prog


class ProgBuilder:
  """Builds a program out of fresh replicas of named states; counts observations."""

  def __init__(self, states, obs_ops=('add', 'result', 'call', 'fn')):
    self.states, self.prog, self.n_obs, self.next_acc, self.eq = states, [], 0, 0, []
    self.obs_ops = obs_ops

  def emit(self, op):
    self.prog.append(op)
    if op[0] in self.obs_ops:
      self.n_obs += 1
      return self.n_obs - 1
    return None

  def fresh(self, name=None):
    a = self.next_acc
    self.next_acc += 1
    self.emit(['new', a])
    for b in (self.states[name] if name is not None else []):
      self.emit(['add', a, b])
    return a

  def result(self, a):
    return self.emit(['result', a])


def c11_program(rng, states, extra, add_obs=True, blocks=None):
  """states: dict name -> list of batches; extra: two more batches for the leak probes."""
  pb = ProgBuilder(states, obs_ops=('add', 'result') if add_obs else ('result',))
  names = sorted(states)
  a, b, c = names[0], names[1 % len(names)], names[2 % len(names)]
  blocks = blocks or rng.sample(['assoc', 'comm', 'unit', 'operand', 'pure'], rng.randrange(2, 5))
  tags = []
  if 'assoc' in blocks:
    x, y, z = pb.fresh(a), pb.fresh(b), pb.fresh(c)
    pb.emit(['merge', x, y]); pb.emit(['merge', x, z]); r1 = pb.result(x)
    y2, z2, x2 = pb.fresh(b), pb.fresh(c), pb.fresh(a)
    pb.emit(['merge', y2, z2]); pb.emit(['merge', x2, y2]); r2 = pb.result(x2)
    pb.eq.append([r1, r2]); tags.append('assoc')
  if 'comm' in blocks:
    x, y = pb.fresh(a), pb.fresh(b)
    pb.emit(['merge', x, y]); r1 = pb.result(x)
    y2, x2 = pb.fresh(b), pb.fresh(a)
    pb.emit(['merge', y2, x2]); r2 = pb.result(y2)
    pb.eq.append([r1, r2]); tags.append('comm')
  if 'unit' in blocks:
    e, x = pb.fresh(None), pb.fresh(a)
    pb.emit(['merge', e, x]); r1 = pb.result(e)
    x2, e2 = pb.fresh(a), pb.fresh(None)
    pb.emit(['merge', x2, e2]); r2 = pb.result(x2)
    r3 = pb.result(pb.fresh(a))
    pb.eq += [[r1, r3], [r2, r3]]; tags.append('unit')
  if 'operand' in blocks:
    x, y = pb.fresh(a), pb.fresh(b)
    h0 = pb.result(y)
    pb.emit(['merge', x, y]); h1 = pb.result(y)
    pb.emit(['add', x, extra[0]]); h2 = pb.result(y)
    i0 = pb.result(x)
    pb.emit(['add', y, extra[1]]); i1 = pb.result(x)
    pb.eq += [[h0, h1], [h0, h2], [i0, i1]]; tags.append('operand')
  if 'pure' in blocks:
    x = pb.fresh(a)
    r1 = pb.result(x); r2 = pb.result(x)
    pb.emit(['add', x, extra[0]]); r3 = pb.result(x)
    w = pb.fresh(a); pb.emit(['add', w, extra[0]]); r4 = pb.result(w)
    y = pb.fresh(b); pb.emit(['merge', x, y]); r5 = pb.result(x)
    w2 = pb.fresh(a); pb.emit(['add', w2, extra[0]]); y2 = pb.fresh(b); pb.emit(['merge', w2, y2]); r6 = pb.result(w2)
    pb.eq += [[r1, r2], [r3, r4], [r5, r6]]; tags.append('pure')
  return pb.prog, pb.eq, tags


def gen_topk_c11(ctx):
  rng = ctx.rng
  n = 200 if ctx.quick else 6000
  for _ in range(n):
    cfg = rand_cfg(rng)
    states = {}
    for nm in 'abc':
      nb = rng.choice([0, 1, 1, 2])
      states[nm] = [rand_batch(rng, cfg, rng.choice([0, 1, 2, 3])) for _ in range(nb)]
    extra = [rand_batch(rng, cfg, rng.randrange(1, 3)) for _ in range(2)]
    prog, eq, tags = c11_program(rng, states, extra)
    yield dict(kind='topk', api=rng.choice(['object', 'object', 'aggfn']), cfg=cfg, prog=prog, eq=eq, blocks=tags)


def all_small_rows(alpha=3, max_pred=3):
  items = list(range(alpha))
  trues = [list(c) for n in range(alpha + 1) for c in itertools.combinations(items, n)]
  preds = [list(p) for n in range(max_pred + 1) for p in itertools.permutations(items, n)]
  return [[t, p] for t in trues for p in preds]


def topk_c07_case(cfg, rows, api='object', fns=()):
  prog = [['new', 0], ['add', 0, rows], ['result', 0], ['call', rows]]
  spec = [[1, rows], [2, rows]]
  eq = [[1, 2]]
  n = 3
  for f in fns:
    prog.append(['fn', f, rows])
    if f == '*':
      eq.append([1, n]); spec.append([n, rows])
    n += 1
  return dict(kind='topk', api=api, cfg=cfg, prog=prog, eq=eq, spec=spec, rowspec=[[0, rows]], fn_obs=[3 + i for i in range(len(fns))],
              fns=list(fns))


def gen_topk_c07(ctx):
  rng = ctx.rng
  # small-exhaustive: every (true set, ranking) over 3 items as a one-row batch, all metrics, k = 1..4 and None
  small = all_small_rows()
  full = dict(k_list=[1, 2, 3, 4], metrics=list(METRICS), multiclass=False)
  for i, r in enumerate(small):
    yield topk_c07_case(dict(full, k_list=[1, 2, 3, 4] if i % 3 else None), [r])
  # every pair of a short and a long ranking in one batch (the F4 shape), deterministic sub-sample
  for i in range(0, len(small), 7):
    for j in range(3, len(small), 11 if ctx.quick else 3):
      yield topk_c07_case(dict(full, k_list=[[1, 2, 3], None, [2, 5], [3, 1]][(i + j) % 4]), [small[i], small[j]])
  # multiclass: every label pair over 3 classes
  for t in range(3):
    for p in range(3):
      yield topk_c07_case(dict(k_list=[1, 2], metrics=list(METRICS), multiclass=True), [[t, p], [p, t], [2, 2]], fns=['*'])
  n = 350 if ctx.quick else 12000
  for _ in range(n):
    cfg = rand_cfg(rng)
    rows = rand_batch(rng, cfg, rng.choice([0, 1, 1, 2, 3, 4, 6]))
    fns = []
    if rng.random() < 0.5:
      fns = rng.sample(cfg['metrics'], min(len(cfg['metrics']), 2)) + (['*'] if rng.random() < 0.5 else [])
    yield topk_c07_case(cfg, rows, 'object', fns)


# ---- thresholded

def dy(rng, lo=0, hi=8, den=8):
  return {'n': rng.randrange(lo, hi + 1), 'd': den}


def norm(x):
  f = Fraction(x['n'], x['d'])
  return {'n': f.numerator, 'd': f.denominator}


def rand_thr_row(rng, with_prob):
  t, p = rand_row(rng, p_empty=0.1)
  return [t, p, [norm(dy(rng)) for _ in p] if with_prob else None]


def rand_thr_cfg(rng):
  ts = sorted({Fraction(rng.randrange(0, 8), 8) for _ in range(rng.randrange(1, 4))})
  thresholds = [{'n': f.numerator, 'd': f.denominator} for f in ts]
  if rng.random() < 0.3:
    rng.shuffle(thresholds)
  ms = [[k, None] for k in rng.sample(THR_KINDS, rng.randrange(1, 4))]
  for _ in range(rng.randrange(0, 3)):
    if rng.random() < 0.6:
      t = rng.choice(thresholds)
    else:
      t = norm({'n': rng.randrange(0, 17), 'd': 16})
    ms.append([rng.choice(THR_KINDS), t])
  return thresholds, ms


def gen_thr(ctx, what):
  rng = ctx.rng
  n = {'C01': 120, 'C11': 120, 'C07': 160}[what] * (1 if ctx.quick else 30)
  for _ in range(n):
    thresholds, ms = rand_thr_cfg(rng)
    with_prob = rng.random() < 0.8
    mk = lambda k: [rand_thr_row(rng, with_prob) for _ in range(k)]
    base = dict(kind='thr', thresholds=thresholds, metrics=ms)
    if what == 'C07':
      rows = mk(rng.choice([0, 1, 2, 3, 5]))
      yield dict(base, prog=[['new', 0], ['add', 0, rows], ['result', 0]], eq=[], spec=[[1, rows]])
    elif what == 'C01':
      rows = mk(rng.choice([0, 1, 2, 3, 4, 6]))
      comp = composition(rng, rows)
      prog, n_obs = [], 0
      for s, batches in enumerate(comp):
        prog.append(['new', s])
        for ids in batches:
          prog.append(['add', s, [rows[i] for i in ids]])
          n_obs += 1
          if rng.random() < 0.3:         # reading a result in between must not matter
            prog.append(['result', s])
            n_obs += 1
      for s in range(1, len(comp)):
        prog.append(['merge', 0, s])
      prog.append(['result', 0])
      R = len(comp)
      prog += [['new', R], ['add', R, rows], ['result', R]]
      yield dict(base, prog=prog, eq=[[n_obs, n_obs + 2]], spec=[[n_obs + 2, rows]], shape=[[len(b) for b in sh] for sh in comp])
    else:
      states = {nm: [mk(rng.choice([0, 1, 2])) for _ in range(rng.choice([0, 1, 1, 2]))] for nm in 'abc'}
      prog, eq, tags = c11_program(rng, states, [mk(rng.randrange(1, 3)) for _ in range(2)])
      yield dict(base, prog=prog, eq=eq, blocks=tags)
  if what == 'C07':
    # a matched prediction must be unambiguous: duplicate true labels raise AssertionError (malformed stream)
    yield dict(kind='thr', thresholds=[{'n': 0, 'd': 1}], metrics=[['precision', None]],
               prog=[['new', 0], ['add', 0, [[[1, 1], [1], None]]], ['result', 0]], eq=[], malformed='dup-true')


# ---- MeanState / TupleMeanState

def rand_nums(rng, n, p_nan=0.05):
  return ['nan' if rng.random() < p_nan else norm({'n': rng.randrange(-16, 17), 'd': rng.choice([1, 2, 4])}) for _ in range(n)]


def gen_mean(ctx, what):
  rng = ctx.rng
  n = 60 * (1 if ctx.quick else 30)
  for _ in range(n):
    tup = rng.random() < 0.5
    arity = rng.randrange(1, 4)
    mk = (lambda: [rand_nums(rng, rng.choice([0, 1, 2, 3])) for _ in range(arity)]) if tup else (lambda: rand_nums(rng, rng.choice([0, 1, 2, 4])))
    kind = 'tuplemean' if tup else 'mean'
    if what == 'C07':
      b = mk()
      yield dict(kind=kind, prog=[['new', 0], ['add', 0, b], ['result', 0], ['call', b]], eq=[], spec=[[0 if tup else 1, b], [1 if tup else 2, b]])
    elif what == 'C01':
      # a TupleMeanState learns its arity from the first batch: "no batch at all" has no arity to compare with
      nb = rng.randrange(1 if tup else 0, 4)
      bs = [mk() for _ in range(nb)]
      cut = rng.randrange(0, nb + 1)
      prog = [['new', 0]] + [['add', 0, b] for b in bs[:cut]] + [['new', 1]] + [['add', 1, b] for b in bs[cut:]]
      prog += [['merge', 0, 1], ['result', 0], ['new', 2]]
      whole = [sum((b[c] for b in bs), []) for c in range(arity)] if tup else sum(bs, [])
      prog += [['add', 2, whole], ['result', 2]]
      k = 0 if tup else nb
      yield dict(kind=kind, prog=prog, eq=[[k, k + 1 + (0 if tup else 1)]], spec=[[k, whole]])
    else:
      states = {nm: [mk() for _ in range(rng.choice([0, 1, 1, 2]))] for nm in 'abc'}
      prog, eq, tags = c11_program(rng, states, [mk(), mk()], add_obs=not tup)
      yield dict(kind=kind, prog=prog, eq=eq, blocks=tags)
  if what == 'C11':
    # malformed: TupleMeanState of different arities
    yield dict(kind='tuplemean', prog=[['new', 0], ['add', 0, [[1], [2]]], ['new', 1], ['add', 1, [[1]]], ['merge', 0, 1], ['result', 0]],
               eq=[], malformed='arity')


# ============================================================================ oracles

def well_formed(case):
  return not case.get('malformed')


def _errs(obs):
  for o in obs:
    if 'err' in o:
      return f"well-formed input raised {o['err']} in {o.get('op', o.get('at'))}"
  return None


def _eqs(case, obs):
  for i, j in case.get('eq', []):
    if not deep_close(obs[i]['result'], obs[j]['result'], rel=1e-9, abs_=1e-12):
      return f"results differ: observation {i} = {obs[i]['result']} vs observation {j} = {obs[j]['result']}"
  return None


def oracle_common(case, obs):
  if not well_formed(case):
    if not any('err' in o for o in obs):
      return f"malformed input ({case['malformed']}) was accepted"
    return None
  return _errs(obs) or _eqs(case, obs)


def oracle_c01(case, obs):
  """Batching/sharding invariance + row independence, on the real observations only."""
  bad = oracle_common(case, obs)
  if bad or not well_formed(case):
    return bad
  if case['kind'] == 'topk' and case.get('api', 'object') == 'object' and 'layout' in case:
    solo = case['solo']
    for oi, ids in case['layout']:
      rows = obs[oi]['rows']
      for m, mat in rows.items():
        if len(mat) != len(ids):
          return f'add() returned {len(mat)} rows of {m} for a batch of {len(ids)} examples'
        for pos, rid in enumerate(ids):
          alone = obs[solo[rid]]['rows'][m][0]
          if not deep_close(mat[pos], alone, rel=1e-9, abs_=1e-12):
            return (f'row independence: {m} of dataset row {rid} is {mat[pos]} in a batch of {len(ids)} rows '
                    f'but {alone} alone')
  return None


def oracle_c11(case, obs):
  return oracle_common(case, obs)


def oracle_c07(case, obs):
  bad = oracle_common(case, obs)
  if bad or not well_formed(case):
    return bad
  k = case['kind']
  if k == 'topk':
    cfg = case['cfg']
    for oi, rows in case.get('spec', []):
      want = spec_result(cfg, rows)
      got = obs[oi]['result']
      if not deep_close(canon(want), got, rel=1e-9, abs_=1e-12):
        bad_m = [m for m in want if not deep_close(canon(want[m]), got.get(m), rel=1e-9, abs_=1e-12)]
        return f'{bad_m[0]}: textbook value {canon(want[bad_m[0]])} but the code returned {got.get(bad_m[0])} (k_list={cfg["k_list"]})'
    for oi, rows in case.get('rowspec', []):
      if obs[oi].get('rows') is None:
        continue
      want = canon(spec_row_values(cfg, rows))
      got = obs[oi]['rows']
      for m in want:
        if not deep_close(want[m], got.get(m), rel=1e-9, abs_=1e-12):
          return f'{m}: per-example textbook values {want[m]} but add() returned {got.get(m)}'
    # one-shot function API = accumulator API
    for oi, f in zip(case.get('fn_obs', []), case.get('fns', [])):
      if f == '*':
        continue
      if not deep_close(obs[oi]['result'][f], obs[1]['result'][f], rel=1e-9, abs_=1e-12):
        return f'function API {f}() = {obs[oi]["result"][f]} but the accumulator gives {obs[1]["result"][f]}'
  elif k == 'thr':
    for oi, rows in case.get('spec', []):
      ts, want = thr_spec([_fl(t) for t in case['thresholds']], [[r[0], r[1], None if r[2] is None else [_fl(q) for q in r[2]]] for r in rows])
      o = obs[oi]
      if not deep_close(canon(ts), o['thresholds']):
        return f"thresholds {o['thresholds']} are not the sorted configured thresholds {ts}"
      for (kind, t), got in zip(case['metrics'], o['result']):
        if t is None:
          if not deep_close(canon(want[kind]), got, rel=1e-9, abs_=1e-12):
            return f'{kind} per threshold: textbook {want[kind]} but the code returned {got}'
        else:
          x = _fl(t)
          if x in ts:
            w = want[kind][ts.index(x)]
            if not deep_close(canon(w), got, rel=1e-9, abs_=1e-12):
              return f'{kind}@{x}: textbook {w} but the code returned {got}'
          else:
            lo = [v for s, v in zip(ts, want[kind]) if s <= x][-1:] or want[kind][:1]
            hi = [v for s, v in zip(ts, want[kind]) if s >= x][:1] or want[kind][-1:]
            a, b = min(lo[0], hi[0]), max(lo[0], hi[0])
            if not (a - 1e-9 <= got <= b + 1e-9):
              return f'{kind}@{x} = {got} is not between the values at the neighbouring thresholds [{a}, {b}]'
  else:
    tup = k == 'tuplemean'
    for oi, b in case.get('spec', []):
      cols = b if tup else [b]
      want = []
      for col in cols:
        xs = [_num(x) for x in col]
        want.append(0.0 if not xs else (NAN if any(math.isnan(x) for x in xs) else sum(Fraction(x) for x in xs) / len(xs)))
      want = [canon(float(w)) for w in want]
      got = obs[oi]['result']
      if not deep_close(want if tup else want[0], got, rel=1e-9, abs_=1e-12):
        return f'mean of {b}: expected {want} but got {got}'
  return None


# ============================================================================ classification of failing inputs

def _fed(case):
  """accumulators that have seen at least one example, directly or through merges, at the time of each result op."""
  fed, starved = set(), False
  for op in case['prog']:
    if op[0] == 'new':
      fed.discard(op[1])
    elif op[0] == 'add' and len(op[2]) > 0:
      fed.add(op[1])
    elif op[0] == 'merge' and op[2] in fed:
      fed.add(op[1])
    elif op[0] == 'merge_states' and any(i in fed for i in op[1]):
      fed.add(op[1][0])
    elif op[0] == 'result' and op[1] not in fed:
      starved = True
  return starved


def finding(case, what):
  """Input classes of the findings of this family (all repaired: ids are informational, nothing is suppressed)."""
  k = case['kind']
  if k == 'topk':
    cfg = case['cfg']
    if cfg['multiclass']:
      return 'F-retr-multiclass'
    batches = [op[2] for op in case['prog'] if op[0] == 'add'] + [op[1] for op in case['prog'] if op[0] == 'call'] + \
              [op[2] for op in case['prog'] if op[0] == 'fn']
    if any(len(b) == 0 for b in batches) or _fed(case):
      return 'F-retr-empty-batch'
    lens = {len(r[1]) for b in batches for r in b}
    if len(lens) > 1 or 0 in lens or (cfg['k_list'] and lens and max(cfg['k_list']) > min(lens)):
      return 'F4'
    if cfg['k_list'] and list(cfg['k_list']) != sorted(cfg['k_list']):
      return 'F-retr-korder'
    return None
  if k == 'thr':
    seen_result = set()
    for op in case['prog']:
      if op[0] == 'result':
        seen_result.add(op[1])
      elif op[0] in ('add', 'merge') and op[1] in seen_result:
        return 'F-retr-thr-cache'
    return 'F-retr-thr-fresh' if _fed(case) else None
  if k == 'tuplemean':
    return 'F-retr-tuple-unit'
  return None


def nontrivial(case, obs):
  n_add = sum(1 for op in case['prog'] if op[0] == 'add' and len(op[2]) > 0)
  if case['kind'] == 'topk':
    lens = {len(r[1]) for op in case['prog'] if op[0] == 'add' for r in op[2]} if not case['cfg']['multiclass'] else {1}
    return n_add >= 1 and (len(lens) > 1 or n_add >= 3)
  return n_add >= 2


def shrink(case, fails):
  """Drop dataset rows / batches while the case still fails (programs are rebuilt only for the simple shapes)."""
  cur = case
  changed = True
  while changed:
    changed = False
    for oi, op in enumerate(cur['prog']):
      if op[0] in ('add', 'call', 'fn') and isinstance(op[-1], list) and len(op[-1]) > 1 and 'layout' not in cur and 'spec' not in cur:
        for r in range(len(op[-1])):
          c = copy.deepcopy(cur)
          del c['prog'][oi][-1][r]
          if fails(c):
            cur, changed = c, True
            break
        if changed:
          break
  return cur


def neighbours(case, rng):
  """Cases near `case` for the failing-input search: same configuration, fresh data of the same kind."""
  import random
  class C:  # minimal ctx stand-in
    quick = True
  c = C()
  c.rng = rng
  k = case['kind']
  for _ in range(150):
    if k == 'topk':
      cfg = case['cfg'] if rng.random() < 0.5 else rand_cfg(rng)
      rows = rand_batch(rng, cfg, rng.randrange(0, 6))
      yield topk_c01_case(rng, cfg, rows, 'object')
      yield topk_c07_case(cfg, rows)
    elif k == 'thr':
      yield from itertools.islice(gen_thr(c, 'C01'), 2)
    else:
      yield from itertools.islice(gen_mean(c, 'C01'), 2)


# ============================================================================ sub-checks

def _counted(ctx, what, it):
  for case in it:
    ctx.count(f'retrieval:{what}:kind', case['kind'])
    if case['kind'] == 'topk':
      cfg = case['cfg']
      ctx.count('retrieval:k_list', 'None' if cfg['k_list'] is None else ('empty' if not cfg['k_list'] else
                ('unsorted' if list(cfg['k_list']) != sorted(cfg['k_list']) else 'sorted')))
      ctx.count('retrieval:input_type', 'multiclass' if cfg['multiclass'] else 'multioutput')
      ctx.count('retrieval:api', case.get('api', 'object'))
      for m in cfg['metrics']:
        ctx.count('retrieval:metric', m)
      for op in case['prog']:
        if op[0] == 'add':
          ctx.count('retrieval:batch_rows', min(len(op[2]), 8))
          if not cfg['multiclass']:
            if any(len(r[1]) == 0 for r in op[2]):
              ctx.count('retrieval:branch', 'empty-ranking')
            if any(len(r[0]) == 0 for r in op[2]):
              ctx.count('retrieval:branch', 'empty-true-set')
            if len({len(r[1]) for r in op[2]}) > 1:
              ctx.count('retrieval:branch', 'ragged-batch')
            if cfg['k_list'] and any(k > len(r[1]) for r in op[2] for k in cfg['k_list']):
              ctx.count('retrieval:branch', 'k-beyond-ranking')
    for b in case.get('blocks', []):
      ctx.count('retrieval:c11_block', b)
    yield case


def _required(ctx, what):
  from harness.core import InfraError
  need = ['empty-ranking', 'empty-true-set', 'ragged-batch', 'k-beyond-ranking']
  missing = [b for b in need if b not in ctx.hist.get('retrieval:branch', {})]
  missing += [m for m in METRICS if m not in ctx.hist.get('retrieval:metric', {})]
  missing += [k for k in ('None', 'sorted', 'unsorted') if k not in ctx.hist.get('retrieval:k_list', {})]
  missing += [k for k in ('topk', 'thr', 'mean', 'tuplemean') if k not in ctx.hist.get(f'retrieval:{what}:kind', {})]
  if missing:
    raise InfraError(f'retrieval generator missed promised classes: {missing}')


def _sub(pid, gens, oracle, rule):
  class Sub:
    LEAN_MODULES = [f'MlModel.Properties.{pid}.Retrieval'] + (['MlModel.Witness.C01Retrieval'] if pid == 'C01' else [])
    RULE = rule

  def gen_cases(ctx):
    yield from _counted(ctx, pid, ctx.corpus(f'{pid}_retrieval'))
    for g in gens:
      yield from _counted(ctx, pid, g(ctx))
  Sub.TRUSTED = TRUSTED
  Sub.ASSUMPTIONS = ASSUMPTIONS
  Sub.gen_cases = staticmethod(gen_cases)
  Sub.run_impl = staticmethod(run_impl)
  Sub.model_requests = staticmethod(model_requests)
  Sub.model_obs = staticmethod(model_obs)
  Sub.oracle = staticmethod(oracle)
  Sub.nontrivial = staticmethod(nontrivial)
  Sub.finding = staticmethod(finding)
  Sub.compare = staticmethod(compare)
  Sub.neighbours = staticmethod(neighbours)
  Sub.shrink = staticmethod(shrink)
  Sub.extra = staticmethod(lambda ctx: _required(ctx, pid))
  return Sub


CHECKS = {
    'C01': _sub('C01', [gen_topk_c01, lambda ctx: gen_thr(ctx, 'C01'), lambda ctx: gen_mean(ctx, 'C01')], oracle_c01,
                'retrieval: random datasets (0-8 ragged examples over 6 items, ~8% empty rankings / empty true sets, 15% '
                'multiclass) x random TopKRetrieval configs (k_list None/[]/sorted/unsorted/duplicated, 1-17 metrics) x a '
                'random composition into <=3 shards of <=3 batches (empty shards and batches included) through the object API '
                '(add/merge) or the AggregateFn API (update_state/merge_states); every example additionally alone in its own '
                'batch (row independence); the same for ThresholdedRetrieval (result() read in between) and MeanState / '
                'TupleMeanState; non-trivial = ragged rankings or >=3 non-empty batches'),
    'C11': _sub('C11', [gen_topk_c11, lambda ctx: gen_thr(ctx, 'C11'), lambda ctx: gen_mean(ctx, 'C11')], oracle_c11,
                'retrieval: three random states (0-2 batches each, fresh states included) per case and 2-4 of the probe blocks '
                'assoc ((a+b)+c vs a+(b+c)), comm, unit (fresh on either side), operand (result of the merged-in state before / '
                'after merge / after later adds to the receiver, and of the receiver after later adds to the operand), pure '
                '(result twice; result-add-result vs add-result; result-merge-result) for TopKRetrieval (object and AggregateFn '
                'API), ThresholdedRetrieval, MeanState, TupleMeanState'),
    'C07': _sub('C07', [gen_topk_c07, lambda ctx: gen_thr(ctx, 'C07'), lambda ctx: gen_mean(ctx, 'C07')], oracle_c07,
                'retrieval: small-exhaustive: every (true set, ranking) over 3 items as one-example batch with all 17 metrics at '
                'k=1..4 / None, a deterministic sub-lattice of short+long ranking pairs (k_list sorted, unsorted, beyond the '
                'ranking, None), every multiclass label pair; then random batches x configs; accumulator add()/result(), '
                'AggregateFn.__call__ and the one-shot functions of metrics/retrieval.py; oracle = independent per-example '
                'textbook definitions averaged over examples; ThresholdedRetrieval vs pooled textbook precision/recall/F1 per '
                'threshold; MeanState/TupleMeanState vs sum/len'),
}
