"""The "generated" family: numeric self-check of translate/scalar.py + sub-checks of C07, C01 and C11.

translate/scalar.py (called by translate/run.py in the regenerate step of every run) turns the scalar /
elementwise arithmetic of
  utils/math_utils.py (nanadd), aggregates/rolling_stats.py (Mean.merge/total, MeanAndVariance.merge/stddev,
  R2Tjur*.result, RRegression.result/merge, SymmetricPredictionDifference.result/merge, _R2TjurBase.merge),
  aggregates/utils.py (MeanState.merge/result), aggregates/retrieval.py (13 per-(row, k) formulas of TopKRetrieval,
  _ThresholdedConfusionMatrix.merge/precision/recall/f1_score)
into lean/MlModel/Generated/Scalar.lean; the theorems of Properties/{C07,C01,C11}/Generated.lean are stated
against those definitions.  This module validates the translator itself: every generated definition is
evaluated exactly (compiled driver, model "genscalar") and compared with the Python function it was
translated from, called on the same scalar arguments (objects are built with the dataclass constructor;
retrieval helpers are called on small 2-row arrays and compared element by element, which also validates the
reading of the row-broadcast markers).  Square roots: pass 1 asks the driver for the exact radicands, the
harness takes float64 square roots, pass 2 evaluates the generated definition with that table (stage `extra`).

The list of functions comes from lean/MlModel/Generated/scalar_manifest.json, i.e. from the translator.
"""
from __future__ import annotations

import json
import math
import os
import warnings
from fractions import Fraction as Fr

import numpy as np

from harness.core import LEAN_DIR, close, err_kind, rat_to_float

warnings.filterwarnings('ignore')
np.seterr(all='ignore')

NAN = 'nan'
MODULES = {'math_utils': 'ml_metrics._src.utils.math_utils', 'rolling_stats': 'ml_metrics._src.aggregates.rolling_stats',
           'agg_utils': 'ml_metrics._src.aggregates.utils', 'retrieval': 'ml_metrics._src.aggregates.retrieval'}
INT_FIELDS = {'_count', 'count', 'num_samples', 'tp_trues', 'tp_preds', 'p_trues', 'p_preds'}
CONCRETE = {'_R2TjurBase': 'R2Tjur'}    # abstract base: the inherited method is run on a concrete subclass
EXTRA_KW = {'_ThresholdedConfusionMatrix': lambda: {'thresholds': np.array([0.5])}}
POOL = ('Mean.merge', 'MeanAndVariance.merge')
SUMS = ('_R2TjurBase.merge', 'RRegression.merge', 'SymmetricPredictionDifference.merge', 'MeanState.merge',
        '_ThresholdedConfusionMatrix.merge')


def manifest():
  p = os.path.join(LEAN_DIR, 'MlModel', 'Generated', 'scalar_manifest.json')
  return {f['label']: f for f in json.load(open(p))['functions']}


# ----------------------------------------------------------------------------- numbers

def enc(x):
  if x is None:
    return NAN
  x = Fr(x)
  return int(x) if x.denominator == 1 else {'n': x.numerator, 'd': x.denominator}


def frac(j):
  if j == NAN or j is None:
    return None
  return Fr(j['n'], j['d']) if isinstance(j, dict) else Fr(j)


def py_num(j, as_int=False):
  f = frac(j)
  if f is None:
    return float('nan')
  if f.denominator == 1 and as_int:
    return int(f)
  return float(f)


def cnum(x):
  """python / numpy number -> canonical: float, or 'nan' for every non-finite value (the generated code has one
  non-finite element: x/0, inf and nan are all `none`)"""
  x = float(x)
  return x if math.isfinite(x) else NAN


def mnum(j):
  return NAN if (j == NAN or j is None) else rat_to_float(j)


# ----------------------------------------------------------------------------- running the Python side

def _import(alias):
  import importlib
  return importlib.import_module(MODULES[alias])


def build(entry, who, args):
  mod = _import(entry['module'])
  cls = getattr(mod, CONCRETE.get(entry['cls'], entry['cls']))
  kw = {}
  for a, v in zip(entry['args'], args):
    if a['who'] != who:
      continue
    if a['kind'] == 'B':
      kw[a['name']] = bool(frac(v))
    else:
      kw[a['name']] = py_num(v, as_int=a['name'] in INT_FIELDS)
  kw.update(EXTRA_KW.get(entry['cls'], dict)())
  return cls(**kw)


def run_scalar(entry, args):
  """-> list of canonical numbers (one per output) or {'err': kind}"""
  try:
    if entry['kind'] == 'function':
      f = getattr(_import(entry['module']), entry['label'].split('.', 1)[1])
      return [cnum(f(*[np.float64(py_num(v)) for v in args]))]
    obj = build(entry, 'self', args)
    name = entry['label'].split('.', 1)[1]
    if entry['kind'] == 'update':
      other = build(entry, 'other', args)
      before = [getattr(other, f) for f in entry['outputs']]
      getattr(obj, name)(other)
      out = [cnum(getattr(obj, f)) for f in entry['outputs']]
      after = [getattr(other, f) for f in entry['outputs']]
      same = all((x == y) or (x != x and y != y) for x, y in zip(before, after))
      return out + [1.0 if same else 0.0]     # last entry: the operand kept its fields (C11)
    v = getattr(obj, name)
    if callable(v):
      v = v()
    return [cnum(v)]
  except ZeroDivisionError:
    return [NAN] * len(entry['outputs'])
  except Exception as e:  # pylint: disable=broad-except
    return {'err': err_kind(e)}


def run_retrieval_arrays(entry, case):
  """retrieval helper on 2-row arrays -> matrix of canonical numbers (rows x ks)"""
  mod = _import('retrieval')
  f = getattr(mod, entry['label'].split('.', 1)[1])
  arrs = dict(tp_at_topks=np.array(case['tp'], dtype=float), k_list=np.array([case['ks']]),
              y_pred_count=np.array(case['ypc']), y_true_len=np.array(case['ytl']))
  try:
    r = np.asarray(f(*[arrs[a['name']] for a in entry['args']]))
    return [[cnum(x) for x in row] for row in r.tolist()]
  except Exception as e:  # pylint: disable=broad-except
    return {'err': err_kind(e)}


def element_args(entry, case, i, j):
  k = case['ks'][j]
  per = dict(tp_at_topks=case['tp'][i][k - 1], k_list=k, y_pred_count=case['ypc'][i], y_true_len=case['ytl'][i])
  return [per[a['name']] for a in entry['args']]


# ----------------------------------------------------------------------------- independent specifications

def _sd(a, b):
  """documented safe_divide: 0 where the denominator is 0"""
  if b is None:
    return None
  if b == 0:
    return Fr(0)
  return None if a is None else a / b


def _div(a, b):
  if a is None or b is None or b == 0:
    return None
  return a / b


def spec_value(label, x):
  """textbook value of a pure function from its scalar arguments (Fractions, None = NaN), or 'skip'"""
  if label == 'math_utils.nanadd':
    a, b = x
    return None if (a is None and b is None) else (a or 0) + (b or 0)
  if label in ('retrieval._precision', 'retrieval._ppv', 'retrieval._positive_predictive_value'):
    return _div(x[0], min(x[1], x[2]))
  if label in ('retrieval._recall', 'retrieval._sensitivity', 'retrieval._tpr'):
    return _div(x[0], x[2])
  if label == 'retrieval._accuracy':
    return Fr(1 if x[0] > 0 else 0)
  if label == 'retrieval._miss_rate':
    r = _div(x[0], x[2])
    return None if r is None else 1 - r
  if label == 'retrieval._false_discovery_rate':
    r = _div(x[0], min(x[1], x[2]))
    return None if r is None else 1 - r
  if label == 'retrieval._intersection_over_union':   # |A∩B| / |A∪B|, A = first k predictions, B = truths
    tp, k, ytl, ypc = x
    return _div(tp, min(k, ypc) + ytl - tp)
  if label == 'retrieval._threat_score':                # tp / (tp + fn + fp) with fp counted as k - tp
    tp, k, ytl = x
    return _div(tp, tp + (ytl - tp) + (k - tp))
  if label == 'retrieval._f1_score':
    p, r = x
    if p is None or r is None:
      return 'skip'
    return _sd(2 * p * r, p + r)
  if label in ('Mean.total', 'MeanAndVariance.total'):
    c, m = x[0], x[1]
    return Fr(0) if not (c is not None and c > 0) else (None if m is None else m * c)
  if label == 'MeanState.result':
    return _sd(x[0], x[1])
  if label == 'R2Tjur.result':
    st, sp, snt, snp = x
    if None in x:
      return 'skip'
    return None if (st == 0 or snt == 0) else sp / st - snp / snt
  if label == 'R2TjurRelative.result':
    st, sp, snt, snp = x
    if None in x:
      return 'skip'
    if st == 0 or snp == 0:
      return None
    return 'skip' if snt == 0 else (sp / st) / (snp / snt)   # ratio of the two mean predictions
  if label == 'SymmetricPredictionDifference.result':
    n, s = x
    if None in x:
      return 'skip'
    return None if n == 0 else 2 * s / n
  if label == '_ThresholdedConfusionMatrix.precision':
    return _sd(x[1], x[3])
  if label == '_ThresholdedConfusionMatrix.recall':
    return _sd(x[0], x[2])
  if label == '_ThresholdedConfusionMatrix.f1_score':
    p, r = _sd(x[1], x[3]), _sd(x[0], x[2])
    return _sd(2 * p * r, p + r)
  return 'skip'


def stats(xs):
  v = [x for x in xs if x is not None]
  if not v:
    return [Fr(0), None, None]
  n = len(v)
  mu = sum(v) / n
  return [Fr(n), mu, sum((t - mu) ** 2 for t in v) / n]


def same(a, b):
  if a == NAN or b == NAN:
    return a == b
  return close(float(a), float(b), 1e-9, 1e-12)


# ----------------------------------------------------------------------------- case generation

def rnd(rng, kind='val', nan=0.12):
  if kind != 'count' and rng.random() < nan:
    return None
  if kind == 'count':
    return Fr(rng.choice([0, 0, 1, 2, 3, 5, 8]))
  if rng.random() < 0.12:
    return Fr(0)
  return Fr(rng.randint(-24, 24), rng.choice([1, 1, 2, 4]))


def gen_scalar_case(rng, entry):
  args = []
  for a in entry['args']:
    if a['kind'] == 'B':
      args.append(enc(rng.choice([0, 1])))
    elif a['name'] in INT_FIELDS:
      args.append(enc(rnd(rng, 'count')))
    else:
      args.append(enc(rnd(rng)))
  return {'t': 'gen', 'fn': entry['label'], 'args': args}


def gen_pool_case(rng, entry):
  """operands of a merge that are the statistics of two lists (C01: pooling)"""
  la = [rnd(rng, nan=0.25) for _ in range(rng.choice([0, 1, 2, 3, 5]))]
  lb = [rnd(rng, nan=0.25) for _ in range(rng.choice([0, 1, 2, 4]))]
  nf = len(entry['outputs'])
  return {'t': 'gen', 'fn': entry['label'], 'args': [enc(v) for v in stats(la)[:nf] + stats(lb)[:nf]],
          'lists': [[enc(v) for v in la], [enc(v) for v in lb]]}


def gen_retrieval_case(rng, entry):
  ks = sorted(rng.sample([1, 2, 3, 4], 2), reverse=rng.random() < .5)
  tp, ypc, ytl = [], [], []
  for _ in range(2):
    hits = [rng.random() < .5 for _ in range(4)]
    cum, row = 0, []
    for h in hits:
      cum += h
      row.append(cum)
    tp.append(row)
    ypc.append(rng.choice([1, 2, 3, 4, 5]))
    ytl.append(rng.choice([0, 1, 2, 3, 6]))
  return {'t': 'genarr', 'fn': entry['label'], 'tp': tp, 'ks': ks, 'ypc': ypc, 'ytl': ytl}


def is_array_fn(entry):
  return entry['module'] == 'retrieval' and entry['kind'] == 'function' and any(
      a['name'] in ('tp_at_topks', 'k_list', 'y_pred_count', 'y_true_len') for a in entry['args'])


class _Base:
  TRUSTED = [
      'translator translate/scalar.py (Python ast -> Lean) for the scalar arithmetic listed in its docstring; validated '
      'every run: each generated definition evaluated exactly by the driver vs the Python function on the same arguments',
      'semantic base of the generated code: lean/MlModel/Model/GenPrim.lean (IEEE + - * / with NaN = none, x/0 = none, '
      'comparisons, np.minimum, safe_divide, where) - hand-written; safe_divide / where / pos_sqrt bodies shape-checked',
      'whole-array guards np.all(np.isnan(X)) are parameters of the generated merge; the theorems instantiate them with '
      'the hand model\'s whole-array tests (numpy broadcasting / axis semantics stay hand-modelled: MV.bcast, Col.ofList)',
      'retrieval.py markers `_at_k(tp_at_topks, k_list)`, `x[:, np.newaxis]`, `k_list` are read as "this row, this k" '
      '(validated element by element on 2-row arrays); _mean_average_precision, _mean_reciprocal_rank, _dcg_score, '
      '_ndcg_score (cumsum / argmax / log2) stay hand-modelled',
  ]
  ASSUMPTIONS = []
  LABELS = ()          # which generated functions this sub-check exercises (None = all)
  N = (40, 400)

  @classmethod
  def entries(cls):
    m = manifest()
    return [e for l, e in m.items() if cls.LABELS is None or l in cls.LABELS]

  @classmethod
  def gen_cases(cls, ctx):
    rng = ctx.rng
    n = cls.N[0] if ctx.quick else cls.N[1]
    for e in cls.entries():
      if e['sqrt']:
        continue   # two-pass: stage `extra`
      for i in range(n):
        if is_array_fn(e):
          c = gen_retrieval_case(rng, e)
        elif e['label'] in POOL and i % 2 == 0:
          c = gen_pool_case(rng, e)
        else:
          c = gen_scalar_case(rng, e)
        ctx.count('generated fn', e['label'])
        yield c

  @staticmethod
  def run_impl(case):
    e = manifest()[case['fn']]
    if case['t'] == 'genarr':
      return {'m': run_retrieval_arrays(e, case)}
    return {'v': run_scalar(e, case['args'])}

  @staticmethod
  def model_requests(case):
    e = manifest()[case['fn']]
    if case['t'] == 'genarr':
      return [dict(model='genscalar', fn=case['fn'], args=element_args(e, case, i, j))
              for i in range(len(case['tp'])) for j in range(len(case['ks']))]
    return [dict(model='genscalar', fn=case['fn'], args=case['args'])]

  @staticmethod
  def model_obs(case, resps):
    for r in resps:
      if r.get('out') is None:
        return {'err': 'unknown generated function'}
    if case['t'] == 'genarr':
      nk = len(case['ks'])
      flat = [mnum(r['out'][0]) for r in resps]
      return {'m': [flat[i * nk:(i + 1) * nk] for i in range(len(case['tp']))]}
    out = [mnum(x) for x in resps[0]['out']]
    if manifest()[case['fn']]['kind'] == 'update':
      out.append(1.0)
    return {'v': out}

  @staticmethod
  def compare(a, b):
    if 'err' in b or any(isinstance(v, dict) for v in a.values()):
      return f'python {a} / generated {b}'
    xa = a.get('v') if 'v' in a else [x for row in a['m'] for x in row]
    xb = b.get('v') if 'v' in b else [x for row in b['m'] for x in row]
    if len(xa) != len(xb) or not all(same(x, y) for x, y in zip(xa, xb)):
      return f'python {xa} != generated definition {xb}'
    return None

  @staticmethod
  def oracle(case, obs):
    e = manifest()[case['fn']]
    label = case['fn']
    if case['t'] == 'genarr':
      if isinstance(obs['m'], dict):
        return f"{label} raised {obs['m']['err']}"
      for i in range(len(case['tp'])):
        for j in range(len(case['ks'])):
          x = [Fr(v) for v in element_args(e, case, i, j)]
          want = spec_value(label, x)
          if want != 'skip' and not same(obs['m'][i][j], NAN if want is None else float(want)):
            return f'{label}{tuple(map(str, x))} [row {i}, k={case["ks"][j]}] = {obs["m"][i][j]}, textbook {want}'
      return None
    v = obs['v']
    if isinstance(v, dict):
      return f"{label} raised {v['err']}"
    x = [frac(a) for a in case['args']]
    if e['kind'] == 'update':
      if v[-1] != 1.0:
        return f'{label}: the merged-in operand was modified'
      if label in SUMS:
        nf = len(e['outputs'])
        for i in range(nf):
          a, b = x[i], x[len(x) // 2 + i]
          want = None if (a is None or b is None) else a + b
          if not same(v[i], NAN if want is None else float(want)):
            return f'{label}: field {e["outputs"][i]} = {v[i]}, expected the sum {want}'
      if 'lists' in case:     # pooling: statistics of a ++ b
        la, lb = ([frac(t) for t in l] for l in case['lists'])
        if stats(lb)[1] is None:
          want = stats(la)        # an all-NaN / empty operand is a no-op
        else:
          want = stats(la + lb)
        for i in range(len(e['outputs'])):
          if not same(v[i], NAN if want[i] is None else float(want[i])):
            return (f'{label}: statistics of {case["lists"][0]} merged with those of {case["lists"][1]}: '
                    f'{e["outputs"][i]} = {v[i]}, of the concatenation {want[i]}')
      return None
    if any(a['kind'] == 'B' for a in e['args']):
      return None
    want = spec_value(label, x)
    if want != 'skip' and not same(v[0], NAN if want is None else float(want)):
      return f'{label}{tuple(map(str, x))} = {v[0]}, textbook {want}'
    return None

  @staticmethod
  def nontrivial(case, obs):
    if case['t'] == 'genarr':
      return True
    return sum(1 for a in case['args'] if a not in (0, NAN)) >= 2

  @staticmethod
  def finding(case, what):
    return None

  @classmethod
  def neighbours(cls, case, rng):
    if case.get('t') not in ('gen', 'genarr'):
      return
    e = manifest()[case['fn']]
    for _ in range(200):
      yield gen_retrieval_case(rng, e) if case['t'] == 'genarr' else gen_scalar_case(rng, e)

  @classmethod
  def extra(cls, ctx):
    """two-pass self-check of the generated definitions that contain sqrt"""
    es = [e for e in cls.entries() if e['sqrt']]
    if not es:
      return
    rng = ctx.rng
    cases = []
    for e in es:
      for _ in range(cls.N[0] if ctx.quick else cls.N[1]):
        if is_array_fn(e):
          c = gen_retrieval_case(rng, e)
          for i in range(2):
            for j in range(2):
              cases.append((e, c, (i, j), element_args(e, c, i, j)))
        else:
          c = gen_scalar_case(rng, e)
          cases.append((e, c, None, c['args']))
    r1 = ctx.lean.ask_many([dict(model='genscalar', fn=e['label'], args=a, rads=True) for e, _, _, a in cases])
    reqs = []
    for (e, _, _, a), r in zip(cases, r1):
      table = []
      for rad in r['out'] or []:
        f = frac(rad)
        s = None if (f is None or f < 0) else Fr(math.sqrt(float(f)))
        table.append([rad, enc(s)])
      reqs.append(dict(model='genscalar', fn=e['label'], args=a, sqrt=table))
    r2 = ctx.lean.ask_many(reqs)
    cache = {}
    for (e, c, ij, a), r, rr in zip(cases, r2, r1):
      ctx.extra_evals += 1
      ctx.count('generated fn', e['label'])
      if ij is None:
        got = run_scalar(e, a)
        got = got[0] if isinstance(got, list) else got
      else:
        key = json.dumps(c, sort_keys=True)
        if key not in cache:
          cache[key] = run_retrieval_arrays(e, c)
        m = cache[key]
        got = m[ij[0]][ij[1]] if isinstance(m, list) else m
      want = mnum(r['out'][0]) if r.get('out') else {'err': 'unknown generated function'}
      if isinstance(got, dict) or isinstance(want, dict) or not same(got, want):
        ctx.extra_disagreements.append(
            ('translator self-check (sqrt)', dict(c, family='generated'),
             dict(why=f'python {got} != generated definition {want}', at=ij, radicands=rr.get('out'))))


def check_fnapi_tables(ctx):
  """the extracted function-API tables vs the real functions: f(batch) must equal the aggregate the table names"""
  import importlib
  p = os.path.join(LEAN_DIR, 'MlModel', 'Generated', 'scalar_manifest.json')
  tables = json.load(open(p)).get('fnapi', {})
  rng = ctx.rng
  fr = importlib.import_module('ml_metrics._src.metrics.retrieval')
  ar = importlib.import_module('ml_metrics._src.aggregates.retrieval')
  fs = importlib.import_module('ml_metrics._src.metrics.rolling_stats')
  rs = importlib.import_module('ml_metrics._src.aggregates.rolling_stats')
  def canon(v):
    if isinstance(v, dict):
      return [x for k in sorted(v, key=str) for x in canon(v[k])]
    return [cnum(x) for x in np.asarray(v, dtype=float).ravel().tolist()]
  for name, metric, via in tables.get('retrieval', []):
    for _ in range(3 if ctx.quick else 30):
      n = rng.choice([1, 2, 4])
      yt = [[rng.randrange(5) for _ in range(rng.choice([1, 2, 3]))] for _ in range(n)]
      yp = [rng.sample(range(5), rng.choice([1, 2, 4])) for _ in range(n)]
      kl = rng.choice([None, [1], [1, 3], [2, 1]])
      case = dict(t='fnapi', fn=name, metric=metric, y_true=yt, y_pred=yp, k_list=kl, family='generated')
      ctx.extra_evals += 1
      ctx.count('fnapi table', name)
      try:
        if metric == '*':
          ms = ['precision', 'recall']
          got = canon(getattr(fr, name)(ms, y_true=yt, y_pred=yp, k_list=kl))
          want = canon(ar.TopKRetrieval(metrics=ms, k_list=kl).as_agg_fn()(yt, yp))
        else:
          got = canon(getattr(fr, name)(yt, yp, k_list=kl))
          acc = ar.TopKRetrieval(metrics=metric, k_list=kl)
          acc.add(yt, yp)
          want = canon(acc.result())
      except Exception as e:  # pylint: disable=broad-except
        ctx.extra_disagreements.append(('fnapi table', case, f'raised {err_kind(e)}: {e}'))
        continue
      if len(got) != len(want) or not all(same(a, b) for a, b in zip(got, want)):
        ctx.extra_disagreements.append(
            ('fnapi table', case, f'{name}(..) = {got} but the aggregate with metrics={metric} ({via}) gives {want}'))
  for name, cls, attr in tables.get('rolling', []):
    for _ in range(3 if ctx.quick else 30):
      batch = [float(rng.randint(-8, 8)) if rng.random() > .15 else float('nan') for _ in range(rng.choice([1, 3, 6]))]
      case = dict(t='fnapi', fn=name, cls=cls, attr=attr, batch=[NAN if b != b else b for b in batch], family='generated')
      ctx.extra_evals += 1
      ctx.count('fnapi table', name)
      got = canon(getattr(fs, name)(batch))
      want = canon(getattr(getattr(rs, cls)().add(batch), attr))
      if not all(same(a, b) for a, b in zip(got, want)):
        ctx.extra_disagreements.append(('fnapi table', case, f'{name}(batch) = {got}, {cls}().add(batch).{attr} = {want}'))


class C07(_Base):
  LEAN_MODULES = ['MlModel.Properties.C07.Generated', 'MlModel.Properties.C07.GeneratedFnApi',
                  'MlModel.Properties.C07.GeneratedWiring']
  LABELS = None

  @classmethod
  def extra(cls, ctx):
    super().extra(ctx)
    check_fnapi_tables(ctx)

  RULE = ('translator self-check: every definition generated by translate/scalar.py (list = scalar_manifest.json) on '
          'random scalar arguments (small dyadic rationals, zeros, NaN; counts 0..8), retrieval helpers on random 2-row '
          'arrays element by element, sqrt definitions in two passes (exact radicands, float64 roots); oracle = '
          'independent textbook formula of the same scalar quantity where one exists; non-trivial = at least two '
          'arguments that are neither 0 nor NaN')


class C01(_Base):
  LEAN_MODULES = ['MlModel.Properties.C01.Generated']
  LABELS = POOL
  N = (150, 1500)
  RULE = ('generated Mean.merge / MeanAndVariance.merge vs the Python methods on scalar states: half of the cases are '
          'the statistics (count, mean, population variance) of two random lists with NaN entries, where the oracle '
          'demands the statistics of the concatenation (Chan pooling); the rest arbitrary field values')


class C11(_Base):
  LEAN_MODULES = ['MlModel.Properties.C11.Generated']
  LABELS = SUMS + POOL
  N = (60, 600)
  RULE = ('generated merge methods vs the Python methods on scalar states; oracle: every field of the receiver is the '
          'sum of the two operands\' fields (field-wise merges) and the merged-in operand keeps its fields')


CHECKS = {'C07': C07, 'C01': C01, 'C11': C11}
