"""The "generated" family: numeric self-check of translate/scalar.py + sub-checks of C07, C01 and C11.

translate/scalar.py (called by translate/run.py in the regenerate step of every run) turns the scalar /
elementwise arithmetic of
  utils/math_utils.py (nanadd), aggregates/rolling_stats.py (Mean.merge/total, MeanAndVariance.merge/stddev,
  R2Tjur*.result, RRegression.result/merge, SymmetricPredictionDifference.result/merge, _R2TjurBase.merge),
  aggregates/utils.py (MeanState.merge/result), aggregates/retrieval.py (13 per-(row, k) formulas of TopKRetrieval,
  _ThresholdedConfusionMatrix.merge/precision/recall/f1_score)
into lean/MlModel/Generated/Scalar.lean; the theorems of Properties/{C07,C01,C11}/Generated.lean are stated
against those definitions.  This module validates the translator itself: every generated definition is
evaluated exactly (compiled driver, model "genscalar") and compared with the Python function it was
translated from, called on the same scalar arguments (objects are built with the dataclass constructor;
retrieval helpers are called on small 2-row arrays and compared element by element, which also validates the
reading of the row-broadcast markers).  Square roots: pass 1 asks the driver for the exact radicands, the
harness takes float64 square roots, pass 2 evaluates the generated definition with that table (stage `extra`).

The list of functions comes from lean/MlModel/Generated/scalar_manifest.json, i.e. from the translator.
"""
from __future__ import annotations

import json
import math
import os
import warnings
from fractions import Fraction as Fr

import numpy as np

from harness.core import LEAN_DIR, close, err_kind, rat_to_float

warnings.filterwarnings('ignore')
np.seterr(all='ignore')

NAN = 'nan'
MODULES = {'math_utils': 'ml_metrics._src.utils.math_utils', 'rolling_stats': 'ml_metrics._src.aggregates.rolling_stats',
           'agg_utils': 'ml_metrics._src.aggregates.utils', 'retrieval': 'ml_metrics._src.aggregates.retrieval'}
INT_FIELDS = {'_count', 'count', 'num_samples', 'tp_trues', 'tp_preds', 'p_trues', 'p_preds'}
CONCRETE = {'_R2TjurBase': 'R2Tjur'}    # abstract base: the inherited method is run on a concrete subclass
EXTRA_KW = {'_ThresholdedConfusionMatrix': lambda: {'thresholds': np.array([0.5])}}
POOL = ('Mean.merge', 'MeanAndVariance.merge')
SUMS = ('_R2TjurBase.merge', 'RRegression.merge', 'SymmetricPredictionDifference.merge', 'MeanState.merge',
        '_ThresholdedConfusionMatrix.merge')


def manifest():
  p = os.path.join(LEAN_DIR, 'MlModel', 'Generated', 'scalar_manifest.json')
  return {f['label']: f for f in json.load(open(p))['functions']}


# ----------------------------------------------------------------------------- numbers

def enc(x):
  if x is None:
    return NAN
  x = Fr(x)
  return int(x) if x.denominator == 1 else {'n': x.numerator, 'd': x.denominator}


def frac(j):
  if j == NAN or j is None:
    return None
  return Fr(j['n'], j['d']) if isinstance(j, dict) else Fr(j)


def py_num(j, as_int=False):
  f = frac(j)
  if f is None:
    return float('nan')
  if f.denominator == 1 and as_int:
    return int(f)
  return float(f)


def cnum(x):
  """python / numpy number -> canonical: float, or 'nan' for every non-finite value (the generated code has one
  non-finite element: x/0, inf and nan are all `none`)"""
  x = float(x)
  return x if math.isfinite(x) else NAN


def mnum(j):
  return NAN if (j == NAN or j is None) else rat_to_float(j)


# ----------------------------------------------------------------------------- running the Python side

def _import(alias):
  import importlib
  return importlib.import_module(MODULES[alias])


def build(entry, who, args):
  mod = _import(entry['module'])
  cls = getattr(mod, CONCRETE.get(entry['cls'], entry['cls']))
  kw = {}
  for a, v in zip(entry['args'], args):
    if a['who'] != who:
      continue
    if a['kind'] == 'B':
      kw[a['name']] = bool(frac(v))
    else:
      kw[a['name']] = py_num(v, as_int=a['name'] in INT_FIELDS)
  kw.update(EXTRA_KW.get(entry['cls'], dict)())
  return cls(**kw)


def run_scalar(entry, args):
  """-> list of canonical numbers (one per output) or {'err': kind}"""
  try:
    if entry['kind'] == 'function':
      f = getattr(_import(entry['module']), entry['label'].split('.', 1)[1])
      return [cnum(f(*[np.float64(py_num(v)) for v in args]))]
    obj = build(entry, 'self', args)
    name = entry['label'].split('.', 1)[1]
    if entry['kind'] == 'update':
      other = build(entry, 'other', args)
      before = [getattr(other, f) for f in entry['outputs']]
      getattr(obj, name)(other)
      out = [cnum(getattr(obj, f)) for f in entry['outputs']]
      after = [getattr(other, f) for f in entry['outputs']]
      same = all((x == y) or (x != x and y != y) for x, y in zip(before, after))
      return out + [1.0 if same else 0.0]     # last entry: the operand kept its fields (C11)
    v = getattr(obj, name)
    if callable(v):
      v = v()
    return [cnum(v)]
  except ZeroDivisionError:
    return [NAN] * len(entry['outputs'])
  except Exception as e:  # pylint: disable=broad-except
    return {'err': err_kind(e)}


def run_retrieval_arrays(entry, case):
  """retrieval helper on 2-row arrays -> matrix of canonical numbers (rows x ks)"""
  mod = _import('retrieval')
  f = getattr(mod, entry['label'].split('.', 1)[1])
  arrs = dict(tp_at_topks=np.array(case['tp'], dtype=float), k_list=np.array([case['ks']]),
              y_pred_count=np.array(case['ypc']), y_true_len=np.array(case['ytl']))
  try:
    r = np.asarray(f(*[arrs[a['name']] for a in entry['args']]))
    return [[cnum(x) for x in row] for row in r.tolist()]
  except Exception as e:  # pylint: disable=broad-except
    return {'err': err_kind(e)}


def element_args(entry, case, i, j):
  k = case['ks'][j]
  per = dict(tp_at_topks=case['tp'][i][k - 1], k_list=k, y_pred_count=case['ypc'][i], y_true_len=case['ytl'][i])
  return [per[a['name']] for a in entry['args']]


# ----------------------------------------------------------------------------- independent specifications

def _sd(a, b):
  """documented safe_divide: 0 where the denominator is 0"""
  if b is None:
    return None
  if b == 0:
    return Fr(0)
  return None if a is None else a / b


def _div(a, b):
  if a is None or b is None or b == 0:
    return None
  return a / b


def spec_value(label, x):
  """textbook value of a pure function from its scalar arguments (Fractions, None = NaN), or 'skip'"""
  if label == 'math_utils.nanadd':
    a, b = x
    return None if (a is None and b is None) else (a or 0) + (b or 0)
  if label in ('retrieval._precision', 'retrieval._ppv', 'retrieval._positive_predictive_value'):
    return _div(x[0], min(x[1], x[2]))
  if label in ('retrieval._recall', 'retrieval._sensitivity', 'retrieval._tpr'):
    return _div(x[0], x[2])
  if label == 'retrieval._accuracy':
    return Fr(1 if x[0] > 0 else 0)
  if label == 'retrieval._miss_rate':
    r = _div(x[0], x[2])
    return None if r is None else 1 - r
  if label == 'retrieval._false_discovery_rate':
    r = _div(x[0], min(x[1], x[2]))
    return None if r is None else 1 - r
  if label == 'retrieval._intersection_over_union':   # |A∩B| / |A∪B|, A = first k predictions, B = truths
    tp, k, ytl, ypc = x
    return _div(tp, min(k, ypc) + ytl - tp)
  if label == 'retrieval._threat_score':                # tp / (tp + fn + fp) with fp counted as k - tp
    tp, k, ytl = x
    return _div(tp, tp + (ytl - tp) + (k - tp))
  if label == 'retrieval._f1_score':
    p, r = x
    if p is None or r is None:
      return 'skip'
    return _sd(2 * p * r, p + r)
  if label in ('Mean.total', 'MeanAndVariance.total'):
    c, m = x[0], x[1]
    return Fr(0) if not (c is not None and c > 0) else (None if m is None else m * c)
  if label == 'MeanState.result':
    return _sd(x[0], x[1])
  if label == 'R2Tjur.result':
    st, sp, snt, snp = x
    if None in x:
      return 'skip'
    return None if (st == 0 or snt == 0) else sp / st - snp / snt
  if label == 'R2TjurRelative.result':
    st, sp, snt, snp = x
    if None in x:
      return 'skip'
    if st == 0 or snp == 0:
      return None
    return 'skip' if snt == 0 else (sp / st) / (snp / snt)   # ratio of the two mean predictions
  if label == 'SymmetricPredictionDifference.result':
    n, s = x
    if None in x:
      return 'skip'
    return None if n == 0 else 2 * s / n
  if label == '_ThresholdedConfusionMatrix.precision':
    return _sd(x[1], x[3])
  if label == '_ThresholdedConfusionMatrix.recall':
    return _sd(x[0], x[2])
  if label == '_ThresholdedConfusionMatrix.f1_score':
    p, r = _sd(x[1], x[3]), _sd(x[0], x[2])
    return _sd(2 * p * r, p + r)
  return 'skip'


def stats(xs):
  v = [x for x in xs if x is not None]
  if not v:
    return [Fr(0), None, None]
  n = len(v)
  mu = sum(v) / n
  return [Fr(n), mu, sum((t - mu) ** 2 for t in v) / n]


def same(a, b):
  if a == NAN or b == NAN:
    return a == b
  return close(float(a), float(b), 1e-9, 1e-12)


# ----------------------------------------------------------------------------- case generation

def rnd(rng, kind='val', nan=0.12):
  if kind != 'count' and rng.random() < nan:
    return None
  if kind == 'count':
    return Fr(rng.choice([0, 0, 1, 2, 3, 5, 8]))
  if rng.random() < 0.12:
    return Fr(0)
  return Fr(rng.randint(-24, 24), rng.choice([1, 1, 2, 4]))


def gen_scalar_case(rng, entry):
  args = []
  for a in entry['args']:
    if a['kind'] == 'B':
      args.append(enc(rng.choice([0, 1])))
    elif a['name'] in INT_FIELDS:
      args.append(enc(rnd(rng, 'count')))
    else:
      args.append(enc(rnd(rng)))
  return {'t': 'gen', 'fn': entry['label'], 'args': args}


def gen_pool_case(rng, entry):
  """operands of a merge that are the statistics of two lists (C01: pooling)"""
  la = [rnd(rng, nan=0.25) for _ in range(rng.choice([0, 1, 2, 3, 5]))]
  lb = [rnd(rng, nan=0.25) for _ in range(rng.choice([0, 1, 2, 4]))]
  nf = len(entry['outputs'])
  return {'t': 'gen', 'fn': entry['label'], 'args': [enc(v) for v in stats(la)[:nf] + stats(lb)[:nf]],
          'lists': [[enc(v) for v in la], [enc(v) for v in lb]]}


def gen_retrieval_case(rng, entry):
  ks = sorted(rng.sample([1, 2, 3, 4], 2), reverse=rng.random() < .5)
  tp, ypc, ytl = [], [], []
  for _ in range(2):
    hits = [rng.random() < .5 for _ in range(4)]
    cum, row = 0, []
    for h in hits:
      cum += h
      row.append(cum)
    tp.append(row)
    ypc.append(rng.choice([1, 2, 3, 4, 5]))
    ytl.append(rng.choice([0, 1, 2, 3, 6]))
  return {'t': 'genarr', 'fn': entry['label'], 'tp': tp, 'ks': ks, 'ypc': ypc, 'ytl': ytl}


def is_array_fn(entry):
  return entry['module'] == 'retrieval' and entry['kind'] == 'function' and any(
      a['name'] in ('tp_at_topks', 'k_list', 'y_pred_count', 'y_true_len') for a in entry['args'])


class _Base:
  TRUSTED = [
      'translator translate/scalar.py (Python ast -> Lean) for the scalar arithmetic listed in its docstring; validated '
      'every run: each generated definition evaluated exactly by the driver vs the Python function on the same arguments',
      'semantic base of the generated code: lean/MlModel/Model/GenPrim.lean (IEEE + - * / with NaN = none, x/0 = none, '
      'comparisons, np.minimum, safe_divide, where) - hand-written; safe_divide / where / pos_sqrt bodies shape-checked',
      'whole-array guards np.all(np.isnan(X)) are parameters of the generated merge; the theorems instantiate them with '
      'the hand model\'s whole-array tests (numpy broadcasting / axis semantics stay hand-modelled: MV.bcast, Col.ofList)',
      'retrieval.py markers `_at_k(tp_at_topks, k_list)`, `x[:, np.newaxis]`, `k_list` are read as "this row, this k" '
      '(validated element by element on 2-row arrays); _mean_average_precision, _mean_reciprocal_rank, _dcg_score, '
      '_ndcg_score (cumsum / argmax / log2) stay hand-modelled',
  ]
  ASSUMPTIONS = []
  LABELS = ()          # which generated functions this sub-check exercises (None = all)
  N = (40, 400)

  @classmethod
  def entries(cls):
    m = manifest()
    return [e for l, e in m.items() if cls.LABELS is None or l in cls.LABELS]

  @classmethod
  def gen_cases(cls, ctx):
    rng = ctx.rng
    n = cls.N[0] if ctx.quick else cls.N[1]
    for e in cls.entries():
      if e['sqrt']:
        continue   # two-pass: stage `extra`
      for i in range(n):
        if is_array_fn(e):
          c = gen_retrieval_case(rng, e)
        elif e['label'] in POOL and i % 2 == 0:
          c = gen_pool_case(rng, e)
        else:
          c = gen_scalar_case(rng, e)
        ctx.count('generated fn', e['label'])
        yield c

  @staticmethod
  def run_impl(case):
    e = manifest()[case['fn']]
    if case['t'] == 'genarr':
      return {'m': run_retrieval_arrays(e, case)}
    return {'v': run_scalar(e, case['args'])}

  @staticmethod
  def model_requests(case):
    e = manifest()[case['fn']]
    if case['t'] == 'genarr':
      return [dict(model='genscalar', fn=case['fn'], args=element_args(e, case, i, j))
              for i in range(len(case['tp'])) for j in range(len(case['ks']))]
    return [dict(model='genscalar', fn=case['fn'], args=case['args'])]

  @staticmethod
  def model_obs(case, resps):
    for r in resps:
      if r.get('out') is None:
        return {'err': 'unknown generated function'}
    if case['t'] == 'genarr':
      nk = len(case['ks'])
      flat = [mnum(r['out'][0]) for r in resps]
      return {'m': [flat[i * nk:(i + 1) * nk] for i in range(len(case['tp']))]}
    out = [mnum(x) for x in resps[0]['out']]
    if manifest()[case['fn']]['kind'] == 'update':
      out.append(1.0)
    return {'v': out}

  @staticmethod
  def compare(a, b):
    if 'err' in b or any(isinstance(v, dict) for v in a.values()):
      return f'python {a} / generated {b}'
    xa = a.get('v') if 'v' in a else [x for row in a['m'] for x in row]
    xb = b.get('v') if 'v' in b else [x for row in b['m'] for x in row]
    if len(xa) != len(xb) or not all(same(x, y) for x, y in zip(xa, xb)):
      return f'python {xa} != generated definition {xb}'
    return None

  @staticmethod
  def oracle(case, obs):
    e = manifest()[case['fn']]
    label = case['fn']
    if case['t'] == 'genarr':
      if isinstance(obs['m'], dict):
        return f"{label} raised {obs['m']['err']}"
      for i in range(len(case['tp'])):
        for j in range(len(case['ks'])):
          x = [Fr(v) for v in element_args(e, case, i, j)]
          want = spec_value(label, x)
          if want != 'skip' and not same(obs['m'][i][j], NAN if want is None else float(want)):
            return f'{label}{tuple(map(str, x))} [row {i}, k={case["ks"][j]}] = {obs["m"][i][j]}, textbook {want}'
      return None
    v = obs['v']
    if isinstance(v, dict):
      return f"{label} raised {v['err']}"
    x = [frac(a) for a in case['args']]
    if e['kind'] == 'update':
      if v[-1] != 1.0:
        return f'{label}: the merged-in operand was modified'
      if label in SUMS:
        nf = len(e['outputs'])
        for i in range(nf):
          a, b = x[i], x[len(x) // 2 + i]
          want = None if (a is None or b is None) else a + b
          if not same(v[i], NAN if want is None else float(want)):
            return f'{label}: field {e["outputs"][i]} = {v[i]}, expected the sum {want}'
      if 'lists' in case:     # pooling: statistics of a ++ b
        la, lb = ([frac(t) for t in l] for l in case['lists'])
        if stats(lb)[1] is None:
          want = stats(la)        # an all-NaN / empty operand is a no-op
        else:
          want = stats(la + lb)
        for i in range(len(e['outputs'])):
          if not same(v[i], NAN if want[i] is None else float(want[i])):
            return (f'{label}: statistics of {case["lists"][0]} merged with those of {case["lists"][1]}: '
                    f'{e["outputs"][i]} = {v[i]}, of the concatenation {want[i]}')
      return None
    if any(a['kind'] == 'B' for a in e['args']):
      return None
    want = spec_value(label, x)
    if want != 'skip' and not same(v[0], NAN if want is None else float(want)):
      return f'{label}{tuple(map(str, x))} = {v[0]}, textbook {want}'
    return None

  @staticmethod
  def nontrivial(case, obs):
    if case['t'] == 'genarr':
      return True
    return sum(1 for a in case['args'] if a not in (0, NAN)) >= 2

  @staticmethod
  def finding(case, what):
    return None

  @classmethod
  def neighbours(cls, case, rng):
    if case.get('t') not in ('gen', 'genarr'):
      return
    e = manifest()[case['fn']]
    for _ in range(200):
      yield gen_retrieval_case(rng, e) if case['t'] == 'genarr' else gen_scalar_case(rng, e)

  @classmethod
  def extra(cls, ctx):
    """two-pass self-check of the generated definitions that contain sqrt"""
    es = [e for e in cls.entries() if e['sqrt']]
    if not es:
      return
    rng = ctx.rng
    cases = []
    for e in es:
      for _ in range(cls.N[0] if ctx.quick else cls.N[1]):
        if is_array_fn(e):
          c = gen_retrieval_case(rng, e)
          for i in range(2):
            for j in range(2):
              cases.append((e, c, (i, j), element_args(e, c, i, j)))
        else:
          c = gen_scalar_case(rng, e)
          cases.append((e, c, None, c['args']))
    r1 = ctx.lean.ask_many([dict(model='genscalar', fn=e['label'], args=a, rads=True) for e, _, _, a in cases])
    reqs = []
    for (e, _, _, a), r in zip(cases, r1):
      table = []
      for rad in r['out'] or []:
        f = frac(rad)
        s = None if (f is None or f < 0) else Fr(math.sqrt(float(f)))
        table.append([rad, enc(s)])
      reqs.append(dict(model='genscalar', fn=e['label'], args=a, sqrt=table))
    r2 = ctx.lean.ask_many(reqs)
    cache = {}
    for (e, c, ij, a), r, rr in zip(cases, r2, r1):
      ctx.extra_evals += 1
      ctx.count('generated fn', e['label'])
      if ij is None:
        got = run_scalar(e, a)
        got = got[0] if isinstance(got, list) else got
      else:
        key = json.dumps(c, sort_keys=True)
        if key not in cache:
          cache[key] = run_retrieval_arrays(e, c)
        m = cache[key]
        got = m[ij[0]][ij[1]] if isinstance(m, list) else m
      want = mnum(r['out'][0]) if r.get('out') else {'err': 'unknown generated function'}
      if isinstance(got, dict) or isinstance(want, dict) or not same(got, want):
        ctx.extra_disagreements.append(
            ('translator self-check (sqrt)', dict(c, family='generated'),
             dict(why=f'python {got} != generated definition {want}', at=ij, radicands=rr.get('out'))))


def check_fnapi_tables(ctx):
  """the extracted function-API tables vs the real functions: f(batch) must equal the aggregate the table names"""
  import importlib
  p = os.path.join(LEAN_DIR, 'MlModel', 'Generated', 'scalar_manifest.json')
  tables = json.load(open(p)).get('fnapi', {})
  rng = ctx.rng
  fr = importlib.import_module('ml_metrics._src.metrics.retrieval')
  ar = importlib.import_module('ml_metrics._src.aggregates.retrieval')
  fs = importlib.import_module('ml_metrics._src.metrics.rolling_stats')
  rs = importlib.import_module('ml_metrics._src.aggregates.rolling_stats')
  def canon(v):
    if isinstance(v, dict):
      return [x for k in sorted(v, key=str) for x in canon(v[k])]
    return [cnum(x) for x in np.asarray(v, dtype=float).ravel().tolist()]
  for name, metric, via in tables.get('retrieval', []):
    for _ in range(3 if ctx.quick else 30):
      n = rng.choice([1, 2, 4])
      yt = [[rng.randrange(5) for _ in range(rng.choice([1, 2, 3]))] for _ in range(n)]
      yp = [rng.sample(range(5), rng.choice([1, 2, 4])) for _ in range(n)]
      kl = rng.choice([None, [1], [1, 3], [2, 1]])
      case = dict(t='fnapi', fn=name, metric=metric, y_true=yt, y_pred=yp, k_list=kl, family='generated')
      ctx.extra_evals += 1
      ctx.count('fnapi table', name)
      try:
        if metric == '*':
          ms = ['precision', 'recall']
          got = canon(getattr(fr, name)(ms, y_true=yt, y_pred=yp, k_list=kl))
          want = canon(ar.TopKRetrieval(metrics=ms, k_list=kl).as_agg_fn()(yt, yp))
        else:
          got = canon(getattr(fr, name)(yt, yp, k_list=kl))
          acc = ar.TopKRetrieval(metrics=metric, k_list=kl)
          acc.add(yt, yp)
          want = canon(acc.result())
      except Exception as e:  # pylint: disable=broad-except
        ctx.extra_disagreements.append(('fnapi table', case, f'raised {err_kind(e)}: {e}'))
        continue
      if len(got) != len(want) or not all(same(a, b) for a, b in zip(got, want)):
        ctx.extra_disagreements.append(
            ('fnapi table', case, f'{name}(..) = {got} but the aggregate with metrics={metric} ({via}) gives {want}'))
  for name, cls, attr in tables.get('rolling', []):
    for _ in range(3 if ctx.quick else 30):
      batch = [float(rng.randint(-8, 8)) if rng.random() > .15 else float('nan') for _ in range(rng.choice([1, 3, 6]))]
      case = dict(t='fnapi', fn=name, cls=cls, attr=attr, batch=[NAN if b != b else b for b in batch], family='generated')
      ctx.extra_evals += 1
      ctx.count('fnapi table', name)
      got = canon(getattr(fs, name)(batch))
      want = canon(getattr(getattr(rs, cls)().add(batch), attr))
      if not all(same(a, b) for a, b in zip(got, want)):
        ctx.extra_disagreements.append(('fnapi table', case, f'{name}(batch) = {got}, {cls}().add(batch).{attr} = {want}'))


# ----------------------------------------------------------------------------- wiring tables (translate/wiring.py)
#
# lean/MlModel/Generated/Wiring.lean + wiring.json (written by translate/wiring.py in the regenerate step) hold, as
# data, every public function of metrics/classification.py (metric requested, keyword plumbing), the decision trees
# of ClassificationAggFn.__init__ / the _calculate_confusion_matrix methods, and the field-wise sums of
# _ConfusionMatrix.  Theorems: Properties/C07/GeneratedWiring.lean, Properties/C11/GeneratedCm.lean.
# Self-check (cases of kind "wiring"): every function f of the table is CALLED on inputs on which each keyword
# matters; the model side is the Lean `oneShot` on the configuration THE TABLE says f builds (its metric, its
# keyword plumbing); the oracle is the textbook value of the metric NAMED f under the caller's keywords (the
# independent oracle of harness/agg/classification.py) and function API == accumulator API.

WIRING_SCENARIOS = ('default', 'pos_label', 'input_type', 'average_vocab', 'k_list', 'samples')


def wiring():
  return json.load(open(os.path.join(LEAN_DIR, 'MlModel', 'Generated', 'wiring.json')))


_WIRING = {}


def wiring_cached():
  if 'w' not in _WIRING:
    _WIRING['w'] = wiring()
  return _WIRING['w']


def gen_wiring_case(rng, w, scen):
  """a call of the one-shot function w['name'] on which the keyword(s) of scenario `scen` change the result"""
  name = w['name']
  n = rng.choice([4, 6, 8])
  cfg = dict(metrics=[name], single=True, pos_label=1, input_type='binary', average='binary', vocab=None, k_list=None)
  if scen == 'default':
    b = {'yt': {'flat': [1, 0] + [rng.choice([0, 1]) for _ in range(n)]},
         'yp': {'flat': [0, 1] + [rng.choice([0, 1]) for _ in range(n)]}}
  elif scen == 'pos_label':      # labels {0, 2}: the default pos_label=1 is rejected by verify_input
    b = {'yt': {'flat': [2, 0] + [rng.choice([0, 2, 2]) for _ in range(n)]},
         'yp': {'flat': [0, 2] + [rng.choice([0, 2]) for _ in range(n)]}}
    cfg.update(pos_label=2)
  elif scen == 'input_type':     # multiclass micro: three classes
    b = {'yt': {'flat': [0, 1, 2] + [rng.choice([0, 1, 2]) for _ in range(n)]},
         'yp': {'flat': [1, 1, 0] + [rng.choice([0, 1, 2]) for _ in range(n)]}}
    cfg.update(input_type='multiclass', average='micro', vocab=[[0, 0], [1, 1], [2, 2]])
  elif scen == 'average_vocab':  # macro over a vocabulary with a class the batch never shows
    b = {'yt': {'flat': [0, 1, 2] + [rng.choice([0, 1, 2]) for _ in range(n)]},
         'yp': {'flat': [1, 1, 0] + [rng.choice([0, 1, 2]) for _ in range(n)]}}
    cfg.update(input_type='multiclass', average='macro', vocab=[[0, 0], [1, 1], [2, 2], [3, 3]])
  elif scen == 'k_list':         # rankings: top-1 differs from all predictions
    labels = [0, 1, 2, 3]
    b = {'yt': {'nested': [rng.sample(labels, rng.choice([1, 2])) for _ in range(n)]},
         'yp': {'nested': [rng.sample(labels, 3) for _ in range(n)]}}
    cfg.update(input_type='multiclass-multioutput', average='micro', vocab=[[l, l] for l in labels],
               k_list=rng.choice([[1], [2], [1, 2]]))
  else:                          # samples average over indicator rows
    b = {'yt': {'nested': [[rng.choice([0, 1, 1]) for _ in range(3)] for _ in range(n)]},
         'yp': {'nested': [[rng.choice([0, 1]) for _ in range(3)] for _ in range(n)]}}
    cfg.update(input_type='multiclass-indicator', average='samples')
  if name == 'classification_metrics':
    cfg.update(metrics=['precision', 'recall', 'specificity'], single=False)
  return {'t': 'wiring', 'scenario': scen,
          'inner': {'t': 'run', 'kind': 'wrapper', 'cfg': cfg, 'shards': [[b]], 'trees': [0], 'fn': name}}


def table_cfg(case):
  """the configuration the TABLE says the function builds from the caller's keywords, or None if the plumbing is
  ill-typed for the model (e.g. pos_label=input_type)"""
  W = wiring_cached()
  inner = case['inner']
  w = next((x for x in W['wrappers'] if x['name'] == inner['fn']), None)
  if w is None:
    return None
  user = inner['cfg']
  kw = {k: v for k, v in w['kw']}
  defaults = {k: v for k, v in W['init']['defaults']}
  enum_vals = W['enums']['ConfusionMatrixMetric']
  out = dict(user)

  def value(key):
    src = kw.get(key)
    if src is None:                      # keyword not passed: the default of ClassificationAggFn.__init__
      src = ['lit', defaults.get(key, ['none'])]
    if src[0] == 'param':
      if src[1] == 'metrics':
        return ('metrics', user['metrics'], user['single'])
      return user.get(src[1], ('?',))
    if src[0] == 'lit':
      c = src[1]
      return None if c[0] == 'none' else c[1]
    if src[0] == 'member':
      return ('metrics', [enum_vals[src[1]]], True)
    return ('?',)

  m = value('metrics')
  if not (isinstance(m, tuple) and m[0] == 'metrics'):
    return None
  out['metrics'], out['single'] = list(m[1]), m[2]
  for key, ok in (('pos_label', lambda v: isinstance(v, (int, str)) and not isinstance(v, bool)),
                  ('input_type', lambda v: isinstance(v, str)), ('average', lambda v: isinstance(v, str)),
                  ('vocab', lambda v: v is None or (isinstance(v, list) and all(isinstance(x, list) for x in v))),
                  ('k_list', lambda v: v is None or (isinstance(v, list) and all(isinstance(x, int) for x in v)))):
    v = value(key)
    if isinstance(v, tuple) or not ok(v):
      return None
    out[key] = v
  # utils.verify_input must see the caller's own arguments in its own order; anything else is outside the model
  want = [[p, ['param', p]] for p in ('y_true', 'y_pred', 'average', 'input_type', 'vocab', 'pos_label')]
  if w['verify'] != want or w['applied'] != [['param', 'y_true'], ['param', 'y_pred']]:
    return None
  return out


class Wiring:
  """cases of kind 'wiring' (routed here by C07.run_impl / model_requests / ...)"""

  @staticmethod
  def gen_cases(ctx):
    W = wiring_cached()
    for w in W['wrappers']:
      for scen in WIRING_SCENARIOS:
        for _ in range(1 if ctx.quick else 8):
          ctx.count('wiring wrapper', w['name'])
          ctx.count('wiring scenario', scen)
          yield gen_wiring_case(ctx.rng, w, scen)

  @staticmethod
  def run_impl(case):
    from harness.agg import classification as cf
    return cf.C07.run_impl(case['inner'])

  @staticmethod
  def model_requests(case):
    from harness.agg import classification as cf
    cfg = table_cfg(case)
    if cfg is None:
      return []
    return cf.C07.model_requests(dict(case['inner'], cfg=cfg))

  @staticmethod
  def model_obs(case, resps):
    from harness.agg import classification as cf
    cfg = table_cfg(case)
    if cfg is None or not resps:
      return {'fn': {'err': 'the wiring table has no meaning in the model (ill-typed plumbing)'}, 'acc': {}}
    return cf.C07.model_obs(dict(case['inner'], cfg=cfg), resps)

  @staticmethod
  def compare(a, b):
    from harness.agg import classification as cf
    if 'fn' not in a or 'fn' not in b:
      return 'wiring: malformed observation'
    fa, fb = dict(a['fn']), dict(b['fn'])
    fa.pop('stage', None), fb.pop('stage', None)
    # only the FUNCTION is compared with the table-built model (the accumulator side of the inner case is configured
    # by the function's NAME and is judged by the oracle)
    if not deep_close_(fa, fb):
      return f'function returns {fa}, the configuration of the generated table gives {fb}'
    return None

  @staticmethod
  def oracle(case, obs):
    from harness.agg import classification as cf
    return cf.C07.oracle(case['inner'], obs)

  @staticmethod
  def nontrivial(case, obs):
    return 'err' not in obs.get('fn', {})

  @staticmethod
  def finding(case, what):
    from harness.agg import classification as cf
    return cf.finding_class(case['inner'], what)

  @staticmethod
  def neighbours(case, rng):
    W = wiring_cached()
    w = next((x for x in W['wrappers'] if x['name'] == case['inner']['fn']), None)
    if w is None:
      return
    for _ in range(30):
      for scen in WIRING_SCENARIOS:
        yield gen_wiring_case(rng, w, scen)


def deep_close_(a, b):
  from harness.core import deep_close
  return deep_close(a, b, rel=1e-9, abs_=1e-9)


def _eval_tree(t, env):
  """python reading of a generated decision tree (wiring.json) -> ('raise', exc) | ('build', cls, kw) | ('call', fn, kw)"""
  def src(s):
    if s[0] == 'param':
      return env[s[1]]
    if s[0] == 'lit':
      return None if s[1][0] == 'none' else s[1][1]
    if s[0] == 'isEq':
      return src(s[1]) == s[2]
    if s[0] == 'coerce':
      return src(s[2])
    return ('?', s)
  def cond(c):
    k = c[0]
    if k == 'eq':
      return src(c[1]) == c[2]
    if k == 'isIn':
      return src(c[1]) in c[2]
    if k == 'truthy':
      return bool(src(c[1]))
    if k == 'isNone':
      return src(c[1]) is None
    if k == 'not':
      return not cond(c[1])
    if k == 'and':
      return cond(c[1]) and cond(c[2])
    return cond(c[1]) or cond(c[2])
  while t[0] == 'ite':
    t = t[2] if cond(t[1]) else t[3]
  if t[0] == 'build':
    return ('build', t[2], {k: src(v) for k, v in t[3]})
  if t[0] == 'call':
    return ('call', t[1], {k: src(v) for k, v in t[2]})
  return tuple(t)


def check_wiring_tables(ctx, parts=('init', 'cm')):
  """translator self-check of the parts of wiring.json that are not exercised through function calls: the decision
  tree of ClassificationAggFn.__init__ (which class, which keywords), the field-wise sums of _ConfusionMatrix, the
  alias / copy decisions of merge_states and the order of update_state's operands — each evaluated from the table
  in Python and compared with the real objects"""
  import importlib
  W = wiring_cached()
  rng = ctx.rng
  agg = importlib.import_module('ml_metrics._src.aggregates.classification')
  met = importlib.import_module('ml_metrics._src.metrics.classification')
  base = importlib.import_module('ml_metrics._src.aggregates.base')
  # ---- __init__ tree
  for av in ('binary', 'micro', 'macro', 'samples', 'weighted') if 'init' in parts else ():
    for kl in (None, [], [1], [2, 1]):
      for it in ('binary', 'multiclass', 'multiclass-multioutput', 'multiclass-indicator'):
        env = dict(metrics=['precision'], pos_label=1, input_type=it, average=av, vocab={0: 0, 1: 1}, dtype=None, k_list=kl)
        case = dict(t='wiring-init', average=av, k_list=kl, input_type=it, family='generated')
        ctx.extra_evals += 1
        ctx.count('wiring init tree', f'{av}/{"k" if kl else "-"}')
        want = _eval_tree(W['init']['tree'], env)
        try:
          fn = met.ClassificationAggFn(env['metrics'], **{k: v for k, v in env.items() if k != 'metrics'})
          inner = fn.agg_fn
          if isinstance(inner, agg.TopKConfusionMatrixAggFn):
            got = ('build', 'TopKConfusionMatrixAggFn', dict(vocab=inner.vocab, average=inner.average, dtype=inner.dtype,
                                                              metrics=inner.metrics, pos_label=inner.pos_label,
                                                              input_type=inner.input_type, k_list=inner.k_list))
          elif isinstance(inner, agg.ConfusionMatrixAggFn):
            got = ('build', 'ConfusionMatrixAggFn', dict(vocab=inner.vocab, average=inner.average, dtype=inner.dtype,
                                                          metrics=inner.metrics, pos_label=inner.pos_label,
                                                          input_type=inner.input_type))
          else:
            m = inner.metric if hasattr(inner, 'metric') else None
            got = ('build', 'SamplewiseConfusionMatrixAggFn', None)
        except Exception as e:  # pylint: disable=broad-except
          got = ('raise', type(e).__name__)
        ok = got[0] == want[0] and got[1] == want[1]
        if ok and got[0] == 'build' and got[2] is not None:
          ok = all(want[2].get(k, '<absent>') == v for k, v in got[2].items()) and set(want[2]) == set(got[2])
        # a constructor that raises is predicted by the tree as a `build` whose class refuses the configuration
        if not ok and want[0] == 'build' and got[0] == 'raise' and got[1] in ('ValueError', 'NotImplementedError'):
          try:
            getattr(agg, want[1])(**want[2])
          except Exception as e2:  # pylint: disable=broad-except
            ok = type(e2).__name__ == got[1]
        if not ok:
          ctx.extra_disagreements.append(('wiring table (ClassificationAggFn.__init__)', case,
                                          f'the generated tree predicts {want}, the real constructor gives {got}'))
  # ---- _ConfusionMatrix.__iadd__ / __add__ / update_state / merge_states
  M, G = W['cm_state'], W['agg_methods']
  for _ in range((10 if ctx.quick else 100) if 'cm' in parts else 0):
    a = [rng.randrange(0, 9) for _ in range(4)]
    b = [rng.randrange(10, 99) for _ in range(4)]
    case = dict(t='wiring-cm', a=a, b=b, family='generated')
    ctx.extra_evals += 1
    ctx.count('wiring cm state', 'iadd/add/update/merge')
    names = ('tp', 'tn', 'fp', 'fn')
    def mk(v):
      return agg._ConfusionMatrix(**{M['stored'][f]: np.asarray(x) for f, x in zip(names, v)})
    val = dict(self=dict(zip(names, a)), other=dict(zip(names, b)))
    def predicted(table):
      out = []
      for f in names:
        l, r = table[f]
        out.append(val[l[0]][l[1]] + (val[r[0]][r[1]] if r is not None else 0))
      return out
    x, y = mk(a), mk(b)
    z = x + y
    got_add = [int(getattr(z, f)) for f in names]
    x += y
    got_iadd = [int(getattr(x, f)) for f in names]
    kept = [int(getattr(y, f)) for f in names] == b
    if got_add != predicted(M['add']) or got_iadd != predicted(M['iadd']) or not kept:
      ctx.extra_disagreements.append(('wiring table (_ConfusionMatrix sums)', case,
                                      f'__add__ {got_add} / table {predicted(M["add"])}; __iadd__ {got_iadd} / table '
                                      f'{predicted(M["iadd"])}; operand kept: {kept}'))
    # merge_states: which state object becomes the result
    fn = agg.ConfusionMatrixAggFn(metrics='precision')
    s0, s1 = mk(a), mk(b)
    step = G['merge_states']['step']
    first = step[1] if step[0] == 'skipNone' else step
    take = first[1] if first[0] == 'first' else ['alias']
    pred0 = take[1] if take[0] == 'firstElse' else take[0]
    predn = take[2] if take[0] == 'firstElse' else take[0]
    r0 = fn.merge_states([s0, s1])
    s2 = mk(b)
    r1 = fn.merge_states([None, s2, mk(a)])
    got0, gotn = ('alias' if r0 is s0 else 'copy'), ('alias' if r1 is s2 else 'copy')
    if (got0, gotn) != (pred0, predn):
      ctx.extra_disagreements.append(('wiring table (merge_states: alias / copy)', case,
                                      f'first state at index 0: real {got0}, table {pred0}; at a later index: real '
                                      f'{gotn}, table {predn}'))
    if gotn == 'alias' or [int(getattr(s2, f)) for f in names] != b:
      ctx.extra_oracle_failures.append((case, 'merge_states([None, s, t]) modified or returned the state s, which is '
                                        'not the first state of the list (C11: only the first state may be modified)'))


class C07(_Base):
  LEAN_MODULES = ['MlModel.Properties.C07.Generated', 'MlModel.Properties.C07.GeneratedFnApi',
                  'MlModel.Properties.C07.GeneratedWiring']
  LABELS = None

  @classmethod
  def extra(cls, ctx):
    super().extra(ctx)
    check_fnapi_tables(ctx)
    check_wiring_tables(ctx)

  @classmethod
  def gen_cases(cls, ctx):
    yield from super().gen_cases(ctx)
    yield from Wiring.gen_cases(ctx)

  @staticmethod
  def run_impl(case):
    return Wiring.run_impl(case) if case['t'] == 'wiring' else _Base.run_impl(case)

  @staticmethod
  def model_requests(case):
    return Wiring.model_requests(case) if case['t'] == 'wiring' else _Base.model_requests(case)

  @staticmethod
  def model_obs(case, resps):
    return Wiring.model_obs(case, resps) if case['t'] == 'wiring' else _Base.model_obs(case, resps)

  @staticmethod
  def compare(a, b):
    return Wiring.compare(a, b) if ('fn' in a or 'fn' in b) else _Base.compare(a, b)

  @staticmethod
  def oracle(case, obs):
    return Wiring.oracle(case, obs) if case['t'] == 'wiring' else _Base.oracle(case, obs)

  @staticmethod
  def nontrivial(case, obs):
    return Wiring.nontrivial(case, obs) if case['t'] == 'wiring' else _Base.nontrivial(case, obs)

  @staticmethod
  def finding(case, what):
    return Wiring.finding(case, what) if case.get('t') == 'wiring' else None

  @classmethod
  def neighbours(cls, case, rng):
    if case.get('t') == 'wiring':
      yield from Wiring.neighbours(case, rng)
    else:
      yield from super().neighbours(case, rng)

  RULE = ('translator self-check: every definition generated by translate/scalar.py (list = scalar_manifest.json) on '
          'random scalar arguments (small dyadic rationals, zeros, NaN; counts 0..8), retrieval helpers on random 2-row '
          'arrays element by element, sqrt definitions in two passes (exact radicands, float64 roots); oracle = '
          'independent textbook formula of the same scalar quantity where one exists; non-trivial = at least two '
          'arguments that are neither 0 nor NaN')


class C01(_Base):
  LEAN_MODULES = ['MlModel.Properties.C01.Generated']
  LABELS = POOL
  N = (150, 1500)
  RULE = ('generated Mean.merge / MeanAndVariance.merge vs the Python methods on scalar states: half of the cases are '
          'the statistics (count, mean, population variance) of two random lists with NaN entries, where the oracle '
          'demands the statistics of the concatenation (Chan pooling); the rest arbitrary field values')


class C11(_Base):
  LEAN_MODULES = ['MlModel.Properties.C11.Generated', 'MlModel.Properties.C11.GeneratedCm']

  @classmethod
  def extra(cls, ctx):
    super().extra(ctx)
    check_wiring_tables(ctx, parts=('cm',))

  LABELS = SUMS + POOL
  N = (60, 600)
  RULE = ('generated merge methods vs the Python methods on scalar states; oracle: every field of the receiver is the '
          'sum of the two operands\' fields (field-wise merges) and the merged-in operand keeps its fields')


CHECKS = {'C07': C07, 'C01': C01, 'C11': C11}
