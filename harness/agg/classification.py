"""Metric family "classification": sub-checks of C01 / C11 / C07.

Real code (entered through the public constructors / functions a user calls):
  ml_metrics._src.aggregates.classification   ConfusionMatrixAggFn, TopKConfusionMatrixAggFn,
                                              SamplewiseClassification / SamplewiseConfusionMatrixAggFn,
                                              the ~30 derived rates behind ConfusionMatrixMetric
  ml_metrics._src.metrics.classification      ClassificationAggFn, classification_metrics, precision(), ...
  ml_metrics._src.signals.{flip_masks,topk_accuracy,cross_entropy}
Model: lean/MlModel/Model/Agg/Confusion*.lean + the *translated* rate table lean/MlModel/Generated/Rates*.lean
(driver model "aggclassification").  Theorems: lean/MlModel/Properties/{C01,C11,C07}/Classification.lean.

Case format (JSON):
  {"t": "run", "kind": "cm|topk|samplewise|wrapper", "cfg": {...}, "shards": [[batch,...],...],
   "trees": [tree,...], "fn": null | "<function name>", "probe": bool}
  {"t": "rates", "cms": [[tp,tn,fp,fn],...]}
  {"t": "signal", ...}
  batch = {"yt": rows, "yp": rows}; rows = {"flat": [...]} | {"nested": [[...],...]}
  tree  = shard index | [tree, ...]   (a list = merge_states of the children, in order)
"""
from __future__ import annotations

import copy
import itertools
import math
import types as _types
import warnings

import numpy as np

from harness.core import canon, close, deep_close, err_kind, rat_to_float

# ----------------------------------------------------------------------------- metric tables (spec side)

ALL_INPUT_TYPES = ['binary', 'multiclass', 'multiclass-multioutput', 'multiclass-indicator',
                   'continuous', 'continuous-multioutput']
ALL_AVERAGES = ['micro', 'macro', 'weighted', 'samples', 'binary']

# Textbook definitions (en.wikipedia.org/wiki/Confusion_matrix), written from the definitions, with the
# documented convention "a zero denominator gives 0".  NOT derived from the code.
def _ratio(a, b):
  return 0.0 if b == 0 else a / b


def _tpr(tp, tn, fp, fn): return _ratio(tp, tp + fn)
def _tnr(tp, tn, fp, fn): return _ratio(tn, tn + fp)
def _fpr(tp, tn, fp, fn): return _ratio(fp, fp + tn)
def _fnr(tp, tn, fp, fn): return _ratio(fn, fn + tp)
def _ppv(tp, tn, fp, fn): return _ratio(tp, tp + fp)
def _npv(tp, tn, fp, fn): return _ratio(tn, tn + fn)
def _plr(*c): return _ratio(_tpr(*c), _fpr(*c))
def _nlr(*c): return _ratio(_fnr(*c), _tnr(*c))


def _mcc(tp, tn, fp, fn):
  d = (tp + fp) * (tp + fn) * (tn + fp) * (tn + fn)
  return _ratio(tp * tn - fp * fn, math.sqrt(d))


def _pt(tp, tn, fp, fn):
  if tn + fp == 0:
    return None     # the false-positive rate is undefined: outside the definition's domain
  tpr, fpr = _tpr(tp, tn, fp, fn), _fpr(tp, tn, fp, fn)
  return _ratio(math.sqrt(tpr * fpr) - fpr, tpr - fpr)


SPEC = {
    'precision': _ppv, 'ppv': _ppv, 'positive_predictive_value': _ppv,
    'recall': _tpr, 'sensitivity': _tpr, 'tpr': _tpr,
    'specificity': _tnr, 'tnr': _tnr,
    'fall_out': _fpr, 'fpr': _fpr,
    'miss_rate': _fnr, 'fnr': _fnr,
    'negative_prediction_value': _npv, 'nvp': _npv,
    'false_discovery_rate': lambda tp, tn, fp, fn: _ratio(fp, fp + tp),
    'false_omission_rate': lambda tp, tn, fp, fn: _ratio(fn, fn + tn),
    'threat_score': lambda tp, tn, fp, fn: _ratio(tp, tp + fn + fp),
    'intersection_over_union': lambda tp, tn, fp, fn: _ratio(tp, tp + fn + fp),
    'f1_score': lambda tp, tn, fp, fn: _ratio(2 * tp, 2 * tp + fp + fn),
    'accuracy': lambda tp, tn, fp, fn: 1.0 if tp > 0 else 0.0,   # documented: "tp > 0", samplewise hit
    'binary_accuracy': lambda tp, tn, fp, fn: _ratio(tp + tn, tp + tn + fp + fn),
    'prevalence': lambda tp, tn, fp, fn: _ratio(tp + fn, tp + tn + fp + fn),
    'positive_likelihood_ratio': _plr,
    'negative_likelihood_ratio': _nlr,
    'diagnostic_odds_ratio': lambda *c: _ratio(_plr(*c), _nlr(*c)),
    'prevalence_threshold': _pt,
    'matthews_correlation_coefficient': _mcc,
    'informedness': lambda *c: _tpr(*c) + _tnr(*c) - 1,
    'markedness': lambda *c: _ppv(*c) + _npv(*c) - 1,
    'balanced_accuracy': lambda *c: (_tpr(*c) + _tnr(*c)) / 2,
}
DERIVED = sorted(SPEC)
ALIASES = [('precision', 'ppv'), ('precision', 'positive_predictive_value'), ('recall', 'sensitivity'),
           ('recall', 'tpr'), ('specificity', 'tnr'), ('fall_out', 'fpr'), ('miss_rate', 'fnr'),
           ('negative_prediction_value', 'nvp'), ('threat_score', 'intersection_over_union')]
UNIT_RANGE = ['precision', 'ppv', 'positive_predictive_value', 'recall', 'sensitivity', 'tpr', 'specificity',
              'tnr', 'fall_out', 'fpr', 'miss_rate', 'fnr', 'negative_prediction_value', 'nvp',
              'false_discovery_rate', 'false_omission_rate', 'threat_score', 'intersection_over_union',
              'f1_score', 'accuracy', 'binary_accuracy', 'prevalence', 'balanced_accuracy',
              'prevalence_threshold']
SYM_RANGE = ['informedness', 'markedness', 'matthews_correlation_coefficient']
SQRT_METRICS = ['matthews_correlation_coefficient', 'prevalence_threshold']
TN_FREE = ['precision', 'ppv', 'positive_predictive_value', 'recall', 'sensitivity', 'tpr', 'miss_rate', 'fnr',
           'false_discovery_rate', 'threat_score', 'intersection_over_union', 'f1_score', 'accuracy']

# ----------------------------------------------------------------------------- running the real code


def _mods():
  from ml_metrics._src.aggregates import classification as agg
  from ml_metrics._src.metrics import classification as met
  return agg, met


def py_rows(rows):
  return list(rows['flat']) if 'flat' in rows else [list(r) for r in rows['nested']]


def py_vocab(v):
  return None if v is None else {k: i for k, i in v}


def make_aggfn(kind, cfg):
  agg, met = _mods()
  metrics = cfg['metrics'][0] if cfg['single'] else list(cfg['metrics'])
  kw = dict(metrics=metrics, pos_label=cfg['pos_label'], input_type=cfg['input_type'],
            vocab=py_vocab(cfg['vocab']))
  if kind == 'cm':
    return agg.ConfusionMatrixAggFn(average=cfg['average'], **kw)
  if kind == 'topk':
    return agg.TopKConfusionMatrixAggFn(average=cfg['average'], k_list=tuple(cfg['k_list'] or ()), **kw)
  if kind == 'samplewise':
    return agg.SamplewiseConfusionMatrixAggFn(**kw)
  if kind == 'wrapper':
    ms = kw.pop('metrics')
    return met.ClassificationAggFn(ms, average=cfg['average'], k_list=cfg['k_list'], **kw)
  raise ValueError(kind)


def canon_value(v):
  agg, _ = _mods()
  if isinstance(v, agg._ConfusionMatrix):   # the CONFUSION_MATRIX "metric" returns the accumulator itself
    return {'cm': {k: canon(np.asarray(getattr(v, k)).tolist()) for k in ('tp', 'tn', 'fp', 'fn')}}
  if isinstance(v, np.ndarray):
    return [canon_value(x) for x in v.tolist()] if v.ndim else canon_value(v.item())
  if isinstance(v, (list, tuple)):
    return [canon_value(x) for x in v]
  if isinstance(v, (np.generic,)):
    return canon_value(v.item())
  if isinstance(v, bool):
    return int(v)
  if isinstance(v, float):
    return 'nan' if math.isnan(v) else v
  return v


def canon_result(r, single):
  if single or not isinstance(r, dict):
    return canon_value(r)
  return {str(getattr(k, 'value', k)): canon_value(v) for k, v in r.items()}


def eval_tree(fn, states, tree):
  if isinstance(tree, int):
    return states[tree]
  return fn.merge_states([eval_tree(fn, states, t) for t in tree])


def run_real(case, tree_index=0, states_hook=None):
  """Feeds the shards batch by batch through the AggregateFn API, merges along the tree, reads the result."""
  with warnings.catch_warnings():
    warnings.simplefilter('ignore')
    try:
      fn = make_aggfn(case['kind'], case['cfg'])
    except Exception as e:  # pylint: disable=broad-except
      return {'err': err_kind(e), 'stage': 'construct'}
    try:
      states = []
      for shard in case['shards']:
        st = fn.create_state()
        for b in shard:
          st = fn.update_state(st, py_rows(b['yt']), py_rows(b['yp']))
        states.append(st)
      if states_hook is not None:
        return states_hook(fn, states)
      st = eval_tree(fn, states, case['trees'][tree_index])
      return {'result': canon_result(fn.get_result(st), case['cfg']['single'])}
    except Exception as e:  # pylint: disable=broad-except
      return {'err': err_kind(e)}


FUNCTIONS = ['precision', 'ppv', 'recall', 'f1_score', 'accuracy', 'binary_accuracy', 'sensitivity', 'tpr',
             'specificity', 'tnr', 'fall_out', 'fpr', 'miss_rate', 'fnr', 'negative_prediction_value', 'nvp',
             'false_discovery_rate', 'false_omission_rate', 'threat_score', 'positive_likelihood_ratio',
             'negative_likelihood_ratio', 'diagnostic_odds_ratio', 'positive_predictive_value',
             'intersection_over_union', 'prevalence', 'prevalence_threshold',
             'matthews_correlation_coefficient', 'informedness', 'markedness', 'balanced_accuracy']


def run_function(case):
  """The one-shot function API: `precision(y_true, y_pred, ...)` or `classification_metrics([...], ...)`."""
  _, met = _mods()
  cfg, b = case['cfg'], case['shards'][0][0]
  kw = dict(pos_label=cfg['pos_label'], input_type=cfg['input_type'], average=cfg['average'],
            vocab=py_vocab(cfg['vocab']), k_list=cfg['k_list'])
  with warnings.catch_warnings():
    warnings.simplefilter('ignore')
    try:
      if case['fn'] == 'classification_metrics':
        ms = cfg['metrics'][0] if cfg['single'] else list(cfg['metrics'])
        r = met.classification_metrics(ms, y_true=py_rows(b['yt']), y_pred=py_rows(b['yp']), **kw)
      else:
        r = getattr(met, case['fn'])(py_rows(b['yt']), py_rows(b['yp']), **kw)
      return {'result': canon_result(r, cfg['single'])}
    except Exception as e:  # pylint: disable=broad-except
      return {'err': err_kind(e)}


# ----------------------------------------------------------------------------- the model side

def label_codes(case):
  """Injective coding of the labels of a case as ints (ints code themselves)."""
  labs = set()
  cfg = case['cfg']
  labs.add(cfg['pos_label'])
  for k, _ in cfg['vocab'] or []:
    labs.add(k)
  for shard in case['shards']:
    for b in shard:
      for rows in (b['yt'], b['yp']):
        if 'flat' in rows:
          labs.update(rows['flat'])
        else:
          for r in rows['nested']:
            labs.update(r)
  if all(isinstance(l, int) and not isinstance(l, bool) for l in labs):
    return {l: l for l in labs}
  return {l: i for i, l in enumerate(sorted(labs, key=lambda x: (str(type(x)), x)))}


def set_order(b, multioutput):
  """CPython's enumeration order of set(chain(y_true, y_pred)) — the external input of `get_vocab`.
  Only meaningful (process independent) for int labels; computed with Python's own set, not with the repo."""
  yt, yp = py_rows(b['yt']), py_rows(b['yp'])
  try:
    rows = itertools.chain(yt, yp)
    if multioutput:
      rows = itertools.chain.from_iterable(rows)
    return list(set(rows))
  except TypeError:
    return []


def model_request(case, tree_index=0):
  codes = label_codes(case)
  cfg = case['cfg']

  def enc_rows(rows):
    if 'flat' in rows:
      return {'flat': [codes[x] for x in rows['flat']]}
    return {'nested': [[codes[x] for x in r] for r in rows['nested']]}

  mo = cfg['input_type'] == 'multiclass-multioutput'
  shards = []
  for shard in case['shards']:
    bs = []
    for b in shard:
      e = {'yt': enc_rows(b['yt']), 'yp': enc_rows(b['yp'])}
      if not cfg['vocab']:
        e['order'] = [codes[x] for x in set_order(b, mo)]
      bs.append(e)
    shards.append(bs)
  mcfg = dict(metrics=cfg['metrics'], single=cfg['single'], pos_label=codes[cfg['pos_label']],
              input_type=cfg['input_type'], average=cfg['average'],
              vocab=None if cfg['vocab'] is None else [[codes[k], i] for k, i in cfg['vocab']],
              k_list=cfg['k_list'])
  return dict(model='aggclassification', op='run', kind=case['kind'], cfg=mcfg, shards=shards,
              tree=case['trees'][tree_index], fn=bool(case.get('fn')))


def surd_float(j):
  return rat_to_float(j['a']) + rat_to_float(j['b']) * math.sqrt(max(rat_to_float(j['r']), 0.0))


def _map_nested(f, x):
  if isinstance(x, list):
    return [_map_nested(f, y) for y in x]
  return f(x)


def model_value(j):
  """Driver JSON of one metric value -> canonical python value (floats)."""
  if isinstance(j, dict):
    if 'cm' in j:
      return j
    if 'surd' in j:
      cells = _map_nested(surd_float, j['surd']['cells'])
      act = j['surd']['action']
      if act == 'identity':
        return canon_value(np.asarray(cells)) if isinstance(cells, list) else cells
      with warnings.catch_warnings():
        warnings.simplefilter('ignore')
        return canon_value(np.mean(np.asarray(cells, dtype=float), axis=act['mean']))
    if 'surd_mean' in j:
      xs = [surd_float(c) for c in j['surd_mean']]
      return (sum(xs) / len(xs)) if xs else 0.0
    if set(j) == {'n', 'd'}:
      return rat_to_float(j)
  if isinstance(j, list):
    return [model_value(x) for x in j]
  return j


def model_result(resp, single):
  if 'err' in resp:
    out = {'err': resp['err']}
    if resp.get('stage') == 'construct':
      out['stage'] = 'construct'
    return out
  r = resp['result']
  if single or not isinstance(r, dict) or 'cm' in r or 'surd' in r or 'surd_mean' in r or set(r) == {'n', 'd'}:
    return {'result': model_value(r)}
  return {'result': {k: model_value(v) for k, v in r.items()}}


def same_obs(a, b):
  """impl observation vs model observation (floats with tolerance, errors by kind)."""
  a = dict(a)
  b = dict(b)
  if a.get('stage') == 'verify_input':
    a.pop('stage')
  return deep_close(a, b, rel=1e-9, abs_=1e-9)


# ----------------------------------------------------------------------------- textbook oracle (from raw examples)

NOT = ('<not-positive>',)   # the second class of a binary problem under micro / macro


def spec_universe_and_sets(cfg, batches, k=None):
  """Returns (universe, [(T_i, P_i)]) : the classes and, per example, the sets of true / predicted classes.
  Returns None when the encoding gives no textbook meaning (documented below)."""
  it, av, pos = cfg['input_type'], cfg['average'], cfg['pos_label']
  ex = []
  if it == 'binary':
    for b in batches:
      for y, p in zip(b['yt']['flat'], b['yp']['flat']):
        if av == 'binary':
          ex.append(({pos} if y == pos else set(), {pos} if p == pos else set()))
        else:
          ex.append(({pos} if y == pos else {NOT}, {pos} if p == pos else {NOT}))
    return ([pos] if av == 'binary' else [pos, NOT]), ex
  if it == 'multiclass-indicator':
    width = None
    for b in batches:
      for y, p in zip(b['yt']['nested'], b['yp']['nested']):
        width = len(y)
        ex.append(({c for c, v in enumerate(y) if v == pos}, {c for c, v in enumerate(p) if v == pos}))
    if width is None:
      return None
    if av == 'binary':       # documented: only the first column of a (<= 2)-column indicator is the positive class
      ex = [(t & {0}, p & {0}) for t, p in ex]
      return [0], ex
    return list(range(width)), ex
  if it in ('multiclass', 'multiclass-multioutput'):
    mo = it == 'multiclass-multioutput'
    for b in batches:
      yt, yp = py_rows(b['yt']), py_rows(b['yp'])
      for y, p in zip(yt, yp):
        if mo:
          ex.append((set(y), set(p if k is None else p[:k])))
        else:
          ex.append(({y}, {p}))
    if cfg['vocab']:
      universe = [key for key, _ in sorted(cfg['vocab'], key=lambda kv: kv[1])]
    else:
      seen = []
      for b in batches:
        yt, yp = py_rows(b['yt']), py_rows(b['yp'])
        for x in (itertools.chain.from_iterable(yt + yp) if mo else yt + yp):
          if x not in seen:
            seen.append(x)
      universe = seen
    if av == 'binary':
      if not cfg['vocab']:
        return None          # which class is "the" positive one is Python's set order: no textbook meaning
      universe = universe[:1]
      ex = [(t & set(universe), p & set(universe)) for t, p in ex]
    return universe, ex
  return None


def spec_counts(universe, cells):
  """cells: iterable of (is_true, is_pred) -> (tp, tn, fp, fn)"""
  tp = tn = fp = fn = 0
  for t, p in cells:
    if t and p:
      tp += 1
    elif t:
      fn += 1
    elif p:
      fp += 1
    else:
      tn += 1
  return tp, tn, fp, fn


def spec_metric(metric, cfg, universe, ex):
  """Textbook value of one derived metric for one averaging mode; None = outside the definition's domain."""
  av = cfg['average']
  f = SPEC[metric]
  if av in ('micro', 'binary'):
    return f(*spec_counts(universe, ((c in t, c in p) for t, p in ex for c in universe)))
  if av == 'macro':
    vals = [f(*spec_counts(universe, ((c in t, c in p) for t, p in ex))) for c in universe]
  elif av == 'samples':
    vals = [f(*spec_counts(universe, ((c in t, c in p) for c in universe))) for t, p in ex]
  else:
    return None
  if any(v is None for v in vals):
    return None
  if not vals:
    return 'nan' if av == 'macro' else 0.0
  return sum(vals) / len(vals)


def spec_cm(cfg, universe, ex):
  av = cfg['average']
  if av in ('micro', 'binary'):
    tp, tn, fp, fn = spec_counts(universe, ((c in t, c in p) for t, p in ex for c in universe))
    return {'cm': {'tp': tp, 'tn': tn, 'fp': fp, 'fn': fn}}
  if av == 'macro':
    rows = [spec_counts(universe, ((c in t, c in p) for t, p in ex)) for c in universe]
    return {'cm': {k: [r[i] for r in rows] for i, k in enumerate(('tp', 'tn', 'fp', 'fn'))}}
  return None


def textbook(case, batches):
  """Expected result of a run case over `batches` (list of batch dicts) from the textbook definitions.
  Returns (expected | None, note).  None = no expectation (rejected configuration, malformed data, ...)."""
  cfg, kind = case['cfg'], case['kind']
  it, av = cfg['input_type'], cfg['average']
  eff = kind
  if kind == 'wrapper':
    eff = 'samplewise' if av == 'samples' else ('topk' if cfg['k_list'] else 'cm')
  if eff == 'samplewise':
    cfg = dict(cfg, average='samples')
    av = 'samples'
  ks = [None]
  if eff == 'topk':
    ks = list(cfg['k_list'] or [])
  out = {}
  for m in cfg['metrics']:
    vals = []
    for k in ks:
      us = spec_universe_and_sets(cfg, batches, k)
      if us is None:
        return None, 'no textbook meaning'
      universe, ex = us
      if m == 'confusion_matrix':
        v = spec_cm(cfg, universe, ex)
      elif m in SPEC:
        v = spec_metric(m, cfg, universe, ex)
      else:
        return None, 'unsupported metric'
      vals.append(v)
    if eff == 'topk':
      if any(v is None for v in vals):
        out[m] = None
      elif m == 'confusion_matrix':
        out[m] = {'cm': {key: [v['cm'][key] for v in vals] for key in ('tp', 'tn', 'fp', 'fn')}}
      else:
        out[m] = vals
    else:
      out[m] = vals[0]
  return out, None


def well_formed_data(case):
  """The data fits the declared encoding (so that the textbook definitions apply)."""
  cfg = case['cfg']
  it = cfg['input_type']
  vocab_keys = {k for k, _ in cfg['vocab']} if cfg['vocab'] else None
  if cfg['vocab'] and sorted(i for _, i in cfg['vocab']) != list(range(len(cfg['vocab']))):
    return False
  for shard in case['shards']:
    for b in shard:
      nested = 'nested' in b['yt']
      if ('nested' in b['yp']) != nested:
        return False
      yt, yp = py_rows(b['yt']), py_rows(b['yp'])
      if len(yt) != len(yp):
        return False
      if it in ('binary', 'multiclass'):
        if nested:
          return False
      else:
        if not nested:
          return False
      if it == 'multiclass-indicator':
        if not yt:
          return False
        w = len(yt[0])
        if any(len(r) != w for r in yt + yp) or w == 0:
          return False
        if cfg['average'] == 'binary' and w > 2:
          return False
      if vocab_keys is not None and it in ('multiclass', 'multiclass-multioutput'):
        flat = (itertools.chain.from_iterable(yt + yp) if nested else yt + yp)
        if any(x not in vocab_keys for x in flat):
          return False
  return True


def accepted_config(case):
  """Configurations the documentation allows (everything else must be rejected by the constructor)."""
  cfg, kind = case['cfg'], case['kind']
  it, av = cfg['input_type'], cfg['average']
  if any(m not in SPEC and m != 'confusion_matrix' for m in cfg['metrics']):
    return False
  eff = kind
  if kind == 'wrapper':
    if av == 'samples' and cfg['k_list']:
      return False
    eff = 'samplewise' if av == 'samples' else ('topk' if cfg['k_list'] else 'cm')
  if eff == 'samplewise':
    return it in ('multiclass', 'multiclass-multioutput', 'multiclass-indicator') and \
        'confusion_matrix' not in cfg['metrics']
  if av not in ('micro', 'macro', 'binary'):
    return False
  if it not in ('binary', 'multiclass', 'multiclass-multioutput', 'multiclass-indicator'):
    return False
  if eff == 'topk':
    if it not in ('multiclass', 'multiclass-multioutput'):
      return False
    ks = cfg['k_list'] or []
    if not ks:
      return False
  if av == 'binary' and it in ('multiclass', 'multiclass-multioutput'):
    n = len(cfg['vocab']) if cfg['vocab'] else None
    if n is not None and n > 2:
      return False
  return True


def check_against_textbook(case, obs, batches):
  """C07 oracle on one result."""
  if not accepted_config(case) or not well_formed_data(case):
    return None
  exp, note = textbook(case, batches)
  if exp is None:
    return None
  if 'err' in obs:
    return f"accepted configuration on well-formed data raised {obs['err']}"
  res = obs['result']
  cfg = case['cfg']
  if cfg['single']:
    res = {cfg['metrics'][0]: res}
  for m, want in exp.items():
    if want is None:
      continue
    got = res.get(m)
    if isinstance(want, list) and any(w is None for w in want):
      continue
    if m == 'confusion_matrix' and not cfg['vocab'] and isinstance(got, dict) and 'cm' in got:
      # the class order of a deduced vocabulary is unspecified: compare per-class columns as a multiset
      got, want = _class_multiset(got), _class_multiset(want)
    if not deep_close(got, want, rel=1e-9, abs_=1e-9):
      return f'{m}: code returns {got}, textbook definition gives {want}'
  # documented aliases agree, rates stay in range
  for a, b in ALIASES:
    if a in res and b in res and not deep_close(res[a], res[b], rel=1e-12, abs_=1e-12):
      return f'aliases {a} and {b} differ: {res[a]} vs {res[b]}'
  for m, v in res.items():
    lo = 0.0 if m in UNIT_RANGE else (-1.0 if m in SYM_RANGE else None)
    if lo is None:
      continue
    for x in _flat(v):
      if isinstance(x, (int, float)) and not (lo - 1e-9 <= x <= 1 + 1e-9):
        return f'{m} = {x} is outside [{lo:g}, 1]'
  return None


def _class_multiset(cmv):
  """{'cm': {tp: [...per class...]}} (or k x class) -> per-class tuples sorted; scalars unchanged."""
  c = cmv['cm']
  a = [np.asarray(c[k]) for k in ('tp', 'tn', 'fp', 'fn')]
  if a[0].ndim == 0:
    return cmv
  st = np.stack(a, axis=0)                       # 4 x C   or 4 x K x C
  cols = [tuple(np.asarray(st[..., j]).reshape(-1).tolist()) for j in range(st.shape[-1])]
  return sorted(cols)


def _flat(v):
  if isinstance(v, list):
    for x in v:
      yield from _flat(x)
  else:
    yield v


# ----------------------------------------------------------------------------- generators

INT_LABELS = [0, 1, 2, 3, 4]
STR_LABELS = ['y', 'n', 'u', 'q']


def gen_vocab(rng, labels, mode):
  """mode: None | 'ordered' | 'permuted' | 'shared' | 'superset' | 'oob'
  shared   : two labels map to the same class id (all ids < len(vocab))
  superset : keys the data never uses, ids a permutation of range(len(vocab))
  oob      : one class id == len(vocab): an IndexError as soon as that label occurs (malformed)"""
  if mode is None:
    return None
  labs = list(labels)
  if mode == 'superset':
    extra = [97, 98] if all(isinstance(l, int) for l in labs) else ['zz1', 'zz2']
    labs = labs + extra[:rng.choice([1, 2])]
  idx = list(range(len(labs)))
  if mode in ('permuted', 'superset'):
    rng.shuffle(idx)
  if mode == 'shared' and len(labs) >= 2:
    rng.shuffle(idx)
    i, j = rng.sample(range(len(labs)), 2)
    idx[i] = idx[j]
  if mode == 'oob':
    idx[rng.randrange(len(labs))] = len(labs)
  return [[l, i] for l, i in zip(labs, idx)]


def gen_ranked_batch(rng, it, labels, n, maxlen=4, dup=False):
  """multiclass(-multioutput) data for the top-k accumulator: ragged rankings of length 0..maxlen (longer than
  the label set when `dup`), optionally with repeated labels inside a row."""
  if it == 'multiclass':
    return {'yt': {'flat': [rng.choice(labels) for _ in range(n)]},
            'yp': {'flat': [rng.choice(labels) for _ in range(n)]}}
  def row(minlen):
    k = rng.randrange(minlen, maxlen + 1)
    if dup:
      return [rng.choice(labels) for _ in range(k)]
    return rng.sample(labels, min(k, len(labels)))
  return {'yt': {'nested': [row(1) for _ in range(n)]},
          'yp': {'nested': [row(0) for _ in range(n)]}}


def gen_batch(rng, it, labels, n, width=3, maxlen=3, pos=1):
  if it in ('binary', 'multiclass', 'continuous'):
    return {'yt': {'flat': [rng.choice(labels) for _ in range(n)]},
            'yp': {'flat': [rng.choice(labels) for _ in range(n)]}}
  if it == 'multiclass-indicator':
    cellv = [pos, pos, 0 if pos != 0 else 1, 0 if pos != 0 else 1, 7]
    return {'yt': {'nested': [[rng.choice(cellv) for _ in range(width)] for _ in range(n)]},
            'yp': {'nested': [[rng.choice(cellv) for _ in range(width)] for _ in range(n)]}}
  # multioutput: ragged lists of distinct labels (rankings for y_pred)
  def row(minlen):
    k = rng.randrange(minlen, min(maxlen, len(labels)) + 1)
    return rng.sample(labels, k)
  return {'yt': {'nested': [row(1) for _ in range(n)]}, 'yp': {'nested': [row(0 if rng.random() < .1 else 1) for _ in range(n)]}}


def split_shards(rng, batch, it, allow_empty=True):
  """A random composition of one batch into shards of batches (rows kept in order)."""
  nested = 'nested' in batch['yt']
  key = 'nested' if nested else 'flat'
  yt, yp = batch['yt'][key], batch['yp'][key]
  n = len(yt)
  nb = rng.randrange(1, 5)
  cuts = sorted(rng.randrange(0, n + 1) for _ in range(nb - 1))
  bounds = [0] + cuts + [n]
  batches = []
  for a, b in zip(bounds, bounds[1:]):
    if a == b and (not allow_empty or it == 'multiclass-indicator'):
      continue
    batches.append({'yt': {key: yt[a:b]}, 'yp': {key: yp[a:b]}})
  if not batches:
    batches = [batch]
  ns = rng.randrange(1, min(3, len(batches)) + 1)
  scuts = sorted(rng.randrange(0, len(batches) + 1) for _ in range(ns - 1))
  sb = [0] + scuts + [len(batches)]
  shards = [batches[a:b] for a, b in zip(sb, sb[1:])]
  if not allow_empty:
    shards = [s for s in shards if s]
  return shards


def concat_batches(shards):
  bs = [b for s in shards for b in s]
  if not bs:
    return None
  key = 'nested' if 'nested' in bs[0]['yt'] else 'flat'
  return {'yt': {key: [x for b in bs for x in b['yt'][key]]}, 'yp': {key: [x for b in bs for x in b['yp'][key]]}}


def random_tree(rng, n):
  """A random bracketing of a random permutation of n leaves."""
  items = list(range(n))
  rng.shuffle(items)
  while len(items) > 1:
    k = rng.randrange(2, min(3, len(items)) + 1)
    i = rng.randrange(0, len(items) - k + 1)
    items[i:i + k] = [items[i:i + k]]
  t = items[0]
  return t if isinstance(t, list) else [t]


def gen_cfg(rng, kind, it, av, label_kind, with_vocab, metrics=None, single=False, k_list='auto'):
  labels = INT_LABELS[:rng.choice([2, 3, 4])] if label_kind == 'int' else STR_LABELS[:rng.choice([2, 3])]
  if it == 'binary':
    labels = labels[:rng.choice([2, 2, 3])]
  if av == 'binary' and it in ('multiclass', 'multiclass-multioutput'):
    labels = labels[:2]
  pos = 1
  if it == 'binary':
    pos = rng.choice(labels) if rng.random() < .8 else (9 if label_kind == 'int' else 'zz')
  elif it == 'multiclass-indicator':
    pos = rng.choice([1, 1, 1, 2, 0])
  vocab = None
  if it in ('multiclass', 'multiclass-multioutput') or rng.random() < .1:
    vocab = gen_vocab(rng, labels, with_vocab)
  if metrics is None:
    metrics = list(DERIVED)
    if kind != 'samplewise' and not (kind == 'wrapper' and av == 'samples'):
      metrics.append('confusion_matrix')
  if k_list == 'auto':
    k_list = None
    if kind == 'topk' or (kind == 'wrapper' and rng.random() < .4):
      k_list = rng.choice([[1], [1, 2], [2], [1, 2, 3], [1, 3]])
  cfg = dict(metrics=metrics, single=single, pos_label=pos, input_type=it, average=av, vocab=vocab, k_list=k_list)
  return cfg, labels


VALID_COMBOS = None


def valid_combos():
  """(kind, input type, average) triples the constructors accept."""
  out = []
  for it in ('binary', 'multiclass', 'multiclass-multioutput', 'multiclass-indicator'):
    for av in ('micro', 'macro', 'binary'):
      out.append(('cm', it, av))
      out.append(('wrapper', it, av))
      if it in ('multiclass', 'multiclass-multioutput'):
        out.append(('topk', it, av))
    if it != 'binary':
      out.append(('samplewise', it, 'samples'))
      out.append(('wrapper', it, 'samples'))
  return out


# ----------------------------------------------------------------------------- shared sub-check plumbing

TRUSTED = [
    'translator translate/run.py (Python ast -> Lean) for the ~30 rates, the ConfusionMatrixMetric enum and the '
    'derive_metric dispatch/averaging rule: trusted to preserve meaning for its grammar; cross-checked every run by '
    'evaluating the generated Lean definitions (exactly, in Q or Q(sqrt r)) and the Python functions on the same '
    'confusion matrices',
    'modelled, not verified: numpy ==, &, ~, sum(axis), vstack/T, asarray (ragged -> ValueError), broadcasting of '
    'equal-shaped arrays; CPython set enumeration order (input of the model when the vocabulary is deduced)',
    'labels are coded injectively as integers for the model; float64 rounding is outside the model (rel. tol. 1e-9)',
]
ASSUMPTIONS = [
    'y_true / y_pred have one entry per example (numpy length-1 broadcasting of mismatched inputs is outside the model)',
    'labels of one case are all ints or all strs; with a deduced vocabulary labels are ints (str hash order is per process)',
    'indicator batches are non-empty lists (an empty list has no width); an empty (0, W) array is not exercised',
]


def n_batches(case):
  return sum(len(s) for s in case['shards'])


def finding_class(case, what):
  """Known-finding input classes of this family (predicates over the case, not over the message)."""
  if case.get('t') != 'run':
    return None
  cfg, kind = case['cfg'], case['kind']
  it, av = cfg['input_type'], cfg['average']
  eff = kind
  if kind == 'wrapper':
    eff = 'samplewise' if av == 'samples' else ('topk' if cfg['k_list'] else 'cm')
  merges = any(isinstance(t, list) for t in case['trees'])
  if eff == 'topk':
    ks = list(cfg['k_list'] or [])
    if ks and (any(k <= 0 for k in ks) or any(a >= b for a, b in zip(ks, ks[1:]))):
      return 'FC4'
  if not cfg['vocab'] and it in ('multiclass', 'multiclass-multioutput') and (
      n_batches(case) > 1 or merges or eff == 'samplewise'):
    if isinstance(what, str) and what.startswith('tn-free'):
      return None        # F8 is confined to tn (C01_classification_novocab_tp_fp_fn): tp/fp/fn must not move
    return 'F8'
  if eff != 'samplewise' and av == 'macro' and not cfg['vocab'] and merges and \
      it in ('binary', 'multiclass-indicator'):
    return 'FC3'
  return None


def nontrivial_run(case, obs):
  if case.get('t') != 'run':
    return True
  n = sum(len(py_rows(b['yt'])) for s in case['shards'] for b in s)
  return n >= 2 and isinstance(obs, dict) and not any(
      isinstance(v, dict) and 'err' in v for v in obs.values() if isinstance(v, dict))


def shrink_run(case, fails):
  """Drop batches, then rows, while the failure persists."""
  cur = case
  changed = True
  while changed:
    changed = False
    for si, s in enumerate(cur['shards']):
      for bi, b in enumerate(s):
        key = 'nested' if 'nested' in b['yt'] else 'flat'
        n = len(b['yt'][key])
        for i in range(n):
          c = copy.deepcopy(cur)
          bb = c['shards'][si][bi]
          if len(bb['yp'][key]) != n:
            continue
          del bb['yt'][key][i]
          del bb['yp'][key][i]
          if fails(c):
            cur, changed = c, True
            break
        if changed:
          break
      if changed:
        break
    if not changed and len(cur['cfg']['metrics']) > 1:
      for m in cur['cfg']['metrics']:
        c = copy.deepcopy(cur)
        c['cfg']['metrics'] = [m]
        if fails(c):
          cur, changed = c, True
          break
  return cur



# ----------------------------------------------------------------------------- signals (flip masks, top-k accuracy, cross entropy)

def _q(x):
  """[num, den] -> driver rational"""
  return {'n': x[0], 'd': x[1]}


def _f(x):
  return x[0] / x[1]


def gen_signal_cases(rng, quick):
  dy = lambda lo=0, hi=16: [rng.randrange(lo, hi + 1), 16]
  for name in ('binary_flip_mask', 'neg_to_pos_flip_mask', 'pos_to_neg_flip_mask'):
    for b in (False, True):
      for m in (False, True):
        yield {'t': 'signal', 'name': name, 'threshold': None, 'base': b, 'model': m}
    for _ in range(8 if quick else 200):
      n = rng.randrange(0, 7)
      yield {'t': 'signal', 'name': name, 'threshold': dy(), 'base': [dy() for _ in range(n)],
             'model': [dy() for _ in range(n)]}
  for _ in range(60 if quick else 2000):
    n = rng.randrange(1, 7)
    while True:
      scores = [[rng.randrange(0, 64), 64] for _ in range(n)]
      weights = [[rng.choice([16, 8, 24, 32]), 16] for _ in range(n)] if rng.random() < .5 else [[1, 1]] * n
      w = [a[0] * b[0] * 1024 // (a[1] * b[1]) for a, b in zip(scores, weights)]
      if len(set(w)) == n:
        break
    yield {'t': 'signal', 'name': 'topk_accurate', 'scores': scores, 'weights': weights,
           'label': rng.randrange(0, n + (1 if rng.random() < .1 else 0)),
           'k': rng.choice([1, 1, 2, 3, n, n + 1, 0] if rng.random() < .2 else [1, 2, 3])}
  for name in ('binary_cross_entropy', 'categorical_cross_entropy'):
    for _ in range(30 if quick else 800):
      n = rng.randrange(1, 6)
      ys = [[rng.choice([0, 1]), 1] for _ in range(n)]
      if rng.random() < .1:
        ys[rng.randrange(n)] = [rng.choice([2, -1, 1]), rng.choice([1, 2])]
      ps = [[rng.randrange(1, 16), 16] for _ in range(n)]
      yield {'t': 'signal', 'name': name, 'y_true': ys, 'y_pred': ps}


def run_signal(case):
  from ml_metrics._src.signals import cross_entropy, flip_masks, topk_accuracy
  name = case['name']
  with warnings.catch_warnings():
    warnings.simplefilter('ignore')
    try:
      if name.endswith('flip_mask'):
        fn = getattr(flip_masks, name)
        if case['threshold'] is None:
          return {'out': int(bool(fn(np.bool_(case['base']), np.bool_(case['model']))))}
        r = fn(np.array([_f(x) for x in case['base']]), np.array([_f(x) for x in case['model']]),
               threshold=_f(case['threshold']))
        return {'out': [int(v) for v in np.asarray(r).tolist()]}
      if name == 'topk_accurate':
        r = topk_accuracy.topk_accurate(np.array([_f(x) for x in case['scores']]), case['label'],
                                        np.array([_f(x) for x in case['weights']]), case['k'])
        return {'out': bool(r)}
      fn = getattr(cross_entropy, name)
      r = fn(np.array([_f(x) for x in case['y_true']]), np.array([_f(x) for x in case['y_pred']]))
      return {'value': canon_value(float(r))}
    except Exception as e:  # pylint: disable=broad-except
      return {'err': err_kind(e)}


def signal_request(case):
  name = case['name']
  req = {'model': 'signals', 'name': name}
  if name.endswith('flip_mask'):
    if case['threshold'] is None:
      req.update(threshold=None, base_pred=case['base'], model_pred=case['model'])
    else:
      req.update(threshold=_q(case['threshold']), base_pred=[_q(x) for x in case['base']],
                 model_pred=[_q(x) for x in case['model']])
  elif name == 'topk_accurate':
    req.update(scores=[_q(x) for x in case['scores']], weights=[_q(x) for x in case['weights']],
               label=case['label'], k=case['k'])
  else:
    req.update(y_true=[_q(x) for x in case['y_true']], y_pred=[_q(x) for x in case['y_pred']])
  return req


def signal_model_obs(resp):
  if 'err' in resp:
    return {'err': resp['err']}
  if 'terms' in resp:
    tot = 0.0
    for t in resp['terms']:
      c, a = rat_to_float(t['c']), rat_to_float(t['a'])
      if c != 0:
        tot += c * math.log(a)
    return {'value': tot}
  return {'out': resp['out']}


def signal_oracle(case, obs):
  """textbook definitions of the signals (from their docstrings / the usual formulas)"""
  name = case['name']
  if name.endswith('flip_mask'):
    if 'err' in obs:
      return f"{name} raised {obs['err']}"
    if case['threshold'] is None:
      pairs, got = [(int(case['base']), int(case['model']))], [obs['out']]
      t = 0.5
    else:
      pairs = [(_f(b), _f(m)) for b, m in zip(case['base'], case['model'])]
      got, t = obs['out'], _f(case['threshold'])
    for (b, m), g in zip(pairs, got):
      want = {'binary_flip_mask': int((b > t) != (m > t)), 'neg_to_pos_flip_mask': int(b <= t < m),
              'pos_to_neg_flip_mask': int(b > t >= m)}[name]
      if g != want:
        return f'{name}(base={b}, model={m}, threshold={t}) = {g}, definition gives {want}'
    return None
  if name == 'topk_accurate':
    n, k, lab = len(case['scores']), case['k'], case['label']
    if k < 1 or lab >= n:
      return None       # outside the documented domain (label in [0, n), k >= 1)
    w = [_f(a) * _f(b) for a, b in zip(case['scores'], case['weights'])]
    want = sum(1 for x in w if x > w[lab]) < k
    if obs.get('out') != want:
      return f'topk_accurate = {obs}, label is{"" if want else " not"} among the {k} largest weighted scores'
    return None
  ys, ps = [_f(y) for y in case['y_true']], [_f(p) for p in case['y_pred']]
  if any(y not in (0, 1) for y in ys):
    return None if obs.get('err') == 'ValueError' else f'labels outside {{0,1}} accepted: {obs}'
  if 'err' in obs:
    return f"{name} raised {obs['err']}"
  if name == 'binary_cross_entropy':
    want = -sum(math.log(p if y == 1 else 1 - p) for y, p in zip(ys, ps)) / len(ys)
  else:
    tot = sum(ps)
    want = -sum(math.log(p / tot) for y, p in zip(ys, ps) if y == 1)
  if not close(float(obs['value']), want, 1e-9, 1e-12):
    return f"{name} = {obs['value']}, definition gives {want}"
  return None

# ----------------------------------------------------------------------------- C07

RATES_TOL = 1e-9


def perfect_square_cms(limit=9):
  """Small confusion matrices whose MCC radicand is a non-trivial perfect square (exact sqrt path)."""
  out = []
  for tp in range(limit):
    for tn in range(limit):
      for fp in range(limit):
        for fn in range(limit):
          if fp == fn:
            continue
          d = (tp + fp) * (tp + fn) * (tn + fp) * (tn + fn)
          if d > 0 and math.isqrt(d) ** 2 == d:
            out.append([tp, tn, fp, fn])
  return out


class C07:
  LEAN_MODULES = ['MlModel.Properties.C07.Classification', 'MlModel.Properties.C07.ClassificationSignals']
  TRUSTED = TRUSTED
  ASSUMPTIONS = ASSUMPTIONS
  RULE = ('(1) translator validation: every ConfusionMatrixMetric member evaluated by derive_metric on small-exhaustive '
          '(0..3)^4, perfect-square-radicand and random confusion matrices vs the generated Lean definitions; '
          '(2) every constructor x input type x average x label kind x vocab mode the constructors accept, all 30 derived '
          'metrics + confusion_matrix at once, on random batches, vs an independent textbook implementation from the raw '
          'examples; (3) the full cross product kind x input type x average x k_list incl. rejected ones (error kinds); '
          '(4) every one-shot function vs the accumulator path; (5) ~10% malformed data (labels outside the vocabulary, '
          'ragged / 1-d indicator input, length mismatch, bad vocabulary indices, odd k_lists); non-trivial = at least 2 '
          'examples and no error')

  @staticmethod
  def gen_cases(ctx):
    rng, quick = ctx.rng, ctx.quick
    yield from ctx.corpus('classification_C07')
    # (1) rates
    small = [list(t) for t in itertools.product(range(4), repeat=4)]
    for i in range(0, len(small), 64):
      yield {'t': 'rates', 'cms': small[i:i + 64]}
    sq = perfect_square_cms(7 if quick else 10)
    rng.shuffle(sq)
    sq = sq[:256 if quick else 2000]
    for i in range(0, len(sq), 64):
      yield {'t': 'rates', 'cms': sq[i:i + 64]}
    for _ in range(4 if quick else 40):
      yield {'t': 'rates', 'cms': [[rng.randrange(0, 60) for _ in range(4)] for _ in range(64)]}
    # (2) accepted combinations, all metrics
    reps = 6 if quick else 60
    for kind, it, av in valid_combos():
      for label_kind in ('int', 'str'):
        for vmode in (None, 'ordered', 'permuted'):
          if it in ('binary', 'multiclass-indicator') and vmode == 'permuted':
            continue
          if label_kind == 'str' and vmode is None and it in ('multiclass', 'multiclass-multioutput'):
            continue   # deduced vocabulary over str labels: hash order differs between processes
          for _ in range(reps):
            cfg, labels = gen_cfg(rng, kind, it, av, label_kind, vmode)
            if it == 'multiclass-indicator' and av == 'binary':
              width = rng.choice([1, 2])
            else:
              width = rng.choice([1, 2, 3, 4])
            n = rng.choice([0, 1, 2, 3, 5, 8]) if it != 'multiclass-indicator' else rng.choice([1, 2, 3, 5, 8])
            b = gen_batch(rng, it, labels, n, width=width, pos=cfg['pos_label'])
            ctx.count('combo', f'{kind}/{it}/{av}')
            yield {'t': 'run', 'kind': kind, 'cfg': cfg, 'shards': [[b]], 'trees': [0]}
    # (2b) top-k against the textbook "class in the first k predictions": ragged rankings, k beyond the length of
    #      some / all rankings, repeated labels, empty rankings, permuted vocabulary (C07_classification_topk_counts_*)
    for kind, it, av in [(k, i, a) for k in ('topk', 'wrapper') for i in ('multiclass-multioutput', 'multiclass')
                         for a in ('micro', 'macro')]:
      for vmode in ('ordered', 'permuted', 'superset'):
        for _ in range(reps):
          labels = INT_LABELS[:rng.choice([2, 3, 4, 5])]
          ks = rng.choice([[1, 3], [2, 4], [4], [1, 2, 3, 4, 5], [3], [2, 5], [5, 6]])
          cfg = dict(metrics=list(DERIVED) + ['confusion_matrix'], single=False, pos_label=1, input_type=it,
                     average=av, vocab=gen_vocab(rng, labels, vmode), k_list=ks)
          b = gen_ranked_batch(rng, it, labels, rng.choice([0, 1, 2, 3, 5]), maxlen=rng.choice([2, 3, 4, 6]),
                               dup=rng.random() < .4)
          C01._count_topk_arms(ctx, cfg, [[b]])
          yield {'t': 'run', 'kind': kind, 'cfg': cfg, 'shards': [[b]], 'trees': [0]}
    # single-metric form and subsets of metrics
    for _ in range(40 if quick else 600):
      kind, it, av = rng.choice(valid_combos())
      ms = rng.sample(DERIVED, rng.choice([1, 1, 2, 4]))
      cfg, labels = gen_cfg(rng, kind, it, av, 'int', rng.choice([None, 'ordered']), metrics=ms,
                            single=(len(ms) == 1 and rng.random() < .7))
      b = gen_batch(rng, it, labels, rng.choice([1, 2, 4, 7]), width=rng.choice([1, 2]) if av == 'binary' else 3,
                    pos=cfg['pos_label'])
      yield {'t': 'run', 'kind': kind, 'cfg': cfg, 'shards': [[b]], 'trees': [0]}
    # (3) full cross product incl. rejected configurations
    for kind in ('cm', 'topk', 'samplewise', 'wrapper'):
      for it in ALL_INPUT_TYPES + ['foo']:
        for av in ALL_AVERAGES + ['bar']:
          for kl in ([None] if kind in ('cm', 'samplewise') else [None, [], [1], [1, 2], [2, 1], [1, 1, 2], [0], [0, 2], [-1, 1], [3]]):
            for ms in (['precision'], ['recall', 'confusion_matrix'], ['mean_average_precision', 'precision'], ['nope']):
              if ms != ['precision'] and rng.random() < (.8 if quick else .3):
                continue
              labels = [0, 1, 2]
              vocab = rng.choice([None, [[0, 0], [1, 1], [2, 2]]])
              cfg = dict(metrics=ms, single=False, pos_label=1, input_type=it, average=av, vocab=vocab, k_list=kl)
              dit = it if it in ('binary', 'multiclass', 'multiclass-multioutput', 'multiclass-indicator') else 'multiclass'
              b = gen_batch(rng, dit, labels, 4, width=2)
              ctx.count('cross', f'{kind}/{it}/{av}')
              yield {'t': 'run', 'kind': kind, 'cfg': cfg, 'shards': [[b]], 'trees': [0]}
    # (4) one-shot functions vs accumulator
    for fname in FUNCTIONS + ['classification_metrics']:
      for _ in range(3 if quick else 30):
        kind, it, av = rng.choice([c for c in valid_combos() if c[0] == 'wrapper'])
        ms = [fname] if fname != 'classification_metrics' else rng.sample(DERIVED, 3)
        cfg, labels = gen_cfg(rng, 'wrapper', it, av, rng.choice(['int', 'int', 'str']) if it == 'binary' else 'int',
                              rng.choice([None, 'ordered']), metrics=ms, single=(fname != 'classification_metrics'))
        b = gen_batch(rng, it, labels, rng.choice([1, 3, 6]), width=rng.choice([1, 2]) if av == 'binary' else 3,
                      pos=cfg['pos_label'])
        yield {'t': 'run', 'kind': 'wrapper', 'cfg': cfg, 'shards': [[b]], 'trees': [0], 'fn': fname}
    # (6) signals
    yield from gen_signal_cases(rng, quick)
    # (5) malformed data
    for _ in range(150 if quick else 2500):
      kind, it, av = rng.choice(valid_combos())
      cfg, labels = gen_cfg(rng, kind, it, av, 'int', rng.choice([None, 'ordered', 'ordered']),
                            metrics=['precision', 'specificity'])
      b = gen_batch(rng, it, labels, rng.choice([2, 3, 4]), width=3, pos=cfg['pos_label'])
      how = rng.choice(['oov', 'ragged', 'flat_for_nested', 'nested_for_flat', 'len', 'vocab_idx', 'klist', 'empty_vocab'])
      key = 'nested' if 'nested' in b['yt'] else 'flat'
      if how == 'oov':
        side = rng.choice(['yt', 'yp'])
        if key == 'flat':
          b[side][key][rng.randrange(len(b[side][key]))] = 9
        else:
          b[side][key][rng.randrange(len(b[side][key]))].append(9)
      elif how == 'ragged' and key == 'nested':
        b['yt'][key][0] = b['yt'][key][0] + [1]
      elif how == 'flat_for_nested' and key == 'nested':
        b = {'yt': {'flat': [1, 0, 1]}, 'yp': {'flat': [1, 1, 0]}}
      elif how == 'nested_for_flat' and key == 'flat' and it != 'binary':
        b = {'yt': {'nested': [[1], [0]]}, 'yp': {'nested': [[1], [1]]}}
      elif how == 'len' and len(b['yt'][key]) >= 3:
        b['yp'][key] = b['yp'][key][:-1]
      elif how == 'vocab_idx' and cfg['vocab']:
        cfg['vocab'][-1][1] = rng.choice([len(cfg['vocab']), len(cfg['vocab']) + 3, 0])
      elif how == 'klist' and kind in ('topk', 'wrapper'):
        cfg['k_list'] = rng.choice([[2, 1], [1, 1], [0, 1], [0], [-2, 2], [5]])
        if kind == 'wrapper' and (av == 'samples' or it not in ('multiclass', 'multiclass-multioutput')):
          cfg['k_list'] = None
      elif how == 'empty_vocab':
        cfg['vocab'] = []
      yield {'t': 'run', 'kind': kind, 'cfg': cfg, 'shards': [[b]], 'trees': [0], 'malform': how}

  @staticmethod
  def run_impl(case):
    if case['t'] == 'signal':
      return run_signal(case)
    if case['t'] == 'rates':
      agg, _ = _mods()
      rows = []
      with warnings.catch_warnings():
        warnings.simplefilter('ignore')
        for tp, tn, fp, fn in case['cms']:
          cm = agg._ConfusionMatrix(tp, tn, fp, fn)
          row = {}
          for m in agg.ConfusionMatrixMetric:
            try:
              v = cm.derive_metric(m)
              row[m.value] = 'self' if v is cm else canon_value(v)
            except NotImplementedError:
              row[m.value] = 'notimpl'
          rows.append(row)
      return {'rows': rows}
    if case.get('fn'):
      acc = run_real(case)
      return {'fn': run_function(case), 'acc': acc}
    return run_real(case)

  @staticmethod
  def model_requests(case):
    if case['t'] == 'signal':
      return [signal_request(case)]
    if case['t'] == 'rates':
      return [dict(model='aggclassification', op='rates', cms=case['cms'])]
    if case.get('fn'):
      return [model_request(case), dict(model_request(case), fn=False)]
    return [model_request(case)]

  @staticmethod
  def model_obs(case, resps):
    if case['t'] == 'signal':
      return signal_model_obs(resps[0])
    if case['t'] == 'rates':
      return {'rows': [{k: (v if isinstance(v, str) else (surd_float(v) if 'a' in v else rat_to_float(v)))
                        for k, v in row.items()} for row in resps[0]['rows']]}
    single = case['cfg']['single']
    if case.get('fn'):
      return {'fn': model_result(resps[0], single), 'acc': model_result(resps[1], single)}
    return model_result(resps[0], single)

  @staticmethod
  def compare(a, b):
    if 'fn' in a and 'fn' in b:
      fa = dict(a['fn'])
      fb = dict(b['fn'])
      fa.pop('stage', None)
      fb.pop('stage', None)
      ok = deep_close(fa, fb, rel=RATES_TOL, abs_=1e-9) and same_obs(a['acc'], b['acc'])
    elif 'rows' in a or 'out' in a or 'value' in a:
      ok = deep_close(a, b, rel=RATES_TOL, abs_=1e-9)
    else:
      ok = same_obs(a, b)
    return None if ok else 'real code and model differ'

  @staticmethod
  def oracle(case, obs):
    if case['t'] == 'signal':
      return signal_oracle(case, obs)
    if case['t'] == 'rates':
      for cmv, row in zip(case['cms'], obs['rows']):
        for m, f in SPEC.items():
          want = f(*cmv)
          if want is None:
            continue
          if m not in row:
            return f'enum has no member {m}'
          if not close(float(row[m]), float(want), RATES_TOL, 1e-12):
            return f'{m}{tuple(cmv)} (tp,tn,fp,fn) = {row[m]}, textbook {want}'
        for a, b in ALIASES:
          if row[a] != row[b]:
            return f'aliases {a}/{b} differ on {cmv}'
        for m in UNIT_RANGE + SYM_RANGE:
          lo = 0.0 if m in UNIT_RANGE else -1.0
          if not (lo - 1e-12 <= row[m] <= 1 + 1e-12):
            return f'{m}{tuple(cmv)} = {row[m]} outside [{lo:g},1]'
      return None
    batches = [b for s in case['shards'] for b in s]
    if case.get('fn'):
      cfg = case['cfg']
      b = batches[0]
      labs = (set(py_rows(b['yt'])) | set(py_rows(b['yp']))) if 'flat' in b['yt'] else set()
      if cfg['vocab']:
        labs = {k for k, _ in cfg['vocab']}
      # documented (utils.verify_input): binary input + binary average needs pos_label among the labels
      documented = cfg['input_type'] == 'binary' and cfg['average'] == 'binary' and cfg['pos_label'] not in labs
      if 'err' in obs['fn'] and documented:
        return None if obs['fn']['err'] == 'ValueError' else f"pos_label check raised {obs['fn']['err']}"
      r = check_against_textbook(case, obs['fn'], batches)
      if r is not None:
        return 'function API: ' + r
      # one-shot function == accumulator API
      strip = lambda o: {k: v for k, v in o.items() if k != 'stage'}
      if not deep_close(strip(obs['fn']), strip(obs['acc']), rel=1e-12, abs_=1e-12):
        return f"function API returns {obs['fn']}, accumulator API returns {obs['acc']}"
      return None
    return check_against_textbook(case, obs, batches)

  nontrivial = staticmethod(lambda case, obs: case['t'] in ('rates', 'signal') or (
      sum(len(py_rows(b['yt'])) for s in case['shards'] for b in s) >= 2 and 'err' not in (obs.get('fn') or obs)))
  finding = staticmethod(finding_class)

  @staticmethod
  def shrink(case, fails):
    return shrink_run(case, fails) if case['t'] == 'run' else case

  @staticmethod
  def neighbours(case, rng):
    for _ in range(300):
      kind, it, av = rng.choice(valid_combos())
      cfg, labels = gen_cfg(rng, kind, it, av, 'int', rng.choice([None, 'ordered', 'permuted']))
      b = gen_batch(rng, it, labels, rng.choice([1, 2, 3, 5]), width=rng.choice([1, 2]) if av == 'binary' else 3,
                    pos=cfg['pos_label'])
      yield {'t': 'run', 'kind': kind, 'cfg': cfg, 'shards': [[b]], 'trees': [0]}
    for _ in range(20):
      yield {'t': 'rates', 'cms': [[rng.randrange(0, 12) for _ in range(4)] for _ in range(64)]}


# ----------------------------------------------------------------------------- C01

def singletons_case(case):
  """Every example as its own batch (one shard): the per-example values must not change."""
  b = concat_batches(case['shards'])
  key = 'nested' if 'nested' in b['yt'] else 'flat'
  n = len(b['yt'][key])
  bs = [{'yt': {key: [b['yt'][key][i]]}, 'yp': {key: [b['yp'][key][i]]}} for i in range(n)]
  return dict(case, shards=[bs], trees=[0])


def per_example_real(case):
  """`SamplewiseClassification.add` returns the per-example values of the batch (object API)."""
  agg, _ = _mods()
  cfg = case['cfg']
  metrics = cfg['metrics'][0] if cfg['single'] else list(cfg['metrics'])
  with warnings.catch_warnings():
    warnings.simplefilter('ignore')
    try:
      m = agg.SamplewiseClassification(metrics=metrics, pos_label=cfg['pos_label'], input_type=cfg['input_type'],
                                       vocab=py_vocab(cfg['vocab']))
      out = []
      for shard in case['shards']:
        for b in shard:
          r = m.add(py_rows(b['yt']), py_rows(b['yp']))
          out.append({str(getattr(k, 'value', k)): canon_value(v) for k, v in r.items()})
      return {'per_example': out, 'result': canon_result(m.result(), cfg['single'])}
    except Exception as e:  # pylint: disable=broad-except
      return {'err': err_kind(e)}


def model_per_example(resp):
  if 'err' in resp:
    return {'err': resp['err']}
  out = []
  for shard in resp['per_example']:
    for b in shard:
      out.append({k: [surd_float(x) if 'a' in x else rat_to_float(x) for x in v] for k, v in b.items()})
  return out


def is_samplewise(case):
  return case['kind'] == 'samplewise' or (
      case['kind'] == 'wrapper' and case['cfg']['average'] == 'samples' and not case['cfg']['k_list'])


def as_samplewise(case):
  """the per-example probes go through the SamplewiseClassification object itself"""
  return dict(case, kind='samplewise', cfg=dict(case['cfg'], k_list=None))


class C01:
  LEAN_MODULES = ['MlModel.Properties.C01.Classification']
  TRUSTED = TRUSTED
  ASSUMPTIONS = ASSUMPTIONS + [
      'a run feeds at least one batch (get_result of a never-updated ConfusionMatrixAggFn state is an AttributeError)']
  RULE = ('every accepted constructor x input type x average, explicit / permuted / deduced vocabulary, int and str '
          'labels: a random dataset, a random composition into shards and batches (empty batches and empty shards '
          'included), merged with merge_states; compared with the same dataset fed as one batch; for the samplewise '
          'metric additionally the per-example values of the batch vs every example alone; top-k: ragged rankings, '
          'k_list with gaps / k beyond the longest ranking of a batch, empty batches and shards, repeated labels, '
          'vocabularies with permuted / shared / unused / out-of-range ids (arms enforced, hist topk_arm); without a '
          'vocabulary the tn-free part (tp, fp, fn and the rates that do not read tn) is still required to be '
          'invariant; non-trivial = at least 2 batches with data and no error')

  @staticmethod
  def gen_cases(ctx):
    rng, quick = ctx.rng, ctx.quick
    yield from ctx.corpus('classification_C01')
    reps = 8 if quick else 120
    for kind, it, av in valid_combos():
      for vmode in (None, 'ordered', 'permuted'):
        if it in ('binary', 'multiclass-indicator') and vmode == 'permuted':
          continue
        for _ in range(reps):
          label_kind = 'int' if (vmode is None or rng.random() < .6) else 'str'
          ms = rng.sample(DERIVED, 5) + (['confusion_matrix'] if av != 'samples' and rng.random() < .5 else [])
          if rng.random() < .3:
            ms = list(DERIVED)
          cfg, labels = gen_cfg(rng, kind, it, av, label_kind, vmode, metrics=ms)
          width = rng.choice([1, 2]) if (it == 'multiclass-indicator' and av == 'binary') else rng.choice([2, 3])
          n = rng.choice([1, 2, 3, 4, 6, 9])
          whole = gen_batch(rng, it, labels, n, width=width, pos=cfg['pos_label'])
          shards = split_shards(rng, whole, it)
          if n_batches({'shards': shards}) == 0:
            shards = [[whole]]
          ns = len(shards)
          tree = list(range(ns)) if (ns > 1 or rng.random() < .5) else 0
          ctx.count('combo', f'{kind}/{it}/{av}/{"vocab" if cfg["vocab"] else "novocab"}')
          ctx.count('batches', n_batches({'shards': shards}))
          yield {'t': 'run', 'kind': kind, 'cfg': cfg, 'shards': shards, 'trees': [tree]}
    # -- the branches of the top-k closed form (Lemmas/ConfusionTopKShard) and of the arbitrary-vocabulary
    #    encoders (Lemmas/ConfusionVocab): ragged rankings, k beyond the longest ranking of a batch, empty
    #    batches / shards, repeated labels, vocabularies with permuted / shared / unused / out-of-range ids
    reps = 6 if quick else 80
    for kind, it, av in [(k, i, a) for k in ('topk', 'wrapper') for i in ('multiclass-multioutput', 'multiclass')
                         for a in ('micro', 'macro')]:
      for vmode in ('ordered', 'permuted', 'shared', 'superset', 'oob', None):
        for _ in range(reps):
          labels = INT_LABELS[:rng.choice([2, 3, 4, 5])]
          ks = rng.choice([[1, 3], [2, 4], [4], [1, 2, 3, 4, 5], [3], [2, 5], [1], [5, 6]])
          ms = rng.sample(DERIVED, 4) + ['confusion_matrix']
          cfg = dict(metrics=ms, single=False, pos_label=1, input_type=it, average=av,
                     vocab=gen_vocab(rng, labels, vmode), k_list=ks)
          dup = rng.random() < .4
          whole = gen_ranked_batch(rng, it, labels, rng.choice([1, 2, 3, 4, 6, 9]), maxlen=rng.choice([2, 3, 4, 6]),
                                   dup=dup)
          shards = split_shards(rng, whole, it)
          if n_batches({'shards': shards}) == 0:
            shards = [[whole]]
          if rng.random() < .3:
            shards.insert(rng.randrange(len(shards) + 1), [])
          tree = list(range(len(shards)))
          C01._count_topk_arms(ctx, cfg, shards)
          ctx.count('combo', f'{kind}/{it}/{av}/{"vocab" if cfg["vocab"] else "novocab"}')
          yield {'t': 'run', 'kind': kind, 'cfg': cfg, 'shards': shards, 'trees': [tree]}
    # -- arbitrary vocabularies for the plain and the samplewise accumulator
    for kind, it, av in [('cm', 'multiclass', 'micro'), ('cm', 'multiclass', 'macro'),
                         ('cm', 'multiclass-multioutput', 'micro'), ('cm', 'multiclass-multioutput', 'macro'),
                         ('samplewise', 'multiclass', 'samples'), ('samplewise', 'multiclass-multioutput', 'samples')]:
      for vmode in ('shared', 'superset', 'oob'):
        for _ in range(reps):
          labels = INT_LABELS[:rng.choice([2, 3, 4])]
          ms = rng.sample(DERIVED, 4) + (['confusion_matrix'] if av != 'samples' else [])
          cfg = dict(metrics=ms, single=False, pos_label=1, input_type=it, average=av,
                     vocab=gen_vocab(rng, labels, vmode), k_list=None)
          whole = gen_ranked_batch(rng, it, labels, rng.choice([1, 2, 3, 5]), maxlen=3, dup=rng.random() < .4)
          if it == 'multiclass-multioutput' and av == 'samples':
            whole['yp']['nested'] = [r or [labels[0]] for r in whole['yp']['nested']]
          shards = split_shards(rng, whole, it)
          if n_batches({'shards': shards}) == 0:
            shards = [[whole]]
          ctx.count('vocab_arm', f'{kind}/{vmode}')
          yield {'t': 'run', 'kind': kind, 'cfg': cfg, 'shards': shards, 'trees': [list(range(len(shards)))]}

  TOPK_ARMS = ['ragged_rows', 'row_shorter_than_some_k', 'k_beyond_longest_row_of_a_batch', 'empty_batch',
               'empty_shard', 'empty_prediction_row', 'repeated_label_in_row', 'k_list_gap', 'vocab_permuted',
               'vocab_shared_id', 'vocab_unused_key', 'vocab_id_out_of_range', 'no_vocab', 'macro', 'micro',
               'multiclass_input', 'at_least_3_batches']

  @staticmethod
  def _count_topk_arms(ctx, cfg, shards):
    ks = cfg['k_list']
    mo = cfg['input_type'] == 'multiclass-multioutput'
    arms = set()
    arms.add(cfg['average'])
    if not mo:
      arms.add('multiclass_input')
    v = cfg['vocab']
    if v is None:
      arms.add('no_vocab')
    else:
      ids = [i for _, i in v]
      used = {x for s in shards for b in s for rows in (b['yt'], b['yp'])
              for x in (rows['flat'] if 'flat' in rows else [e for r in rows['nested'] for e in r])}
      if len(set(ids)) < len(ids):
        arms.add('vocab_shared_id')
      if any(i >= len(v) for i in ids):
        arms.add('vocab_id_out_of_range')
      if any(k not in used for k, _ in v):
        arms.add('vocab_unused_key')
      if ids != sorted(ids):
        arms.add('vocab_permuted')
    if sorted(set(ks)) != list(range(1, max(ks) + 1)):
      arms.add('k_list_gap')
    if any(not s for s in shards):
      arms.add('empty_shard')
    if n_batches({'shards': shards}) >= 3:
      arms.add('at_least_3_batches')
    for s in shards:
      for b in s:
        if mo:
          rows = b['yp']['nested']
          if not rows:
            arms.add('empty_batch')
            continue
          lens = [len(r) for r in rows]
          if len(set(lens)) > 1:
            arms.add('ragged_rows')
          if any(l < max(ks) for l in lens):
            arms.add('row_shorter_than_some_k')
          if max(lens) < max(ks):
            arms.add('k_beyond_longest_row_of_a_batch')
          if 0 in lens:
            arms.add('empty_prediction_row')
          if any(len(set(r)) < len(r) for r in rows + b['yt']['nested']):
            arms.add('repeated_label_in_row')
        elif not b['yp']['flat']:
          arms.add('empty_batch')
    for a in arms:
      ctx.count('topk_arm', a)

  @staticmethod
  def extra(ctx):
    """promised arms of the top-k / vocabulary generators: a run that misses one is not a verdict"""
    got = ctx.hist.get('topk_arm', {})
    missing = [a for a in C01.TOPK_ARMS if not got.get(a)]
    if missing:
      from harness.core import InfraError
      raise InfraError(f'C01 classification: generator missed promised top-k arms {missing}')

  @staticmethod
  def _single(case):
    whole = concat_batches(case['shards'])
    return dict(case, shards=[[whole]], trees=[0])

  @staticmethod
  def run_impl(case):
    obs = {'sharded': run_real(case), 'single': run_real(C01._single(case))}
    if is_samplewise(case):
      obs['rows_batch'] = per_example_real(C01._single(case))
      obs['rows_alone'] = per_example_real(singletons_case(case))
    return obs

  @staticmethod
  def model_requests(case):
    reqs = [model_request(case), model_request(C01._single(case))]
    if is_samplewise(case):
      reqs.append(model_request(as_samplewise(C01._single(case))))
      reqs.append(model_request(as_samplewise(singletons_case(case))))
    return reqs

  @staticmethod
  def model_obs(case, resps):
    single = case['cfg']['single']
    obs = {'sharded': model_result(resps[0], single), 'single': model_result(resps[1], single)}
    if is_samplewise(case):
      obs['rows_batch'] = model_per_example(resps[2])
      obs['rows_alone'] = model_per_example(resps[3])
    return obs

  @staticmethod
  def compare(a, b):
    for k in ('sharded', 'single'):
      if not same_obs(a[k], b[k]):
        return f'{k}: real code and model differ'
    if 'rows_batch' in a:
      for k in ('rows_batch', 'rows_alone'):
        ia = a[k].get('per_example', a[k]) if isinstance(a[k], dict) else a[k]
        ia = ia if not (isinstance(a[k], dict) and 'err' in a[k]) else {'err': a[k]['err']}
        if not deep_close(ia, b[k], rel=1e-9, abs_=1e-9):
          return f'{k}: real code and model differ'
    return None

  @staticmethod
  def oracle(case, obs):
    """The property on the real code: any sharding/batching == one batch; per-example values do not depend
    on batch-mates."""
    a, b = obs['sharded'], obs['single']
    strip = lambda o: {k: v for k, v in o.items() if k != 'stage'}
    w = C01._tn_free_mismatch(case, a, b)
    if w is not None:
      return w
    if not deep_close(strip(a), strip(b), rel=1e-9, abs_=1e-9):
      return f'sharded/batched run gives {_short(a)}, the same data in one batch gives {_short(b)}'
    if 'rows_batch' in obs:
      rb, ra = obs['rows_batch'], obs['rows_alone']
      if 'err' in rb or 'err' in ra:
        if rb.get('err') != ra.get('err'):
          return f'per-example values: batch {_short(rb)} vs alone {_short(ra)}'
        return None
      whole = rb['per_example'][0] if rb['per_example'] else {}
      for m, vals in whole.items():
        alone = [r[m][0] for r in ra['per_example']]
        if not deep_close(list(vals), alone, rel=1e-9, abs_=1e-9):
          return f'{m}: per-example values in the batch {vals} differ from the examples alone {alone}'
    return None

  @staticmethod
  def _tn_free_mismatch(case, a, b):
    """Without a vocabulary (F8) only tn may depend on the batching: with the micro average tp / fp / fn and every
    rate that does not read tn must still equal the one-batch values (the property itself, minus the part the
    open finding concedes).  The message starts with 'tn-free' so that `finding` does not file it under F8."""
    cfg, kind = case['cfg'], case['kind']
    eff = ('samplewise' if cfg['average'] == 'samples' else ('topk' if cfg['k_list'] else 'cm')) \
        if kind == 'wrapper' else kind
    if cfg['vocab'] or cfg['average'] != 'micro' or eff not in ('cm', 'topk') or \
        cfg['input_type'] not in ('multiclass', 'multiclass-multioutput'):
      return None
    if 'result' not in a or 'result' not in b:
      return None
    ra, rb = a['result'], b['result']
    if cfg['single']:
      ra, rb = {cfg['metrics'][0]: ra}, {cfg['metrics'][0]: rb}
    if not isinstance(ra, dict) or not isinstance(rb, dict):
      return None
    for m in cfg['metrics']:
      if m in TN_FREE and not deep_close(ra.get(m), rb.get(m), rel=1e-9, abs_=1e-9):
        return f'tn-free metric {m}: sharded/batched run gives {ra.get(m)}, one batch gives {rb.get(m)}'
      if m == 'confusion_matrix' and isinstance(ra.get(m), dict) and isinstance(rb.get(m), dict) \
          and 'cm' in ra[m] and 'cm' in rb[m]:
        for key in ('tp', 'fp', 'fn'):
          if not deep_close(ra[m]['cm'].get(key), rb[m]['cm'].get(key), rel=0, abs_=0):
            return (f'tn-free count {key}: sharded/batched run gives {ra[m]["cm"].get(key)}, '
                    f'one batch gives {rb[m]["cm"].get(key)}')
    return None

  @staticmethod
  def nontrivial(case, obs):
    return sum(1 for s in case['shards'] for b in s if py_rows(b['yt'])) >= 2 and 'err' not in obs['sharded']

  finding = staticmethod(finding_class)

  @staticmethod
  def shrink(case, fails):
    # keep the shrunk case outside the known-finding input classes (a tn-free failure without a vocabulary must
    # not be shrunk into a plain tn difference, which is the open finding F8)
    def still_new(c):
      w = fails(c)
      return bool(w) and finding_class(c, w if isinstance(w, str) else None) is None
    return shrink_run(case, still_new)

  @staticmethod
  def neighbours(case, rng):
    for _ in range(400):
      kind, it, av = rng.choice(valid_combos())
      cfg, labels = gen_cfg(rng, kind, it, av, 'int', rng.choice(['ordered', 'permuted', None]),
                            metrics=rng.sample(DERIVED, 4))
      whole = gen_batch(rng, it, labels, rng.choice([2, 3, 5]), width=2, pos=cfg['pos_label'])
      shards = split_shards(rng, whole, it)
      if n_batches({'shards': shards}) == 0:
        shards = [[whole]]
      yield {'t': 'run', 'kind': kind, 'cfg': cfg, 'shards': shards, 'trees': [list(range(len(shards)))]}


def _short(o):
  s = str(o)
  return s if len(s) < 300 else s[:300] + '…'


# ----------------------------------------------------------------------------- C11

def probes_real(case):
  """Aliasing / unit / purity probes on the real accumulators (the property itself; no model needed)."""
  with warnings.catch_warnings():
    warnings.simplefilter('ignore')
    try:
      fn = make_aggfn(case['kind'], case['cfg'])
    except Exception as e:  # pylint: disable=broad-except
      return {'err': err_kind(e), 'stage': 'construct'}
    single = case['cfg']['single']

    def build(i):
      st = fn.create_state()
      for b in case['shards'][i]:
        st = fn.update_state(st, py_rows(b['yt']), py_rows(b['yp']))
      return st

    def res(st):
      return canon_result(fn.get_result(st), single)

    out = {}
    try:
      nonempty = [i for i, s in enumerate(case['shards']) if s]
      if len(nonempty) < 1:
        return {}
      i = nonempty[0]
      j = nonempty[1] if len(nonempty) > 1 else nonempty[0]
      # result is repeatable and does not disturb later updates
      a = build(i)
      r1, r2 = res(a), res(a)
      out['result_repeat'] = [r1, r2]
      a2 = build(i)
      extra = case['shards'][j][0]
      a = fn.update_state(a, py_rows(extra['yt']), py_rows(extra['yp']))
      a2 = fn.update_state(a2, py_rows(extra['yt']), py_rows(extra['yp']))
      out['result_then_update'] = [res(a), res(a2)]
      # fresh state is a unit on either side
      out['unit'] = {}
      for name, order in (('left', lambda s: [fn.create_state(), s]), ('right', lambda s: [s, fn.create_state()])):
        try:
          out['unit'][name] = [res(fn.merge_states(order(build(i)))), res(build(i))]
        except Exception as e:  # pylint: disable=broad-except
          out['unit'][name] = {'err': err_kind(e)}
      # merge modifies only its receiver; later updates of the receiver do not leak into the operand
      a, b = build(i), build(j)
      before = res(b)
      try:
        m = fn.merge_states([a, b])
        after = res(b)
        m = fn.update_state(m, py_rows(extra['yt']), py_rows(extra['yp']))
        after2 = res(b)
        # and updates of the operand do not leak into the merged state
        rm = res(m)
        b = fn.update_state(b, py_rows(extra['yt']), py_rows(extra['yp']))
        rm2 = res(m)
        out['operand'] = [before, after, after2]
        out['receiver_after_operand_update'] = [rm, rm2]
      except Exception as e:  # pylint: disable=broad-except
        out['operand'] = {'err': err_kind(e)}
    except Exception as e:  # pylint: disable=broad-except
      return {'err': err_kind(e)}
    return out


class C11:
  LEAN_MODULES = ['MlModel.Properties.C11.Classification']
  TRUSTED = TRUSTED
  ASSUMPTIONS = ASSUMPTIONS
  RULE = ('every accepted constructor x input type x average with an explicit (or, for binary / indicator input, no) '
          'vocabulary: 2-5 states built from random batches (one of them possibly a fresh, never-updated state), merged '
          'along two independent random bracketings of random permutations; probes on the real objects: operand result '
          'before/after merge and after further updates of the receiver, fresh state on either side, result() twice, '
          'result() between updates; non-trivial = at least 3 states and no error')

  @staticmethod
  def gen_cases(ctx):
    rng, quick = ctx.rng, ctx.quick
    yield from ctx.corpus('classification_C11')
    reps = 8 if quick else 120
    for kind, it, av in valid_combos():
      for vmode in ('ordered', 'permuted', None):
        if it in ('binary', 'multiclass-indicator') and vmode == 'permuted':
          continue
        if vmode is None and rng.random() < .5:
          continue
        for _ in range(reps):
          label_kind = 'int' if (vmode is None or rng.random() < .6) else 'str'
          ms = rng.sample(DERIVED, 4) + (['confusion_matrix'] if av != 'samples' and rng.random() < .5 else [])
          cfg, labels = gen_cfg(rng, kind, it, av, label_kind, vmode, metrics=ms)
          width = rng.choice([1, 2]) if (it == 'multiclass-indicator' and av == 'binary') else rng.choice([2, 3])
          ns = rng.choice([2, 3, 3, 4, 5])
          shards = []
          for _s in range(ns):
            nb = rng.choice([1, 1, 2])
            shards.append([gen_batch(rng, it, labels, rng.choice([1, 2, 3, 4]), width=width, pos=cfg['pos_label'])
                           for _b in range(nb)])
          if rng.random() < .35:
            shards[rng.randrange(ns)] = []          # a fresh state: must be neutral
          if all(not s for s in shards):
            shards[0] = [gen_batch(rng, it, labels, 2, width=width, pos=cfg['pos_label'])]
          ctx.count('combo', f'{kind}/{it}/{av}/{"vocab" if cfg["vocab"] else "novocab"}')
          ctx.count('states', ns)
          yield {'t': 'run', 'kind': kind, 'cfg': cfg, 'shards': shards,
                 'trees': [random_tree(rng, ns), random_tree(rng, ns)], 'probe': True}

  @staticmethod
  def run_impl(case):
    return {'trees': [run_real(case, i) for i in range(len(case['trees']))], 'probes': probes_real(case)}

  @staticmethod
  def model_requests(case):
    return [model_request(case, i) for i in range(len(case['trees']))]

  @staticmethod
  def model_obs(case, resps):
    return {'trees': [model_result(r, case['cfg']['single']) for r in resps]}

  @staticmethod
  def compare(a, b):
    for x, y in zip(a['trees'], b['trees']):
      if not same_obs(x, y):
        return 'merge tree: real code and model differ'
    return None

  @staticmethod
  def oracle(case, obs):
    strip = lambda o: {k: v for k, v in o.items() if k != 'stage'} if isinstance(o, dict) else o
    t = obs['trees']
    for x in t[1:]:
      if not deep_close(strip(t[0]), strip(x), rel=1e-9, abs_=1e-9):
        return f'two bracketings/orders of the same states give {_short(t[0])} and {_short(x)}'
    p = obs['probes']
    if 'err' in p:
      return None if all('err' in x for x in t) else f"probes raised {p['err']} but the merge trees did not"
    if 'result_repeat' in p and not deep_close(*p['result_repeat']):
      return f"result() twice: {_short(p['result_repeat'])}"
    if 'result_then_update' in p and not deep_close(*p['result_then_update'], rel=1e-12):
      return f"reading the result between updates changes the outcome: {_short(p['result_then_update'])}"
    for side, v in (p.get('unit') or {}).items():
      if isinstance(v, dict):
        if all('err' in x for x in t):
          continue    # the configuration cannot merge at all (reported by the tree comparison / findings)
        return f"merging a fresh state on the {side} raised {v['err']}"
      if not deep_close(v[0], v[1], rel=1e-12):
        return f'fresh state on the {side} is not neutral: {_short(v)}'
    op = p.get('operand')
    if isinstance(op, list):
      if not (deep_close(op[0], op[1]) and deep_close(op[0], op[2])):
        return f'merge / later updates of the receiver changed the operand: {_short(op)}'
      r = p['receiver_after_operand_update']
      if not deep_close(r[0], r[1]):
        return f'updating the merged-in operand changed the receiver: {_short(r)}'
    return None

  @staticmethod
  def nontrivial(case, obs):
    return len(case['shards']) >= 3 and all('err' not in x for x in obs['trees'])

  finding = staticmethod(finding_class)

  @staticmethod
  def shrink(case, fails):
    return shrink_run(case, fails)

  @staticmethod
  def neighbours(case, rng):
    for _ in range(300):
      kind, it, av = rng.choice(valid_combos())
      cfg, labels = gen_cfg(rng, kind, it, av, 'int', 'ordered', metrics=rng.sample(DERIVED, 3))
      ns = rng.choice([2, 3])
      shards = [[gen_batch(rng, it, labels, rng.choice([1, 2]), width=2, pos=cfg['pos_label'])] for _ in range(ns)]
      if rng.random() < .5:
        shards[0] = []
      yield {'t': 'run', 'kind': kind, 'cfg': cfg, 'shards': shards,
             'trees': [random_tree(rng, ns), random_tree(rng, ns)], 'probe': True}


CHECKS = {'C01': C01, 'C11': C11, 'C07': C07}
