"""The "text" metric family: sub-checks of C01, C11 and C07.

Real code (entered through what a user calls):
  ml_metrics._src.aggregates.text.TopKWordNGrams / PatternFrequency   (object API: add / merge / result)
  <metric>.as_agg_fn()  -> MergeableMetricAggFn  (create_state / update_state / merge_states / get_result / __call__)
  ml_metrics.metrics.text.topk_word_ngrams / pattern_frequency / avg_alphabetical_char_count (one-shot functions)
  all of which sit on ml_metrics._src.aggregates.utils.FrequencyState.
Model: lean/MlModel/Model/Agg/Text.lean + TextHeap.lean through lean/Driver/AggText.lean ("aggtext").
Theorems: lean/MlModel/Properties/{C01,C11,C07}/Text.lean (+ Witness/C11Text.lean, Witness/C07Text.lean, Witness/C01Text.lean).

`ml_metrics._src.metrics.text` imports `ml_metrics._src.signals.text`, which imports
`ml_metrics.google.tools.telemetry` - a package that does not exist in the open-source tree (this is why
metrics/text_test.py and signals/text_test.py are collection errors in the baseline).  The harness installs
a no-op stand-in for exactly that decorator (`WithTelemetry(**kw)` returns the function unchanged), so the
real one-shot functions can be run.  Listed in TRUSTED.

Both sides execute the same *program* of calls over numbered accumulators:
  ["make"] ["add",i,texts] ["merge",i,j] ["merge_states",[i,j,..]] ["result",i] ["snap"] ["call",texts] ["fn",texts]
A case stores a high-level description (`kind` + data); `prog_of(case)` derives the program.
The oracles are written from the English statements; where a *value* is needed they use the brute-force
definitions in this file (`spec_*`: character scan, position counting, exact Fractions) - never the model,
never the code.
"""
from __future__ import annotations

import copy
import itertools
import sys
import types
from fractions import Fraction as Fr

from harness.core import deep_close, err_kind

LEAN_C01 = ['MlModel.Properties.C01.Text', 'MlModel.Witness.C01Text']
LEAN_C11 = ['MlModel.Properties.C11.Text', 'MlModel.Witness.C11Text']
LEAN_C07 = ['MlModel.Properties.C07.Text', 'MlModel.Witness.C07Text']

TRUSTED = [
    'text family: `ml_metrics.google.tools.telemetry` (absent from the open-source tree) is replaced by a no-op decorator '
    'stand-in so that ml_metrics.metrics.text can be imported; nothing else of the one-shot functions is stubbed',
    'text family, modelled not verified: `re.sub`/`re.finditer`/`re.escape`/`str.find`/`str.lower`/`str.split`/`str.join`, '
    '`collections.Counter.update`, `sorted` on (float, str) tuples, `math_utils.safe_divide` (their list semantics are '
    'written out in Model/Agg/Text.lean; a str is a list of code points; frequencies are exact rationals)',
    'text family: `set(ngrams)` iterates in hash order, which only decides the insertion order of new Counter keys; the '
    'model uses first-occurrence order and the theorems show result() does not depend on insertion order',
]
ASSUMPTIONS = [
    'text family: texts and patterns are `str` over the Basic Multilingual Plane in the sample (the theorems are over '
    'arbitrary lists of Unicode scalar values); `patterns` is a list of str; k and n are ints',
]


# ----------------------------------------------------------------------------- environment

def _install_telemetry_stub():
  if 'ml_metrics.google.tools.telemetry' in sys.modules:
    return
  try:
    import ml_metrics.google.tools.telemetry  # noqa: F401  (present in some trees)
    return
  except Exception:  # pylint: disable=broad-except
    pass
  g = types.ModuleType('ml_metrics.google'); g.__path__ = []
  t = types.ModuleType('ml_metrics.google.tools'); t.__path__ = []
  tp = types.ModuleType('ml_metrics.google.tools.telemetry'); tp.__path__ = []
  tm = types.ModuleType('ml_metrics.google.tools.telemetry.telemetry')
  tm.WithTelemetry = lambda **kw: (lambda f: f)
  tp.telemetry = tm
  g.tools, t.telemetry = t, tp
  sys.modules.update({'ml_metrics.google': g, 'ml_metrics.google.tools': t,
                      'ml_metrics.google.tools.telemetry': tp,
                      'ml_metrics.google.tools.telemetry.telemetry': tm})


def _mods():
  _install_telemetry_stub()
  from ml_metrics._src.aggregates import text as agg_text
  from ml_metrics.metrics import text as fn_text      # the public module a user imports
  return agg_text, fn_text


def cfg_kwargs(metric, cfg):
  if metric == 'ngrams':
    return dict(k=cfg['k'], n=cfg['n'], use_first_ngram_only=cfg['first'], count_duplicate=cfg['dup'])
  return dict(patterns=list(cfg['patterns']), count_duplicate=cfg['dup'])


def cfg_valid(metric, cfg):
  if metric == 'ngrams':
    return cfg['k'] > 0 and cfg['n'] > 0
  return bool(cfg['patterns']) and len(set(cfg['patterns'])) == len(cfg['patterns'])


def rows_obs(res):
  return [[k, float(v)] for k, v in res]


# ----------------------------------------------------------------------------- brute-force definitions (oracle side)

def spec_words(t):
  """Documented tokenisation: delete every character that is neither an ASCII letter nor the space; the words are
  the maximal space-free runs; lower-cased."""
  ws, cur = [], []
  for ch in t:
    if ('a' <= ch <= 'z') or ('A' <= ch <= 'Z'):
      cur.append(chr(ord(ch) + 32) if ch <= 'Z' else ch)
    elif ch == ' ':
      if cur:
        ws.append(''.join(cur))
      cur = []
  if cur:
    ws.append(''.join(cur))
  return ws


def spec_ngram_counts(cfg, texts):
  """count(g) = sum over texts of: [first n-gram is g] | #positions where g starts | [g starts somewhere]."""
  n = cfg['n']
  counts = {}
  for t in texts:
    ws = spec_words(t)
    if len(ws) < n:
      continue
    grams = [' '.join(ws[i:i + n]) for i in range(len(ws) - n + 1)]
    if cfg['first']:
      grams = grams[:1]
    for g in set(grams):
      occ = sum(1 for x in grams if x == g)
      counts[g] = counts.get(g, 0) + (occ if (cfg['dup'] or cfg['first']) else 1)
  return counts


def spec_occurrences(p, t):
  return sum(1 for i in range(len(t) - len(p) + 1) if t[i:i + len(p)] == p)


def spec_pattern_counts(cfg, texts):
  if not texts:
    return {}
  out = {}
  for p in cfg['patterns']:
    occ = [spec_occurrences(p, t) for t in texts]
    out[p] = sum(occ) if cfg['dup'] else sum(1 for o in occ if o > 0)
  return out


def _str_key(s):
  return [ord(c) for c in s]


def spec_rows(metric, cfg, texts, truncate=True):
  """The documented result for the dataset `texts`: (key, count / number of texts), most frequent first, ties in
  alphabetical (code point) order, the first k of them for the n-gram metric."""
  counts = spec_ngram_counts(cfg, texts) if metric == 'ngrams' else spec_pattern_counts(cfg, texts)
  n = len(texts)
  rows = [(g, Fr(c, n) if n else Fr(0)) for g, c in counts.items()]
  rows.sort(key=lambda r: (-r[1], _str_key(r[0])))
  if metric == 'ngrams' and truncate:
    rows = rows[:cfg['k']]
  return [[g, float(f)] for g, f in rows]


def spec_avgalpha(texts):
  xs = [sum(1 for ch in t if ('a' <= ch <= 'z') or ('A' <= ch <= 'Z')) for t in texts]
  n = len(xs)
  mean = Fr(sum(xs), n)
  var = Fr(sum(x * x for x in xs), n) - mean * mean      # E[x^2] - E[x]^2
  return dict(count=n, mean=float(mean), var=float(var))


# ----------------------------------------------------------------------------- programs

def flat(batches):
  return [t for b in batches for t in b]


def prog_c01(case):
  """shards -> one accumulator each, fed batch by batch; merged along `plan` (a merge tree given as a list of
  (receiver, operand) pairs, or one merge_states call); plus one accumulator fed the whole dataset in one batch."""
  shards = case['shards']
  prog = []
  for s, batches in enumerate(shards):
    prog.append(['make'])
    for b in batches:
      prog.append(['add', s, b])
  if case['plan'] == 'merge_states':
    prog.append(['merge_states', case['order']])
    root = case['order'][0]
  else:
    for i, j in case['plan']:
      prog.append(['merge', i, j])
    root = case['root']
  single = len(shards)
  whole = [t for s in case.get('data_order', range(len(shards))) for t in flat(shards[s])]
  prog += [['result', root], ['make'], ['add', single, whole], ['result', single]]
  return prog


LAW_LAYOUT = 'A B C A B C A B A B E A A E A B C E'.split()   # dataset held by accumulator 0..17
LAW_MERGES = [(0, 1), (0, 2), (4, 5), (3, 4), (6, 7), (9, 8), (10, 11), (12, 13)]
LAW_GROUPS = {
    'associativity (A.B).C = A.(B.C)': [0, 3],
    'commutativity A.B = B.A': [6, 9],
    'unit E.A = A = A.E, and operand A untouched': [8, 10, 11, 12, 14],
    'operand B untouched': [1, 7, 15],
    'operand C untouched': [2, 5, 16],
    'operand E (fresh) untouched': [13, 17],
}


def prog_laws(case):
  data = dict(A=case['A'], B=case['B'], C=case['C'], E=[])
  prog = []
  for i, name in enumerate(LAW_LAYOUT):
    prog.append(['make'])
    for b in data[name]:
      prog.append(['add', i, b])
  for i, j in LAW_MERGES:
    prog.append(['merge', i, j])
  prog.append(['snap'])
  return prog


def prog_c07_paths(case):
  """SC07c: every accumulation path over the same batches, each of which must report the definition over ALL texts:
  one accumulator fed batch by batch | one accumulator per batch, merged pairwise into the first | another set of
  per-batch accumulators handed to ONE merge_states call in case['order'] | __call__ / function on the concatenation."""
  batches = case['batches']
  B = len(batches)
  prog = [['make']] + [['add', 0, b] for b in batches] + [['result', 0]]
  for base in (1, 1 + B):
    for i, b in enumerate(batches):
      prog += [['make'], ['add', base + i, b]]
    if base == 1:
      prog += [['merge', 1, 1 + i] for i in range(1, B)]
      prog.append(['result', 1])
    else:
      order = case.get('order') or list(range(B))
      prog.append(['merge_states', [base + i for i in order]])
      prog.append(['result', base + order[0]])
  whole = flat(batches)
  prog += [['call', whole], ['fn', whole]]
  return prog


def prog_c07(case):
  if case.get('paths'):
    return prog_c07_paths(case)
  prog = [['make']]
  for b in case['batches']:
    prog.append(['add', 0, b])
  whole = flat(case['batches'])
  prog += [['result', 0], ['call', whole], ['fn', whole]]
  return prog


def prog_of(case):
  kind = case['kind']
  if kind == 'c01':
    return prog_c01(case)
  if kind == 'laws':
    return prog_laws(case)
  if kind == 'c07':
    return prog_c07(case)
  if kind in ('prog', 'malformed'):
    return case['prog']
  raise ValueError(kind)


def run_prog(case):
  """Executes the program on the real objects.  `api`: 'object' (add/merge/result) or 'aggfn'
  (create_state/update_state/merge_states/get_result of `metric.as_agg_fn()`)."""
  agg_text, fn_text = _mods()
  metric, cfg, api = case['metric'], case['cfg'], case.get('api', 'object')
  cls = agg_text.TopKWordNGrams if metric == 'ngrams' else agg_text.PatternFrequency
  fn = fn_text.topk_word_ngrams if metric == 'ngrams' else fn_text.pattern_frequency
  kw = cfg_kwargs(metric, cfg)
  accs, obs, impure = [], [], []
  agg_box = []

  def agg():
    if not agg_box:
      agg_box.append(cls(**kw).as_agg_fn())
    return agg_box[0]

  def result(a, at):
    r1 = a.result() if api == 'object' else agg().get_result(a)
    snap = rows_obs(r1)
    r1.clear()                      # whatever result() hands out must not be the accumulator's own storage
    r2 = a.result() if api == 'object' else agg().get_result(a)
    if rows_obs(r2) != snap:
      impure.append(at)
    return snap

  for at, op in enumerate(prog_of(case)):
    tag = op[0]
    try:
      if tag == 'make':
        accs.append(cls(**kw) if api == 'object' else agg().create_state())
        obs.append(None)
      elif tag == 'add':
        if api == 'object':
          obs.append(rows_obs(accs[op[1]].add(op[2])))
        else:
          st = agg().update_state(accs[op[1]], op[2])
          obs.append(None if st is accs[op[1]] else {'err': 'update_state returned another object'})
      elif tag == 'merge':
        if api == 'object':
          accs[op[1]].merge(accs[op[2]])
          obs.append(None)
        else:
          st = agg().merge_states([accs[op[1]], accs[op[2]]])
          obs.append(None if st is accs[op[1]] else {'err': 'merge_states did not return the first state'})
      elif tag == 'merge_states':
        from harness.lib_states import pack   # case['container']: list (default) / tuple / generator / ... (SC11)
        st = agg().merge_states(pack([accs[i] for i in op[1]], case.get('container')))
        obs.append(None if st is accs[op[1][0]] else {'err': 'merge_states did not return the first state'})
      elif tag == 'result':
        obs.append(result(accs[op[1]], at))
      elif tag == 'snap':
        # `state` is the public property of both metric classes; identity of the Counter objects they hold
        ptrs = [id(a.state.counter) for a in accs]
        firsts = list(dict.fromkeys(ptrs))
        obs.append(dict(rows=[result(a, at) for a in accs], ids=[firsts.index(x) for x in ptrs]))
      elif tag == 'call':
        obs.append(rows_obs(agg()(op[1])))
      elif tag == 'fn':
        obs.append(rows_obs(fn(op[1], **kw)))
      else:
        raise AssertionError(tag)
    except Exception as e:  # pylint: disable=broad-except
      obs.append({'err': err_kind(e)})
  return dict(obs=obs, impure=impure)


def run_avgalpha(case):
  _, fn_text = _mods()
  try:
    r = fn_text.avg_alphabetical_char_count(case['texts'])
    return dict(obs=[dict(count=int(r.count), mean=float(r.mean), var=float(r.var))], impure=[])
  except Exception as e:  # pylint: disable=broad-except
    return dict(obs=[{'err': err_kind(e)}], impure=[])


def run_impl(case):
  return run_avgalpha(case) if case['metric'] == 'avgalpha' else run_prog(case)


def model_requests(case):
  if case['metric'] == 'avgalpha':
    return [dict(model='aggtext', metric='avgalpha', texts=case['texts'])]
  return [dict(model='aggtext', metric=case['metric'], cfg=case['cfg'], prog=prog_of(case))]


def model_obs(case, resps):
  obs = resps[0]['obs']
  if case['metric'] != 'avgalpha' and case.get('api', 'object') == 'aggfn':
    # update_state returns the state, not the batch result
    obs = [None if (op[0] == 'add' and not (isinstance(o, dict) and 'err' in o)) else o
           for op, o in zip(prog_of(case), obs)]
  return dict(obs=obs, impure=[])       # `result` is a read-only function of the model world (C11_text_result_pure)


def compare(a, b):
  return None if deep_close(a, b) else 'observations differ'


# ----------------------------------------------------------------------------- generators

VOCAB = ['a', 'b', 'c', 'ab', 'A', 'B', 'Ab', 'a1', "b's", 'c-c', 'é', 'ß', 'K', 'xéy', '42', '']
SEPS = [' ', ' ', ' ', '  ', '\t', '\n', ', ', '. ', '-', ' ', ' \t ']
PAT_ALPHA = ['a', 'a', 'b', 'A', '.', '(', ' ', '*', '\\', 'é']
PATTERNS = ['', 'a', 'b', 'aa', 'ab', 'aba', 'A', '.', 'a.', '(', ')', '[a]', '*', 'a*', '\\', '^a', '$', ' ', 'é', 'a|b', '\n']


def gen_text(rng, maxw=6):
  r = rng.random()
  if r < 0.06:
    return ''
  if r < 0.10:
    return rng.choice([' ', '   ', '\t', '!?', '123', ' \n '])
  nw = rng.randrange(1, maxw + 1)
  out = []
  for i in range(nw):
    out.append(rng.choice(VOCAB[:6]) if rng.random() < 0.75 else rng.choice(VOCAB))
    if i < nw - 1:
      out.append(rng.choice(SEPS))
  s = ''.join(out)
  if rng.random() < 0.2:
    s = rng.choice([' ', '', '!']) + s + rng.choice([' ', '', '.', '\n'])
  return s


def gen_pat_text(rng):
  if rng.random() < 0.08:
    return ''
  return ''.join(rng.choice(PAT_ALPHA) for _ in range(rng.randrange(1, 9)))


def gen_cfg(rng, metric):
  if metric == 'ngrams':
    return dict(k=rng.choice([1, 1, 2, 3, 5, 50]), n=rng.choice([1, 1, 2, 2, 3, 4]),
                first=rng.random() < 0.3, dup=rng.random() < 0.6)
  ps = rng.sample(PATTERNS, rng.randrange(1, 5))
  return dict(patterns=ps, dup=rng.random() < 0.6)


def gen_batch(rng, metric, maxlen=4):
  n = rng.choice([0, 1, 1, 2, 2, 3, maxlen])
  g = gen_text if metric == 'ngrams' else gen_pat_text
  return [g(rng) for _ in range(n)]


def gen_batches(rng, metric, maxb=3):
  return [gen_batch(rng, metric) for _ in range(rng.randrange(0, maxb + 1))]


def random_tree(rng, idxs):
  """a random binary merge tree over the accumulators `idxs`: list of (receiver, operand), and the root."""
  live = list(idxs)
  plan = []
  while len(live) > 1:
    i, j = rng.sample(range(len(live)), 2)
    plan.append([live[i], live[j]])
    live.pop(j)
  return plan, live[0]


def mk_c01(rng, metric, cfg, shards, api=None):
  n = len(shards)
  api = api or rng.choice(['object', 'aggfn'])
  case = dict(kind='c01', metric=metric, cfg=cfg, shards=shards, api=api)
  if api == 'aggfn' and rng.random() < 0.6:
    order = list(range(n))
    rng.shuffle(order)
    case.update(plan='merge_states', order=order)
  else:
    plan, root = random_tree(rng, range(n))
    case.update(plan=plan, root=root)
  # the single accumulator gets the rows in a shuffled shard order half of the time (any assignment of rows)
  order = list(range(n))
  if rng.random() < 0.5:
    rng.shuffle(order)
  case['data_order'] = order
  return case


def compositions(seq):
  """all ways to cut `seq` into consecutive non-empty pieces"""
  n = len(seq)
  if n == 0:
    yield []
    return
  for mask in range(1 << (n - 1)):
    out, cur = [], [seq[0]]
    for i in range(1, n):
      if mask >> (i - 1) & 1:
        out.append(cur)
        cur = [seq[i]]
      else:
        cur.append(seq[i])
    out.append(cur)
    yield out


SMALL_TEXTS = ['a b a b', 'A b', 'b', 'a a a', '', 'b a!', 'a\tb c']
SMALL_PAT_TEXTS = ['aaa', 'ab', '', 'a.a', 'ba']


# ----------------------------------------------------------------------------- wide-vocabulary streams (SC07c)
#
# STATE-SIZE-DEPENDENT behaviour: an accumulator whose state is bounded ("keep the 10*k most frequent candidates",
# "keep k rows", a cache of N entries) is exact on one batch and on small vocabularies and wrong only when the
# accumulated state grows past the bound ACROSS batches while an item that is below the cut then matters later.
# The size constants are read off the source at run time (every int literal of aggregates/text.py and utils.py, found
# with `ast`), united with the constants of the storage TODO b/331796958 (`BASE_SIZE_CONSTS`: 1*k and 10*k), and every
# stream is built around cut = c*k for one of them: vocabulary at cut-1, cut, cut+1, cut+2, cut+5 and 2-3x the cut.

BASE_SIZE_CONSTS = (1, 10)
_SIZE_CONSTS = []


def size_constants():
  """int literals 2..400 of the text aggregates' source (ast, at run time) + BASE_SIZE_CONSTS, ascending."""
  if _SIZE_CONSTS:
    return _SIZE_CONSTS[0]
  import ast
  found = set()
  try:
    agg_text, _ = _mods()
    from ml_metrics._src.aggregates import utils as agg_utils
    for mod in (agg_text, agg_utils):
      tree = ast.parse(open(mod.__file__, encoding='utf-8').read())
      for node in ast.walk(tree):
        if isinstance(node, ast.Constant) and type(node.value) is int and 2 <= node.value <= 400:
          found.add(node.value)
  except (OSError, SyntaxError):
    pass
  found = sorted(found - set(BASE_SIZE_CONSTS))
  if len(found) > 10:                    # never let a source full of literals crowd out the random arms
    found = found[::-(-len(found) // 10)]
  consts = sorted(set(found) | set(BASE_SIZE_CONSTS))
  _SIZE_CONSTS.append(consts)
  return consts


_CONS = 'bcdfghjklm'


N_WWORDS = 10000


def wword(i):
  """distinct all-letter words (N_WWORDS of them), disjoint from VOCAB"""
  assert 0 <= i < N_WWORDS
  return 'w' + _CONS[i // 1000 % 10] + _CONS[i // 100 % 10] + _CONS[i // 10 % 10] + _CONS[i % 10]


def witem(j, n):
  """a text fragment of exactly n words that yields exactly one n-gram, distinct for distinct j"""
  return ' '.join(wword(j) + 'xyzuv'[p % 5] * (1 + p // 5) for p in range(n))


def _decorate(rng, t):
  r = rng.random()
  if r < 0.08:
    return t.upper()
  if r < 0.16:
    return t.capitalize() + rng.choice(['!', ' 2', '...', '\t9'])
  if r < 0.20:
    return '1' + t.replace(' ', '  ')
  return t


def wide_cfg(rng, k=None, n=None):
  return dict(k=k or rng.choice([1, 1, 2, 3]), n=n or rng.choice([1, 1, 2, 3]),
              first=rng.random() < 0.25, dup=rng.random() < 0.6)


def gen_bloomer_batches(rng, cfg, c, forward=None, extra=None):
  """cut = c*k.  Batch 0: `ncommon` (around the cut) items `hi` times each + 1..k "late bloomers" `lo` < `hi` times
  each (below every common item, i.e. below the cut); every later batch: the bloomers `lo` times again + fresh filler
  items; enough batches that lo*B > hi, so the bloomers are the global top.  Batch order forward (rare early, frequent
  late), reversed (the reverse) or shuffled."""
  k, n = cfg['k'], cfg['n']
  cut = c * k
  ncommon = max(1, cut + (rng.choice([-1, 0, 1, 2, 5]) if extra is None else extra))
  hi = rng.choice([2, 3, 4])
  lo = rng.randrange(1, hi)
  B = hi // lo + 1 + rng.choice([0, 0, 1])
  nb = rng.randrange(1, k + 1)
  ids = list(range(N_WWORDS))
  rng.shuffle(ids)                       # alphabetical rank of bloomers / commons / fillers is random
  bloom, common, fill = ids[:nb], ids[nb:nb + ncommon], ids[nb + ncommon:]
  batches = []
  for b in range(B):
    items = [j for j in bloom for _ in range(lo)]
    if b == 0:
      items += [j for j in common for _ in range(hi)]
    else:
      nf = min(rng.choice([0, max(1, cut // 2), cut + 1]), len(fill))
      rep = rng.choice([1, 1, hi])
      items += [fill.pop() for _ in range(nf)] * rep
    rng.shuffle(items)
    texts = []
    while items:
      take = 1 if rng.random() < 0.8 else rng.randrange(2, 4)
      texts.append(_decorate(rng, ' '.join(witem(j, n) for j in items[:take])))
      del items[:take]
    if rng.random() < 0.2:
      texts.insert(rng.randrange(len(texts) + 1), rng.choice(['', ' ', '42']))
    batches.append(texts)
  if forward is None:
    forward = rng.choice(['fwd', 'fwd', 'rev', 'shuffle'])
  if forward == 'rev':
    batches.reverse()
  elif forward == 'shuffle':
    rng.shuffle(batches)
  return batches


def gen_zipf_batches(rng, cfg, c):
  """vocabulary of 2-3x the cut, Zipf-like word weights that drift from batch to batch (the head of one batch is the
  tail of another), 2-4 batches of short texts."""
  cut = c * cfg['k']
  V = min(900, cut * rng.choice([2, 3]) + rng.randrange(2, 7))
  ws = [wword(i) for i in rng.sample(range(N_WWORDS), V)]
  shift = rng.randrange(1, V)
  batches = []
  per = max(12, min(60, V))
  for b in range(rng.choice([2, 3, 4])):
    weights = [1.0 / (1 + (i + shift * b) % V) for i in range(V)]
    batch = []
    for _ in range(rng.randint(per // 2, per)):
      batch.append(_decorate(rng, ' '.join(rng.choices(ws, weights, k=rng.randint(0, 5)))))
    batches.append(batch)
  return batches


def gen_wide_batch(rng, cfg, c):
  """one batch generated WITHOUT knowing its position in a stream (harness/agg/histories.py feeds every add() of a
  history from the same generator): cut + 1 or more "hot" items, three times each, from one of five disjoint windows
  of the vocabulary, and k "steady" items twice - below the cut in every batch, the global top after two batches
  with different windows."""
  k, n = cfg['k'], cfg['n']
  cut = c * k
  width = cut + rng.choice([1, 1, 2, 4])
  w0 = rng.randrange(5) * (cut + 4)
  items = [w0 + i for i in range(width) for _ in range(3)] + [N_WWORDS - 1 - j for j in range(k) for _ in range(2)]
  rng.shuffle(items)
  return [_decorate(rng, witem(j, n)) for j in items]


def gen_wide_streams(rng, count):
  """(arm, cfg, c, batches): deterministic head (every size constant x forward late bloomer just past the cut, k = 1
  and 2), then random arms."""
  consts = size_constants()
  out = 0
  for c in consts:
    for k in (1, 2):
      if c * k > 450:
        continue
      cfg = dict(k=k, n=1 + (c + k) % 2, first=False, dup=True)
      yield 'bloomer', cfg, c, gen_bloomer_batches(rng, cfg, c, forward='fwd', extra=1 + k)
      out += 1
  while out < count:
    cfg = wide_cfg(rng)
    c = rng.choice([x for x in consts if x * cfg['k'] <= 450] or [1])
    if rng.random() < 0.65:
      yield 'bloomer', cfg, c, gen_bloomer_batches(rng, cfg, c)
    else:
      yield 'zipf', cfg, c, gen_zipf_batches(rng, cfg, c)
    out += 1


def split_shards(rng, batches):
  """the batches of a stream dealt to 1-3 shards (order within a shard preserved), sometimes with an empty shard"""
  ns = rng.choice([1, 2, 2, 3])
  shards = [[] for _ in range(ns)]
  for b in batches:
    shards[rng.randrange(ns)].append(b)
  return shards


def gen_wide_c01(rng, count):
  for arm, cfg, c, batches in gen_wide_streams(rng, count):
    case = mk_c01(rng, 'ngrams', cfg, split_shards(rng, batches))
    case['wide'] = dict(arm=arm, c=c)
    yield case


def gen_wide_c07(rng, count):
  for arm, cfg, c, batches in gen_wide_streams(rng, count):
    order = list(range(len(batches)))
    rng.shuffle(order)
    yield dict(kind='c07', metric='ngrams', cfg=cfg, api=rng.choice(['object', 'aggfn']), batches=batches,
               paths=True, order=order, wide=dict(arm=arm, c=c))


def wide_labels(case):
  """oracle-side only (textbook counts of prefixes of the stream; BASE constant 10, independent of the code under
  test): does some accumulator hold more than 10*k distinct n-grams while more data is still to come, and is there
  then an n-gram of the final top k that ranks below the 10*k-th (late bloomer), or a leader that ends outside of
  the final top k (early leader)."""
  out = set()
  cfg = case['cfg']
  k = cfg['k']
  if case['kind'] == 'c01':
    streams = case['shards']
    whole = [t for s in streams for t in flat(s)]
    points = [flat(s[:i]) for s in streams for i in range(1, len(s) + 1) if not (len(streams) == 1 and i == len(s))]
    points = [p for p in points if len(p) < len(whole)]
  else:
    bs = case['batches']
    whole = flat(bs)
    points = [flat(bs[:i]) for i in range(1, len(bs))] + ([b for b in bs] if len(bs) > 1 else [])
  def ranked(texts):
    cnt = spec_ngram_counts(cfg, texts)
    return sorted(cnt, key=lambda g: (-cnt[g], _str_key(g)))
  top = ranked(whole)[:k]
  out.add('wide:arm-' + case['wide']['arm'])
  for p in points:
    r = ranked(p)
    if len(r) > 10 * k:
      out.add('wide:state>10k')
      if any(g in r[10 * k:] for g in top):
        out.add('wide:late-bloomer')
    if any(g not in top for g in r[:k]):
      out.add('wide:early-leader')
    if len(r) > k and any(g in r[k:] for g in top):
      out.add('wide:state>k')
  if case['wide']['c'] not in BASE_SIZE_CONSTS:
    out.add('wide:source-constant')
  return out


def gen_c01(ctx):
  rng = ctx.rng
  # small-exhaustive: every composition of a small dataset into batches and of the batches into shards
  small = [('ngrams', dict(k=2, n=2, first=False, dup=True), SMALL_TEXTS[:4]),
           ('ngrams', dict(k=1, n=1, first=False, dup=False), SMALL_TEXTS[1:5]),
           ('ngrams', dict(k=3, n=1, first=True, dup=True), SMALL_TEXTS[3:7]),
           ('patterns', dict(patterns=['a', 'aa', '.'], dup=True), SMALL_PAT_TEXTS[:4]),
           ('patterns', dict(patterns=['', 'b'], dup=False), SMALL_PAT_TEXTS[1:5])]
  for metric, cfg, data in small:
    for batches in compositions(data):
      for shards in compositions(batches):
        # sprinkle empty batches / empty shards deterministically
        sh = [list(s) for s in shards]
        h = len(batches) + 2 * len(shards)
        if h % 3 == 0:
          sh[0].insert(0, [])
        if h % 4 == 1:
          sh.append([])
        if h % 5 == 2:
          sh.insert(0, [[]])
        yield mk_c01(rng, metric, cfg, sh)
  # all-empty corners
  for metric in ('ngrams', 'patterns'):
    cfg = gen_cfg(rng, metric)
    for shards in ([[]], [[], []], [[[]]], [[[]], []], [[[], []], [[]]]):
      yield mk_c01(rng, metric, cfg, copy.deepcopy(shards), api='object')
      yield mk_c01(rng, metric, cfg, copy.deepcopy(shards), api='aggfn')
  # wide-vocabulary multi-batch streams around every state-size constant (SC07c)
  yield from gen_wide_c01(rng, 120 if ctx.quick else 4000)
  # random
  for _ in range(500 if ctx.quick else 50000):
    metric = rng.choice(['ngrams', 'ngrams', 'patterns'])
    cfg = gen_cfg(rng, metric)
    shards = [gen_batches(rng, metric) for _ in range(rng.randrange(1, 5))]
    yield mk_c01(rng, metric, cfg, shards)


def gen_laws_wide(rng):
  """many distinct n-grams per state (more than 10*k), one globally frequent n-gram that ranks low in
  some intermediate merge: any truncation of the stored table at add/merge time breaks associativity here."""
  import string
  words = [a + b for a in 'bcdfg' for b in 'hjklm'][:rng.randrange(11, 16)]
  rng.shuffle(words)
  rep = rng.choice([2, 3])
  def state(extra_x):
    ws = [w for w in words for _ in range(rep)] + ['x'] * extra_x
    rng.shuffle(ws)
    cut = rng.randrange(1, len(ws))
    return [[' '.join(ws[:cut]), ' '.join(ws[cut:])]] if rng.random() < 0.5 else [[' '.join(ws[:cut])], [' '.join(ws[cut:])]]
  A, B = state(1), state(1)
  C = [[' '.join(['x'] * rng.randrange(4, 8))]]
  sts = [A, B, C]
  rng.shuffle(sts)
  return dict(kind='laws', metric='ngrams', cfg=dict(k=1, n=1, first=False, dup=True),
              api=rng.choice(['object', 'aggfn']), A=sts[0], B=sts[1], C=sts[2], wide=True)


def gen_laws(ctx):
  rng = ctx.rng
  for _ in range(30 if ctx.quick else 1500):
    yield gen_laws_wide(rng)
  for _ in range(150 if ctx.quick else 12000):
    metric = rng.choice(['ngrams', 'ngrams', 'patterns'])
    cfg = gen_cfg(rng, metric)
    yield dict(kind='laws', metric=metric, cfg=cfg, api=rng.choice(['object', 'aggfn']),
               A=gen_batches(rng, metric, 2), B=gen_batches(rng, metric, 2), C=gen_batches(rng, metric, 2))


def gen_prog(ctx, n_cases):
  """random interleavings of make/add/merge/result/call over <= 4 accumulators, a snapshot of every accumulator
  after every call (the aliasing probes: operand re-read after merge, after later adds to either side, ...)."""
  rng = ctx.rng
  for _ in range(n_cases):
    metric = rng.choice(['ngrams', 'ngrams', 'patterns'])
    cfg = gen_cfg(rng, metric)
    prog, n = [['make'], ['make'], ['snap']], 2
    for _ in range(rng.randrange(3, 10)):
      r = rng.random()
      if r < 0.12 and n < 4:
        prog.append(['make']); n += 1
      elif r < 0.5:
        prog.append(['add', rng.randrange(n), gen_batch(rng, metric, 3)])
      elif r < 0.85:
        i, j = rng.sample(range(n), 2)
        prog.append(['merge', i, j])
      elif r < 0.93:
        prog.append(['result', rng.randrange(n)])
      else:
        prog.append(['call', gen_batch(rng, metric, 3)])
      prog.append(['snap'])
    yield dict(kind='prog', metric=metric, cfg=cfg, api=rng.choice(['object', 'aggfn']), prog=prog)
  # the classic aliasing shapes, deterministically: empty receiver adopts operand; operand updated afterwards; chain
  g = gen_text
  for metric, cfg in (('ngrams', dict(k=5, n=1, first=False, dup=True)), ('patterns', dict(patterns=['a', 'b'], dup=True))):
    for api in ('object', 'aggfn'):
      t1, t2, t3 = ['a b', 'a'], ['b b'], ['a a a']
      for prog in (
          [['make'], ['make'], ['add', 1, t1], ['merge', 0, 1], ['snap'], ['add', 0, t2], ['snap'], ['add', 1, t3], ['snap']],
          [['make'], ['make'], ['add', 0, t1], ['add', 1, t2], ['merge', 0, 1], ['snap'], ['add', 1, t3], ['snap'], ['merge', 1, 0], ['snap']],
          [['make'], ['make'], ['make'], ['add', 2, t1], ['merge', 1, 2], ['merge', 0, 1], ['snap'], ['add', 2, t2], ['snap'], ['add', 0, t3], ['snap']],
      ):
        yield dict(kind='prog', metric=metric, cfg=cfg, api=api, prog=prog)


def gen_c07(ctx):
  rng = ctx.rng
  # small-exhaustive: every dataset of <= 2 texts of <= 3 tokens over a tiny alphabet x every flag combination
  toks = ['a', 'b', 'B!', '\t']
  texts = ['']
  for L in (1, 2, 3):
    texts += [' '.join(p) for p in itertools.product(toks, repeat=L)]
  datasets = [[t] for t in texts]
  datasets += [[a, b] for a in texts[::5] for b in texts[::7]]
  for i, ds in enumerate(datasets):
    for first, dup in ((False, True), (False, False), (True, True)):
      cfg = dict(k=[1, 2, 9][i % 3], n=1 + (i // 3) % 3, first=first, dup=dup)
      yield dict(kind='c07', metric='ngrams', cfg=cfg, api='object', batches=[ds])
  ptexts = [''.join(p) for L in (0, 1, 2, 3, 4) for p in itertools.product('ab', repeat=L)]
  for i, t in enumerate(ptexts):
    for dup in (True, False):
      yield dict(kind='c07', metric='patterns', cfg=dict(patterns=['a', 'aa', 'ab', ''][: 1 + i % 4], dup=dup),
                 api='object', batches=[[t, ptexts[(i * 7) % len(ptexts)]]])
  # wide-vocabulary multi-batch streams through every accumulation path (SC07c)
  yield from gen_wide_c07(rng, 120 if ctx.quick else 4000)
  for _ in range(500 if ctx.quick else 50000):
    metric = rng.choice(['ngrams', 'ngrams', 'patterns'])
    yield dict(kind='c07', metric=metric, cfg=gen_cfg(rng, metric), api=rng.choice(['object', 'aggfn']),
               batches=gen_batches(rng, metric))
  for _ in range(60 if ctx.quick else 6000):
    yield dict(kind='avgalpha', metric='avgalpha', texts=[gen_text(rng) for _ in range(rng.randrange(1, 6))])
  yield dict(kind='avgalpha', metric='avgalpha', texts=[])


def gen_malformed(ctx, kind_tag, n_cases):
  """~10%: constructor arguments the code rejects, and texts that are not str."""
  rng = ctx.rng
  for _ in range(n_cases):
    r = rng.random()
    if r < 0.35:
      cfg = gen_cfg(rng, 'ngrams')
      cfg[rng.choice(['k', 'n'])] = rng.choice([0, -1, -7])
      yield dict(kind='malformed', what='bad-k-n', metric='ngrams', cfg=cfg, api=rng.choice(['object', 'aggfn']),
                 prog=[['make'], ['fn', ['a b']]])
    elif r < 0.6:
      ps = rng.choice([[], ['a', 'a'], ['a', 'b', 'a'], ['', '']])
      yield dict(kind='malformed', what='bad-patterns', metric='patterns', cfg=dict(patterns=ps, dup=rng.random() < 0.5),
                 api=rng.choice(['object', 'aggfn']), prog=[['make'], ['fn', ['a b']]])
    else:
      metric = rng.choice(['ngrams', 'patterns'])
      cfg = gen_cfg(rng, metric)
      good = gen_batch(rng, metric, 3)
      bad = gen_batch(rng, metric, 3)
      bad.insert(rng.randrange(len(bad) + 1), None)
      yield dict(kind='malformed', what='non-str-text', metric=metric, cfg=cfg, api=rng.choice(['object', 'aggfn']),
                 prog=[['make'], ['make'], ['add', 0, good], ['snap'], ['add', 0, bad], ['snap'], ['merge', 1, 0], ['snap'],
                       ['call', bad], ['fn', bad]])


# ----------------------------------------------------------------------------- coverage labels

def labels(case):
  """which corners of the statement a case exercises (computed with the oracle-side definitions only)."""
  out = set()
  metric = case['metric']
  out.add('metric:' + metric)
  if metric == 'avgalpha':
    out.add('avgalpha:empty' if not case['texts'] else 'avgalpha:data')
    return out
  out.add('api:' + case.get('api', 'object'))
  if case['kind'] == 'malformed':
    out.add('malformed:' + case['what'])
    return out
  cfg = case['cfg']
  texts, batches = [], []
  for op in prog_of(case):
    if op[0] == 'add':
      batches.append(op[2]); texts += op[2]
  if any(len(b) == 0 for b in batches):
    out.add('empty-batch')
  if case['kind'] == 'c01':
    if any(len(s) == 0 for s in case['shards']):
      out.add('empty-shard')
    if len(case['shards']) >= 2:
      out.add('shards>=2')
    out.add('plan:' + ('merge_states' if case['plan'] == 'merge_states' else 'tree'))
  if '' in texts:
    out.add('empty-text')
  if metric == 'ngrams':
    out.add('first' if cfg['first'] else ('dup' if cfg['dup'] else 'nodup'))
    for t in texts:
      ws = spec_words(t)
      if len(ws) < cfg['n']:
        out.add('text-shorter-than-n')
      grams = [' '.join(ws[i:i + cfg['n']]) for i in range(len(ws) - cfg['n'] + 1)]
      if len(set(grams)) < len(grams):
        out.add('repeated-ngram-in-text')
      if any(ch in t for ch in '\t\n '):
        out.add('non-space-whitespace')
      if any(ord(ch) > 127 for ch in t):
        out.add('non-ascii')
      if any('A' <= ch <= 'Z' for ch in t):
        out.add('upper-case')
    whole = [t for t in texts]
    counts = spec_ngram_counts(cfg, whole)
    if cfg['k'] > len(counts):
      out.add('k>distinct')
    if cfg['k'] < len(counts):
      out.add('k<distinct')
      srt = sorted(counts.values(), reverse=True)
      if srt[cfg['k'] - 1] == srt[cfg['k']]:
        out.add('tie-at-k-boundary')
    if len(set(counts.values())) < len(counts):
      out.add('tie')
    if case.get('wide') and case['kind'] in ('c01', 'c07'):
      out |= wide_labels(case)
    if case.get('paths'):
      out.add('paths:add/merge/merge_states/call/fn')
  else:
    out.add('dup' if cfg['dup'] else 'nodup')
    if '' in cfg['patterns']:
      out.add('empty-pattern')
    for p in cfg['patterns']:
      for t in texts:
        occ = spec_occurrences(p, t)
        if occ == 0:
          out.add('pattern-absent')
        if occ > 1:
          out.add('pattern-repeated')
        if p and any(t[i:i + len(p)] == p and t[i + 1:i + 1 + len(p)] == p for i in range(len(t))) and len(p) > 1:
          out.add('overlapping-occurrences')
      if any(ch in p for ch in '.()[]*\\^$|'):
        out.add('regex-metachar-pattern')
  return out


REQUIRED = {
    'C01': ['metric:ngrams', 'metric:patterns', 'api:object', 'api:aggfn', 'empty-batch', 'empty-shard', 'shards>=2',
            'plan:merge_states', 'plan:tree', 'first', 'dup', 'nodup', 'text-shorter-than-n', 'repeated-ngram-in-text',
            'k>distinct', 'k<distinct', 'tie-at-k-boundary', 'empty-text', 'pattern-absent', 'pattern-repeated',
            'wide:arm-bloomer', 'wide:arm-zipf', 'wide:state>10k', 'wide:late-bloomer', 'wide:early-leader', 'wide:state>k'],
    'C11': ['metric:ngrams', 'metric:patterns', 'api:object', 'api:aggfn', 'empty-batch', 'k<distinct',
            'malformed:non-str-text'],
    'C07': ['metric:ngrams', 'metric:patterns', 'metric:avgalpha', 'api:object', 'api:aggfn', 'first', 'dup', 'nodup',
            'text-shorter-than-n', 'repeated-ngram-in-text', 'k>distinct', 'k<distinct', 'tie', 'tie-at-k-boundary',
            'empty-text', 'non-space-whitespace', 'non-ascii', 'upper-case', 'empty-pattern', 'pattern-absent',
            'pattern-repeated', 'overlapping-occurrences', 'regex-metachar-pattern', 'malformed:bad-k-n',
            'malformed:bad-patterns', 'malformed:non-str-text', 'avgalpha:empty',
            'wide:arm-bloomer', 'wide:arm-zipf', 'wide:state>10k', 'wide:late-bloomer', 'wide:early-leader', 'wide:state>k', 'paths:add/merge/merge_states/call/fn'],
}


def counted(ctx, pid, it):
  for case in it:
    ctx.count('text:kind', case['kind'])
    for lb in labels(case):
      ctx.count('text:covered', lb)
    yield case


def make_extra(pid):
  def extra(ctx):
    from harness.core import InfraError
    missing = [b for b in REQUIRED[pid] if b not in ctx.hist.get('text:covered', {})]
    if missing:
      raise InfraError(f'text family: generator missed promised corners for {pid}: {missing}')
  return extra


# ----------------------------------------------------------------------------- oracles

def is_err(o):
  return isinstance(o, dict) and 'err' in o


def same(a, b):
  return deep_close(a, b)


def oracle_malformed(case, obs):
  """Rejected arguments must be rejected with ValueError; a failing add must leave every accumulator as it was."""
  o = obs['obs']
  if case['what'] in ('bad-k-n', 'bad-patterns'):
    for x in o:
      if not (is_err(x) and x['err'] == 'ValueError'):
        return f"invalid configuration {case['cfg']} was not rejected with ValueError: {x}"
    return None
  prog = case['prog']
  snaps = [x['rows'] for op, x in zip(prog, o) if op[0] == 'snap']
  if not is_err(o[4]):
    return 'a batch containing a non-str text was accepted'
  if not same(snaps[0], snaps[1]):
    return 'a failing add() changed the state of an accumulator'
  if not (is_err(o[8]) and is_err(o[9])):
    return 'the one-shot API accepted a non-str text'
  return None


def oracle_c01(case, obs):
  """The statement itself on the real code: any batching / sharding / merge tree = one accumulator, one batch."""
  if case['kind'] == 'malformed':
    return oracle_malformed(case, obs)
  if case['kind'] != 'c01':
    return None
  o = obs['obs']
  for x in o:
    if is_err(x):
      return f"well-formed input raised {x['err']}"
  sharded, single = o[-4], o[-1]
  if not same(sharded, single):
    return f'sharded/batched result {sharded} != single-batch result {single}'
  if case['metric'] == 'ngrams' and len(single) > case['cfg']['k']:
    return f"more than k={case['cfg']['k']} rows"
  return None


def oracle_c11(case, obs):
  """Laws and frame conditions, read off the real results only."""
  if case['kind'] == 'malformed':
    return oracle_malformed(case, obs)
  if case['kind'] not in ('laws', 'prog'):
    return None
  if obs['impure']:
    return f"result() is not repeatable / hands out internal storage (at calls {obs['impure']})"
  o = obs['obs']
  for x in o:
    if is_err(x):
      return f"well-formed input raised {x['err']}"
  for op, x in zip(prog_of(case), o):
    if op[0] == 'snap' and len(set(x['ids'])) != len(x['ids']):
      return f"two accumulators hold the same Counter object (identity classes {x['ids']})"
  if case['kind'] == 'laws':
    snap = o[-1]['rows']
    for name, idxs in LAW_GROUPS.items():
      for i in idxs[1:]:
        if not same(snap[idxs[0]], snap[i]):
          return f'{name}: accumulator {idxs[0]} reports {snap[idxs[0]]}, accumulator {i} reports {snap[i]}'
    return None
  # kind == 'prog': after every call only the receiver may report something new
  prog = case['prog']
  prev = None
  for at, (op, x) in enumerate(zip(prog, o)):
    if op[0] != 'snap':
      continue
    x = x['rows']
    last = prog[at - 1] if at else None
    if prev is not None and last is not None:
      receiver = {'add': last[1] if len(last) > 1 else None, 'merge': last[1] if len(last) > 1 else None}.get(last[0])
      for j, (before, after) in enumerate(zip(prev, x)):
        if j != receiver and not same(before, after):
          what = {'merge': 'merge modified its operand or a bystander', 'add': 'add leaked into another accumulator'}.get(
              last[0], f'{last[0]} modified an accumulator')
          return f'{what}: call #{at - 1} {last[:2] if last[0] != "merge" else last} changed accumulator {j} from {before} to {after}'
      if last[0] == 'make' and x[len(prev):] != [[]]:
        return f'a fresh accumulator reports {x[len(prev):]}'
    prev = x
  return None


def oracle_c07(case, obs):
  """Every reported value equals the documented definition computed by brute force from the raw texts; the three
  APIs (accumulator / AggregateFn.__call__ / one-shot function) agree."""
  if case['kind'] == 'malformed':
    return oracle_malformed(case, obs)
  o = obs['obs']
  if case['metric'] == 'avgalpha':
    if not case['texts']:
      return None if (is_err(o[0]) and o[0]['err'] == 'ValueError') else 'empty texts not rejected with ValueError'
    want = spec_avgalpha(case['texts'])
    return None if same(o[0], want) else f'avg_alphabetical_char_count {o[0]} != mean/variance of the letter counts {want}'
  if case['kind'] != 'c07':
    return None
  for x in o:
    if is_err(x):
      return f"well-formed input raised {x['err']}"
  metric, cfg = case['metric'], case['cfg']
  prog = prog_of(case)
  whole = flat(case['batches'])
  want = spec_rows(metric, cfg, whole)
  res, call, fn = o[-3], o[-2], o[-1]

  def agrees(got, want):
    # TopKWordNGrams documents its order completely (frequency, then alphabetical): compare as lists.
    # PatternFrequency documents no order at all: compare as a pattern -> frequency table.
    if metric == 'ngrams':
      return same(got, want)
    return same(sorted(got, key=lambda r: _str_key(r[0])), sorted(want, key=lambda r: _str_key(r[0])))

  for at, (op, x) in enumerate(zip(prog, o)):
    if op[0] == 'result' and not agrees(x, want):
      how = 'accumulator'
      if case.get('paths'):
        how = ('accumulator fed batch by batch', 'per-batch accumulators merged pairwise',
               'per-batch accumulators after one merge_states call')[[i for i, q in enumerate(prog) if q[0] == 'result'].index(at)]
      return f'{how}: result {x} != definition over all texts {want}'
  if not agrees(call, want):
    return f'AggregateFn.__call__ {call} != definition {want}'
  if not agrees(fn, want):
    return f'one-shot function {fn} != definition {want}'
  if not (same(call, res) and same(fn, res)):
    return f'the three APIs disagree: result() {res}, AggregateFn.__call__ {call}, function {fn}'
  for op, x in zip(prog, o):
    if op[0] == 'add' and x is not None:
      w = spec_rows(metric, cfg, op[2])
      if not agrees(x, w):
        return f'add() returned {x} for the batch {op[2]}, definition gives {w}'
  return None


def nontrivial_c01(case, obs):
  if case['kind'] != 'c01':
    return False
  nb = sum(len(s) for s in case['shards'])
  return nb >= 2 and bool(obs['obs'][-1]) and not is_err(obs['obs'][-1])


def nontrivial_c11(case, obs):
  if case['kind'] == 'laws':
    return bool(flat(case['A'])) and bool(flat(case['B']))
  if case['kind'] == 'prog':
    return any(op[0] == 'merge' for op in case['prog']) and any(op[0] == 'add' and op[2] for op in case['prog'])
  return False


def nontrivial_c07(case, obs):
  if case['kind'] == 'avgalpha':
    return len(case['texts']) >= 2
  if case['kind'] != 'c07':
    return False
  r = obs['obs'][-3]
  return isinstance(r, list) and len(r) >= 1 and len(flat(case['batches'])) >= 2


def finding(case, what):
  return None


# ----------------------------------------------------------------------------- shrinking / neighbours

def shrink(case, fails):
  """drop batches / texts / trailing characters while the failure persists"""
  cur = copy.deepcopy(case)

  def lists_of(c):
    if c['kind'] == 'c01':
      return [b for s in c['shards'] for b in s]
    if c['kind'] == 'laws':
      return [b for k in 'ABC' for b in c[k]]
    if c['kind'] == 'c07':
      return list(c['batches'])
    if c['kind'] == 'avgalpha':
      return [c['texts']]
    return [op[2] for op in c['prog'] if op[0] == 'add'] + [op[1] for op in c['prog'] if op[0] in ('call', 'fn')]

  import time
  deadline = time.time() + 60          # wide streams hold hundreds of texts: bounded effort, the case stays a failing one

  # (SC07c) first whole blocks of texts (halves, quarters, ...), then single texts / characters
  size = max((len(b) for b in lists_of(cur)), default=0) // 2
  while size >= 2 and time.time() < deadline:
    progress = False
    for bi in range(len(lists_of(cur))):
      start = 0
      while start < len(lists_of(cur)[bi]) and time.time() < deadline:
        c = copy.deepcopy(cur)
        del lists_of(c)[bi][start:start + size]
        if fails(c):
          cur, progress = c, True
        else:
          start += size
    if not progress:
      size //= 2

  changed = True
  while changed and time.time() < deadline:
    changed = False
    for bi in range(len(lists_of(cur))):
      b = lists_of(cur)[bi]
      for ti in range(len(b)):
        c = copy.deepcopy(cur)
        del lists_of(c)[bi][ti]
        if fails(c):
          cur, changed = c, True
          break
        if isinstance(b[ti], str) and b[ti] and len(b) <= 40:
          for cut in (b[ti][:-1], b[ti][1:]):
            c = copy.deepcopy(cur)
            lists_of(c)[bi][ti] = cut
            if fails(c):
              cur, changed = c, True
              break
          if changed:
            break
      if changed:
        break
  return cur


def _nb_metric(case, rng):
  metric = case['metric'] if case['metric'] in ('ngrams', 'patterns') else rng.choice(['ngrams', 'patterns'])
  return metric, (case['cfg'] if rng.random() < 0.5 and case.get('kind') != 'malformed' and 'cfg' in case
                  else gen_cfg(rng, metric))


def neighbours_c01(case, rng):
  """failing-input search for C01: other compositions / merge trees of similar data, same or a fresh configuration"""
  yield from gen_wide_c01(rng, 40)
  for _ in range(400):
    metric, cfg = _nb_metric(case, rng)
    yield mk_c01(rng, metric, cfg, [gen_batches(rng, metric) for _ in range(rng.randrange(1, 5))])


def neighbours_c11(case, rng):
  class _C:
    pass
  for _ in range(200):
    metric, cfg = _nb_metric(case, rng)
    yield dict(kind='laws', metric=metric, cfg=cfg, api=rng.choice(['object', 'aggfn']),
               A=gen_batches(rng, metric, 2), B=gen_batches(rng, metric, 2), C=gen_batches(rng, metric, 2))
  ctx = _C()
  ctx.rng = rng
  yield from gen_prog(ctx, 300)


def neighbours_c07(case, rng):
  yield from gen_wide_c07(rng, 40)
  for _ in range(400):
    metric, cfg = _nb_metric(case, rng)
    yield dict(kind='c07', metric=metric, cfg=cfg, api=rng.choice(['object', 'aggfn']), batches=gen_batches(rng, metric))


# ----------------------------------------------------------------------------- the three sub-checks

def _corpus(ctx, pid):
  return list(ctx.corpus('text_' + pid))


class C01:
  LEAN_MODULES = LEAN_C01
  TRUSTED = TRUSTED
  ASSUMPTIONS = ASSUMPTIONS
  RULE = ('text: small-exhaustive over every composition of 4-text datasets into batches and of the batches into shards '
          '(with empty batches/shards sprinkled in), all-empty corners, then random (metric, k, n, flags / pattern sets, '
          '1-4 shards x 0-3 batches x 0-4 texts, random binary merge tree or one merge_states call in shuffled order, '
          'object API or AggregateFn API) and ~8% malformed; oracle = result of the merged shards vs one accumulator fed '
          'everything in one batch on the real code; non-trivial = at least 2 batches and a non-empty result.  (SC07c) plus '
          'wide-vocabulary multi-batch n-gram streams: state-size constants c = int literals of aggregates/text.py + utils.py '
          '(ast, at run time) united with 1 and 10, vocabulary straddling c*k (cut-1 .. cut+5, 2-3x), "late bloomer" arm (k '
          'n-grams below the cut in the first batch that are the global top; forward / reversed / shuffled batch order) and '
          'drifting-Zipf arm, dealt to 1-3 shards; coverage labels from textbook prefix counts only')
  run_impl = staticmethod(run_impl)
  model_requests = staticmethod(model_requests)
  model_obs = staticmethod(model_obs)
  compare = staticmethod(compare)
  oracle = staticmethod(oracle_c01)
  nontrivial = staticmethod(nontrivial_c01)
  finding = staticmethod(finding)
  shrink = staticmethod(shrink)
  neighbours = staticmethod(neighbours_c01)
  extra = staticmethod(make_extra('C01'))

  @staticmethod
  def gen_cases(ctx):
    yield from counted(ctx, 'C01', _corpus(ctx, 'C01'))
    yield from counted(ctx, 'C01', gen_c01(ctx))
    yield from counted(ctx, 'C01', gen_malformed(ctx, 'C01', 60 if ctx.quick else 1200))


class C11:
  LEAN_MODULES = LEAN_C11
  TRUSTED = TRUSTED
  ASSUMPTIONS = ASSUMPTIONS
  RULE = ('text: "laws" cases build 18 accumulators from three random datasets A, B, C and compare (A.B).C / A.(B.C), '
          'A.B / B.A, E.A / A / A.E and every accumulator that was only ever an operand with an untouched twin; "prog" '
          'cases are random interleavings of make/add/merge/result/__call__ over <= 4 accumulators with a snapshot of '
          'every accumulator after every call (frame condition: only the receiver changes), each result() read twice with '
          'the first returned list cleared in between; plus the classic aliasing shapes deterministically and ~8% malformed; '
          'non-trivial = a merge of states built from non-empty data')
  run_impl = staticmethod(run_impl)
  model_requests = staticmethod(model_requests)
  model_obs = staticmethod(model_obs)
  compare = staticmethod(compare)
  oracle = staticmethod(oracle_c11)
  nontrivial = staticmethod(nontrivial_c11)
  finding = staticmethod(finding)
  shrink = staticmethod(shrink)
  neighbours = staticmethod(neighbours_c11)
  extra = staticmethod(make_extra('C11'))

  @staticmethod
  def gen_cases(ctx):
    yield from counted(ctx, 'C11', _corpus(ctx, 'C11'))
    yield from counted(ctx, 'C11', gen_laws(ctx))
    yield from counted(ctx, 'C11', gen_prog(ctx, 400 if ctx.quick else 40000))
    yield from counted(ctx, 'C11', gen_malformed(ctx, 'C11', 50 if ctx.quick else 1000))


class C07:
  LEAN_MODULES = LEAN_C07
  TRUSTED = TRUSTED
  ASSUMPTIONS = ASSUMPTIONS
  RULE = ('text: small-exhaustive over all datasets of 1 text (and a lattice of 2 texts) with <= 3 tokens from '
          "{a, b, 'B!', TAB} x n in 1..3 x k in {1,2,9} x (dup | no-dup | first-only), all pattern texts over {a,b} up to "
          'length 4 x pattern sets incl. the empty pattern, then random texts (mixed case, punctuation, digits, tabs, '
          'newlines, NBSP, non-ASCII letters, empty / blank texts) and random pattern sets incl. regex metacharacters, '
          'avg_alphabetical_char_count, and ~8% malformed; oracle = brute-force definitions (character scan, position '
          'counting, exact Fractions, code-point order) for result(), add() return values, AggregateFn.__call__ and the '
          'one-shot functions; non-trivial = at least 2 texts and a non-empty result.  (SC07c) plus wide-vocabulary multi-batch '
          'n-gram streams (constants c read off the source by ast, united with 1 and 10; vocabulary straddling c*k; late-bloomer '
          'and drifting-Zipf arms) through EVERY accumulation path - one accumulator fed batch by batch | per-batch accumulators '
          'merged pairwise | one merge_states call in shuffled order | __call__ and the function on the concatenation - each '
          'compared with the definition over all raw texts')
  run_impl = staticmethod(run_impl)
  model_requests = staticmethod(model_requests)
  model_obs = staticmethod(model_obs)
  compare = staticmethod(compare)
  oracle = staticmethod(oracle_c07)
  nontrivial = staticmethod(nontrivial_c07)
  finding = staticmethod(finding)
  shrink = staticmethod(shrink)
  neighbours = staticmethod(neighbours_c07)
  extra = staticmethod(make_extra('C07'))

  @staticmethod
  def gen_cases(ctx):
    yield from counted(ctx, 'C07', _corpus(ctx, 'C07'))
    yield from counted(ctx, 'C07', gen_c07(ctx))
    yield from counted(ctx, 'C07', gen_malformed(ctx, 'C07', 80 if ctx.quick else 1600))


CHECKS = {'C01': C01, 'C11': C11, 'C07': C07}
