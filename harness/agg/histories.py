"""Histories WITH READS: sub-checks of C01 / C07 / C11 over all four metric families (work package SC07).

The Lean models treat `result` as a pure function of the accumulator state (`Mergeable.result`, the heap models'
`result` op that leaves every object record alone).  That is exactly what the real code must be tied to: a real
`result()` / `get_result(state)` / derived property is free to cache, to normalise, to write into the object - and a
later in-place `add` / `merge` / `merge_states` must still be seen by the next read.  The case class here is

    a history over numbered accumulators with reads INTERLEAVED with the mutations of the SAME state objects:
      ["new", i]  ["add", i, batch]  ["merge", i, j]  ["merge_states", [i, j, ...]]  ["read", i]
    through the object API (add / merge / result) and the AggregateFn API (create_state / update_state /
    merge_states / get_result), for classification (ConfusionMatrixAggFn, TopKConfusionMatrixAggFn, samplewise,
    the ClassificationAggFn wrapper), retrieval (TopKRetrieval, ThresholdedRetrieval, MeanState, TupleMeanState),
    rolling (14 metrics) and text (TopKWordNGrams, PatternFrequency).

Oracle (from the English statements only - C11: "reading a result is repeatable and does not disturb subsequent
updates"; C01: the result after any add/merge history = one accumulator fed everything in one batch; C07: the
value is the textbook value of the data, which the one-shot run is checked against by the per-family C07 checks):

  read-transparency : a read never changes what later reads return - every read of the history returns what the
                      same history returns when all EARLIER reads are left out (the twin run);
  read-value        : a read after any mutation equals the one-shot value of all the data that reached that
                      accumulator so far (a fresh accumulator fed the concatenation, in merge order, as ONE batch; a
                      fresh accumulator if nothing was fed).

Model side: the same history on the Lean model - the program drivers of the rolling / retrieval / text families
execute it directly; for classification every read is the model's `result` of the merge tree of one-batch states
that the history built (`Agg.Hist.run_obs` in Lemmas/AggHistory.lean is the theorem that this is what a history with
reads observes).
"""
from __future__ import annotations

import copy
import warnings

from harness.agg import classification as CL
from harness.agg import retrieval as RT
from harness.agg import rolling as RO
from harness.agg import text as TX
from harness.core import deep_close, err_kind

LEAN = {
    'C01': ['MlModel.Properties.C01.History'],
    'C07': ['MlModel.Properties.C07.Rolling'],
    'C11': ['MlModel.Properties.C11.History', 'MlModel.Witness.C11History'],
}


# ----------------------------------------------------------------------------- provenance of a history

def provenance(ops):
  """for every read: (list of batch indices that reached the accumulator, in merge order; fed?; expression)"""
  expr, out, nb = {}, [], 0
  for op in ops:
    k = op[0]
    if k == 'new':
      expr[op[1]] = ('fresh',)
    elif k == 'add':
      expr[op[1]] = ('merge', expr[op[1]], ('batch', nb))
      nb += 1
    elif k == 'merge':
      expr[op[1]] = ('merge', expr[op[1]], expr[op[2]])
    elif k == 'merge_states':
      e = expr[op[1][0]]
      for j in op[1][1:]:
        e = ('merge', e, expr[j])
      expr[op[1][0]] = e
    elif k == 'read':
      e = expr[op[1]]
      out.append((expr_data(e), expr_fed(e), e))
  return out


def expr_data(e):
  if e[0] == 'fresh':
    return []
  if e[0] == 'batch':
    return [e[1]]
  return expr_data(e[1]) + expr_data(e[2])


def expr_fed(e):
  if e[0] == 'fresh':
    return False
  if e[0] == 'batch':
    return True
  return expr_fed(e[1]) or expr_fed(e[2])


def batches_of(ops):
  return [op[2] for op in ops if op[0] == 'add']


def twin(ops, k):
  """the history up to the k-th read with all earlier reads left out"""
  out, seen = [], 0
  for op in ops:
    if op[0] == 'read':
      if seen == k:
        out.append(op)
        return out
      seen += 1
    else:
      out.append(op)
  raise IndexError(k)


# ----------------------------------------------------------------------------- family adapters

class Rolling:
  name = 'rolling'
  METRICS = [m for m, _ in RO.METRIC_WEIGHTS if m != 'fss']   # the reservoir's result is random: C01 fixes only its size

  @staticmethod
  def gen_spec(rng):
    m = RO.pick_metric(rng)
    while m == 'fss':
      m = RO.pick_metric(rng)
    spec = RO.SPECS[m]
    return dict(metric=m, cfg=spec.gen_cfg(rng), api='aggfn' if (spec.has_aggfn and rng.random() < 0.45) else 'object')

  @staticmethod
  def gen_batch(rng, sp):
    spec = RO.SPECS[sp['metric']]
    n = rng.randint(1, 3) if sp['metric'] == 'minmax' else rng.choice([0, 1, 2, 3, 4])
    return spec.gen_batch(rng, sp['cfg'], n)

  @staticmethod
  def readable(sp, fed):
    return fed or sp['metric'] != 'valueacc'      # result() of a never-updated ValueAccumulator: IndexError

  @staticmethod
  def one_shot_defined(sp):
    # without concat_fn the accumulated items are the batch objects themselves: there is no "one batch" of them
    return not (sp['metric'] == 'valueacc' and not sp['cfg']['concat'])

  @staticmethod
  def concat(sp, bs):
    return RO.SPECS[sp['metric']].concat(sp['cfg'], bs)

  @staticmethod
  def native(sp, ops):
    prog = []
    for op in ops:
      k = op[0]
      if k == 'new':
        prog.append(dict(op='make', acc=op[1]))
      elif k == 'add':
        prog.append(dict(op='add', acc=op[1], batch=op[2]))
      elif k == 'merge':
        prog.append(dict(op='merge', acc=op[1], other=op[2]))
      elif k == 'merge_states':
        prog.append(dict(op='merge_states', accs=list(op[1])))
      else:
        prog.append(dict(op='result', acc=op[1]))
    return dict(metric=sp['metric'], cfg=sp['cfg'], api=sp['api'], prog=prog, container=sp.get('container'))

  @classmethod
  def run(cls, sp, ops):
    out, _ = RO.run_prog(cls.native(sp, ops))
    return [o for o in out if o is not None]

  @classmethod
  def model_requests(cls, sp, ops):
    return [RO.model_prog(cls.native(sp, ops))]

  @classmethod
  def model_reads(cls, sp, ops, resps):
    return [o for o in RO.model_out(cls.native(sp, ops), resps[0]) if o is not None]

  @staticmethod
  def close(sp, a, b, one_shot=False):
    return RO.approx(a, b)

  @classmethod
  def finding(cls, sp, ops, what):
    return RO.finding_class(cls.native(sp, ops), what)


class Retrieval:
  name = 'retrieval'

  @staticmethod
  def gen_spec(rng):
    r = rng.random()
    if r < 0.5:
      return dict(kind='topk', cfg=RT.rand_cfg(rng), api=rng.choice(['object', 'aggfn']))
    if r < 0.8:
      ts, ms = RT.rand_thr_cfg(rng)
      return dict(kind='thr', thresholds=ts, metrics=ms, with_prob=rng.random() < 0.8, api='object')
    if r < 0.9:
      return dict(kind='mean', api='object')
    return dict(kind='tuplemean', arity=rng.randrange(1, 4), api='object')

  @staticmethod
  def gen_batch(rng, sp):
    k = sp['kind']
    if k == 'topk':
      return RT.rand_batch(rng, sp['cfg'], rng.choice([0, 1, 2, 3]))
    if k == 'thr':
      return [RT.rand_thr_row(rng, sp['with_prob']) for _ in range(rng.choice([0, 1, 2, 3]))]
    if k == 'mean':
      return RT.rand_nums(rng, rng.choice([0, 1, 2, 4]))
    n = rng.choice([0, 1, 2, 3])
    return [RT.rand_nums(rng, n) for _ in range(sp['arity'])]

  @staticmethod
  def readable(sp, fed):
    return True

  @staticmethod
  def one_shot_defined(sp):
    return True

  @staticmethod
  def concat(sp, bs):
    if sp['kind'] == 'tuplemean':
      return [[x for b in bs for x in b[c]] for c in range(sp['arity'])]
    return [r for b in bs for r in b]

  @staticmethod
  def native(sp, ops, impl=False):
    # impl=True (SC11): the real code gets ONE merge_states call for every kind (ThresholdedRetrieval / MeanState /
    # TupleMeanState through base.as_agg_fn); the model drivers of those kinds get its left fold
    prog = []
    for op in ops:
      k = op[0]
      if k == 'read':
        prog.append(['result', op[1]])
      elif k == 'merge_states' and not (sp['kind'] == 'topk' and sp['api'] == 'aggfn') and not \
          (impl and sp.get('ms_call')):
        prog += [['merge', op[1][0], j] for j in op[1][1:]]
      else:
        prog.append(list(op))
    case = dict(kind=sp['kind'], api=sp['api'], prog=prog, container=sp.get('container'))
    if sp['kind'] == 'topk':
      case['cfg'] = sp['cfg']
    elif sp['kind'] == 'thr':
      case.update(thresholds=sp['thresholds'], metrics=sp['metrics'])
    return case

  @staticmethod
  def _reads(kind, prog, obs):
    """the observations of the `result` ops (add() produces an observation too, except for TupleMeanState)"""
    producing = ('result',) if kind == 'tuplemean' else ('add', 'result')
    out, it = [], iter(obs)
    for op in prog:
      if op[0] not in producing:
        continue
      o = next(it, None)
      if o is None:
        break
      if 'err' in o:
        out.append({'err': o['err']})
        break
      if op[0] == 'result':
        out.append(o)
    return out

  @classmethod
  def run(cls, sp, ops):
    case = cls.native(sp, ops, impl=True)
    return cls._reads(sp['kind'], case['prog'], RT.run_impl(case))

  @classmethod
  def model_requests(cls, sp, ops):
    return RT.model_requests(cls.native(sp, ops))

  @classmethod
  def model_reads(cls, sp, ops, resps):
    case = cls.native(sp, ops)
    return cls._reads(sp['kind'], case['prog'], RT.model_obs(case, resps))

  @staticmethod
  def close(sp, a, b, one_shot=False):
    return deep_close(a, b, rel=1e-9, abs_=1e-12)

  @classmethod
  def finding(cls, sp, ops, what):
    return None       # every finding of this family is repaired (ids in retrieval.finding are informational)


class Text:
  name = 'text'

  @staticmethod
  def gen_spec(rng):
    metric = rng.choice(['ngrams', 'ngrams', 'patterns'])
    sp = dict(metric=metric, cfg=TX.gen_cfg(rng, metric), api=rng.choice(['object', 'aggfn']))
    if metric == 'ngrams' and rng.random() < 0.35:
      # (SC07c) wide vocabulary: every batch holds more distinct n-grams than c*k for a size constant c of the source
      sp['cfg'] = TX.wide_cfg(rng, k=rng.choice([1, 1, 2]))
      sp['wide'] = dict(c=rng.choice([c for c in TX.size_constants() if c * sp['cfg']['k'] <= 130]))
    return sp

  @staticmethod
  def gen_batch(rng, sp):
    if sp.get('wide'):
      return TX.gen_wide_batch(rng, sp['cfg'], sp['wide']['c'])
    return TX.gen_batch(rng, sp['metric'], 3)

  @staticmethod
  def readable(sp, fed):
    return True

  @staticmethod
  def one_shot_defined(sp):
    return True

  @staticmethod
  def concat(sp, bs):
    return [t for b in bs for t in b]

  @staticmethod
  def native(sp, ops):
    prog, n = [], 0
    for op in ops:
      k = op[0]
      if k == 'new':
        assert op[1] == n, 'text programs create accumulators in index order'
        n += 1
        prog.append(['make'])
      elif k == 'read':
        prog.append(['result', op[1]])
      else:
        prog.append(list(op))
    return dict(kind='prog', metric=sp['metric'], cfg=sp['cfg'], api=sp['api'], prog=prog, container=sp.get('container'))

  @classmethod
  def run(cls, sp, ops):
    case = cls.native(sp, ops)
    r = TX.run_prog(case)
    out = []
    for at, (op, o) in enumerate(zip(case['prog'], r['obs'])):
      if isinstance(o, dict) and 'err' in o:
        out.append(o)
        break
      if op[0] == 'result':
        out.append({'rows': o, 'impure': at in r['impure']})
    return out

  @classmethod
  def model_requests(cls, sp, ops):
    return TX.model_requests(cls.native(sp, ops))

  @classmethod
  def model_reads(cls, sp, ops, resps):
    case = cls.native(sp, ops)
    out = []
    for op, o in zip(case['prog'], TX.model_obs(case, resps)['obs']):
      if isinstance(o, dict) and 'err' in o:
        out.append(o)
        break
      if op[0] == 'result':
        out.append({'rows': o, 'impure': False})
    return out

  @staticmethod
  def close(sp, a, b, one_shot=False):
    if isinstance(a, dict) and isinstance(b, dict) and 'rows' in a and 'rows' in b and sp['metric'] == 'patterns':
      # PatternFrequency documents no order of its rows: a pattern -> frequency table
      key = lambda r: TX._str_key(r[0])
      return deep_close(sorted(a['rows'], key=key), sorted(b['rows'], key=key)) and a['impure'] == b['impure']
    return deep_close(a, b)

  @classmethod
  def finding(cls, sp, ops, what):
    return None


class Classification:
  name = 'classification'

  @staticmethod
  def gen_spec(rng):
    kind, it, av = rng.choice(CL.valid_combos())
    label_kind = 'int' if rng.random() < 0.7 else 'str'
    # the sharding-invariance domain of C01: an explicit vocabulary wherever one can be given (F8 / FC3 are open)
    vmode = rng.choice(['ordered', 'permuted']) if it in ('multiclass', 'multiclass-multioutput') else \
        ('ordered' if av == 'macro' else rng.choice([None, None, 'ordered']))
    ms = rng.sample(CL.DERIVED, rng.choice([1, 3, 5, 8]))
    if av != 'samples' and rng.random() < 0.5:
      ms.append('confusion_matrix')
    if rng.random() < 0.25:
      ms = list(CL.DERIVED)
    single = len(ms) == 1 and rng.random() < 0.5
    k_list = 'auto'
    if kind == 'wrapper':      # the wrapper accepts a k_list only for (multi-output) multiclass input, not with `samples`
      ok = it in ('multiclass', 'multiclass-multioutput') and av != 'samples'
      k_list = rng.choice([[1], [1, 2], [2], [1, 2, 3], [1, 3]]) if (ok and rng.random() < 0.4) else None
    cfg, labels = CL.gen_cfg(rng, kind, it, av, label_kind, vmode, metrics=ms, single=single, k_list=k_list)
    if it in ('binary', 'multiclass-indicator') and av == 'macro' and cfg['vocab'] is None:
      cfg['vocab'] = CL.gen_vocab(rng, labels, 'ordered')
    width = rng.choice([1, 2]) if (it == 'multiclass-indicator' and av == 'binary') else rng.choice([2, 3])
    samplewise = kind == 'samplewise'
    api = 'object' if (samplewise and rng.random() < 0.5) else 'aggfn'
    return dict(kind=kind, cfg=cfg, labels=labels, width=width, api=api)

  @staticmethod
  def gen_batch(rng, sp):
    cfg = sp['cfg']
    it = cfg['input_type']
    n = rng.choice([1, 1, 2, 3, 4])
    if it != 'multiclass-indicator' and rng.random() < 0.06:
      n = 0
    if sp['kind'] in ('topk',) or (sp['kind'] == 'wrapper' and cfg['k_list']):
      return CL.gen_ranked_batch(rng, it, sp['labels'], n, maxlen=rng.choice([2, 3, 4]))
    b = CL.gen_batch(rng, it, sp['labels'], n, width=sp['width'], pos=cfg['pos_label'])
    if it == 'multiclass-multioutput' and (sp['kind'] == 'samplewise' or cfg['average'] == 'samples'):
      b['yp']['nested'] = [r or [sp['labels'][0]] for r in b['yp']['nested']]
    return b

  @staticmethod
  def readable(sp, fed):
    return fed        # get_result of a never-updated ConfusionMatrixAggFn state (None) is an AttributeError

  @staticmethod
  def one_shot_defined(sp):
    return True

  @staticmethod
  def concat(sp, bs):
    return CL.concat_batches([bs])

  @staticmethod
  def run(sp, ops):
    agg, _ = CL._mods()
    cfg = sp['cfg']
    out, accs = [], {}
    with warnings.catch_warnings():
      warnings.simplefilter('ignore')
      try:
        if sp['api'] == 'object':
          metrics = cfg['metrics'][0] if cfg['single'] else list(cfg['metrics'])
          make = lambda: agg.SamplewiseClassification(metrics=metrics, pos_label=cfg['pos_label'],
                                                      input_type=cfg['input_type'], vocab=CL.py_vocab(cfg['vocab']))
          fn = None
        else:
          fn = CL.make_aggfn(sp['kind'], cfg)
      except Exception as e:  # pylint: disable=broad-except
        return [{'err': err_kind(e), 'stage': 'construct'}]
      for op in ops:
        k = op[0]
        try:
          if k == 'new':
            accs[op[1]] = fn.create_state() if fn else make()
          elif k == 'add':
            yt, yp = CL.py_rows(op[2]['yt']), CL.py_rows(op[2]['yp'])
            if fn:
              accs[op[1]] = fn.update_state(accs[op[1]], yt, yp)
            else:
              accs[op[1]].add(yt, yp)
          elif k == 'merge':
            if fn:
              accs[op[1]] = fn.merge_states([accs[op[1]], accs[op[2]]])
            else:
              accs[op[1]].merge(accs[op[2]])
          elif k == 'merge_states':
            if fn:
              from harness.lib_states import pack   # sp['container']: list (default) / tuple / generator / ... (SC11)
              accs[op[1][0]] = fn.merge_states(pack([accs[i] for i in op[1]], sp.get('container')))
            else:
              for j in op[1][1:]:
                accs[op[1][0]].merge(accs[j])
          else:
            a = accs[op[1]]
            out.append({'result': CL.canon_result(fn.get_result(a) if fn else a.result(), cfg['single'])})
        except Exception as e:  # pylint: disable=broad-except
          out.append({'err': err_kind(e), 'op': k})
          break
    return out

  @staticmethod
  def _trees(ops):
    """per read: (shards, tree) of the classification driver's `run` op - one shard per fed batch, one empty shard
    for the never-updated states, tree = the history's merge expression (a list = merge_states of its children)"""
    bs = batches_of(ops)
    shards = [[b] for b in bs] + [[]]
    def tree(e):
      if e[0] == 'fresh':
        return len(bs)
      if e[0] == 'batch':
        return e[1]
      return [tree(e[1]), tree(e[2])]
    out = []
    for _, _, e in provenance(ops):
      t = tree(e)
      out.append((shards, t if isinstance(t, list) else [t]))
    return out

  @classmethod
  def model_requests(cls, sp, ops):
    kind = 'samplewise' if sp['api'] == 'object' else sp['kind']
    return [CL.model_request(dict(kind=kind, cfg=sp['cfg'], shards=shards, trees=[t]), 0)
            for shards, t in cls._trees(ops)]

  @classmethod
  def model_reads(cls, sp, ops, resps):
    return [CL.model_result(r, sp['cfg']['single']) for r in resps]

  @staticmethod
  def close(sp, a, b, one_shot=False):
    strip = lambda o: {k: v for k, v in o.items() if k not in ('stage', 'op')} if isinstance(o, dict) else o
    return deep_close(strip(a), strip(b), rel=1e-9, abs_=1e-9)

  @classmethod
  def finding(cls, sp, ops, what):
    bs = batches_of(ops)
    pseudo = dict(t='run', kind=sp['kind'], cfg=sp['cfg'], shards=[[b] for b in bs], trees=[list(range(len(bs)))])
    return CL.finding_class(pseudo, what)


FAMILIES = {f.name: f for f in (Classification, Retrieval, Rolling, Text)}


# ----------------------------------------------------------------------------- generator

ARMS = ['read, add, read (same accumulator)', 'read receiver, merge, read receiver', 'read operand, merge, read operand',
        'read a state, merge_states with that state FIRST, read', 'read a never-updated accumulator',
        'read receiver, merge a FED operand, read receiver (no add in between)',
        'merge with a never-updated accumulator, read', 'read twice in a row', '>=3 reads of one accumulator',
        'api object', 'api aggfn']
KINDS = ['classification/cm', 'classification/topk', 'classification/samplewise', 'classification/wrapper',
         'classification/samplewise/object', 'retrieval/topk', 'retrieval/thr', 'retrieval/mean',
         'retrieval/tuplemean', 'rolling', 'text/ngrams', 'text/patterns']


def gen_ops(rng, fam, sp):
  n = rng.randint(2, 4)
  ops = [['new', i] for i in range(n)]
  fed = [False] * n
  aggfn = sp['api'] == 'aggfn'

  def read(i):
    if fam.readable(sp, fed[i]):
      ops.append(['read', i])

  # every accumulator that will be merged from gets data first with high probability
  for _ in range(rng.randint(4, 11)):
    r = rng.random()
    if r < 0.40:
      i = rng.randrange(n)
      ops.append(['add', i, fam.gen_batch(rng, sp)])
      fed[i] = True
    elif r < 0.58:
      i, j = rng.sample(range(n), 2)
      ops.append(['merge', i, j])
      fed[i] = fed[i] or fed[j]
    elif r < 0.68 and n >= 2:
      ids = rng.sample(range(n), rng.randint(2, n))
      ops.append(['merge_states', ids] if aggfn else ['merge', ids[0], ids[1]])
      if not aggfn:
        ids = ids[:2]
      fed[ids[0]] = any(fed[i] for i in ids)
    else:
      i = rng.randrange(n)
      read(i)
      if rng.random() < 0.15:
        read(i)
  for i in range(n):
    read(i)
  return ops


def arms_of(fam, sp, ops):
  """which promised shapes a history contains (computed from the ops alone)"""
  arms = {'api ' + sp['api']}
  read_since = {}          # acc -> read at least once since creation
  last = {}                # acc -> kind of the last op that touched it as receiver
  fed = {}
  nreads = {}
  prev = None
  for op in ops:
    k = op[0]
    if k == 'new':
      fed[op[1]] = False
    elif k == 'add':
      if read_since.get(op[1]):
        last[op[1]] = 'add-after-read'
      fed[op[1]] = True
    elif k == 'merge':
      i, j = op[1], op[2]
      if read_since.get(i):
        # (SC11, seeded C11-m4) result() -> merge(non-empty other) -> result() with no add() on the receiver in between
        if fed[j] and last.get(i) in (None, 'merge-after-read-fed'):
          last[i] = 'merge-after-read-fed'
        else:
          last[i] = 'merge-after-read'
      if read_since.get(j):
        last[('operand', j)] = True
      if not fed[j] or not fed[i]:
        last[('unfed', i)] = True
      fed[i] = fed[i] or fed[j]
    elif k == 'merge_states':
      i = op[1][0]
      if read_since.get(i):
        last[i] = 'merge_states-after-read'
      if any(not fed[x] for x in op[1]):
        last[('unfed', i)] = True
      for j in op[1][1:]:
        if read_since.get(j):
          last[('operand', j)] = True
      fed[i] = any(fed[x] for x in op[1])
    else:
      i = op[1]
      nreads[i] = nreads.get(i, 0) + 1
      if nreads[i] >= 3:
        arms.add('>=3 reads of one accumulator')
      if prev is not None and prev[0] == 'read' and prev[1] == i:
        arms.add('read twice in a row')
      if not fed[i]:
        arms.add('read a never-updated accumulator')
      if last.get(i) == 'add-after-read':
        arms.add('read, add, read (same accumulator)')
      if last.get(i) in ('merge-after-read', 'merge-after-read-fed'):
        arms.add('read receiver, merge, read receiver')
      if last.get(i) == 'merge-after-read-fed':
        arms.add('read receiver, merge a FED operand, read receiver (no add in between)')
      if last.get(i) == 'merge_states-after-read':
        arms.add('read a state, merge_states with that state FIRST, read')
      if last.pop(('operand', i), None):
        arms.add('read operand, merge, read operand')
      if last.pop(('unfed', i), None):
        arms.add('merge with a never-updated accumulator, read')
      last.pop(i, None)
      read_since[i] = True
    prev = op
  return arms


def kind_of(case):
  f, sp = case['fam'], case['spec']
  if f == 'classification':
    return f'classification/{sp["kind"]}' + ('/object' if sp['api'] == 'object' else '')
  if f == 'retrieval':
    return f'retrieval/{sp["kind"]}'
  if f == 'text':
    return f'text/{sp["metric"]}'
  return 'rolling'


def gen_case(rng, fam_name=None):
  fam = FAMILIES[fam_name or rng.choice(['classification', 'classification', 'retrieval', 'rolling', 'rolling', 'text'])]
  sp = fam.gen_spec(rng)
  return dict(t='hist', fam=fam.name, spec=sp, ops=gen_ops(rng, fam, sp))


SEEDED_SHAPES = [
    # the "per-shard report, then global report" history: every state is read, then merged in place, then read again
    lambda b: [['new', 0], ['new', 1], ['new', 2], ['add', 0, b[0]], ['read', 0], ['add', 1, b[1]], ['read', 1],
               ['add', 2, b[2]], ['read', 2], ['merge_states', [0, 1, 2]], ['read', 0], ['read', 1], ['read', 2]],
    lambda b: [['new', 0], ['new', 1], ['add', 0, b[0]], ['read', 0], ['add', 1, b[1]], ['merge', 0, 1], ['read', 0],
               ['add', 0, b[2]], ['read', 0], ['read', 1]],
    lambda b: [['new', 0], ['new', 1], ['add', 0, b[0]], ['add', 0, b[1]], ['read', 0], ['read', 0], ['add', 1, b[2]],
               ['read', 1], ['merge', 1, 0], ['read', 1], ['read', 0]],
]


def gen_cases_for(ctx, pid, n_quick, n_thorough):
  rng = ctx.rng
  for c in ctx.corpus(f'{pid}_histories'):
    yield c
  # deterministic shapes for every family / kind first
  for fam in FAMILIES.values():
    for _ in range(6 if ctx.quick else 60):
      sp = fam.gen_spec(rng)
      for shape in SEEDED_SHAPES:
        bs = []
        while len(bs) < 3:
          b = fam.gen_batch(rng, sp)
          if fam.name != 'classification' or CL.py_rows(b['yt']):
            bs.append(b)
        ops = shape(bs)
        if sp['api'] != 'aggfn':
          ops = [['merge', op[1][0], op[1][1]] if op[0] == 'merge_states' else op for op in ops]
        yield _counted(ctx, pid, dict(t='hist', fam=fam.name, spec=sp, ops=ops))
  # (SC11, seeded C11-m4) for EVERY kind: result() -> merge(a fed operand) -> result() with no add() in between
  for kind in KINDS:
    for _ in range(1 if ctx.quick else 10):
      for _try in range(3000):
        fam = FAMILIES[kind.split('/')[0]]
        sp = fam.gen_spec(rng)
        if kind_of(dict(fam=fam.name, spec=sp)) == kind:
          break
      else:
        continue
      bs = []
      for _try in range(200):
        b = fam.gen_batch(rng, sp)
        if fam.name != 'classification' or CL.py_rows(b['yt']):
          bs.append(b)
        if len(bs) == 3:
          break
      if len(bs) == 3:
        yield _counted(ctx, pid, dict(t='hist', fam=fam.name, spec=sp, ops=SEEDED_SHAPES[1](bs)))
  for _ in range(n_quick if ctx.quick else n_thorough):
    yield _counted(ctx, pid, gen_case(rng))


def _counted(ctx, pid, case):
  fam = FAMILIES[case['fam']]
  ctx.count(f'{pid} histories kind', kind_of(case))
  for a in arms_of(fam, case['spec'], case['ops']):
    ctx.count(f'{pid} histories arm', a)
    ctx.count(f'{pid} histories arm/{case["fam"]}', a)
    if a == ARMS[5]:
      ctx.count(f'{pid} histories kind with: {ARMS[5]}', kind_of(case))
  ctx.count(f'{pid} histories reads', min(sum(1 for op in case['ops'] if op[0] == 'read'), 12))
  return case


# ----------------------------------------------------------------------------- the sub-check

def run_impl(case):
  fam, sp, ops = FAMILIES[case['fam']], case['spec'], case['ops']
  reads = fam.run(sp, ops)
  prov = provenance(ops)
  bs = batches_of(ops)
  twins, oneshot = [], []
  for k, (data, fed, _) in enumerate(prov):
    t = fam.run(sp, twin(ops, k))
    twins.append(t[-1] if t else None)
    if not fam.one_shot_defined(sp):
      oneshot.append(None)
    elif fed:
      o = fam.run(sp, [['new', 0], ['add', 0, fam.concat(sp, [bs[i] for i in data])], ['read', 0]])
      oneshot.append(o[-1] if o else None)
    else:
      o = fam.run(sp, [['new', 0], ['read', 0]])
      oneshot.append(o[-1] if o else None)
  return dict(reads=reads, twins=twins, oneshot=oneshot)


def model_requests(case):
  return FAMILIES[case['fam']].model_requests(case['spec'], case['ops'])


def model_obs(case, resps):
  return dict(reads=FAMILIES[case['fam']].model_reads(case['spec'], case['ops'], resps))


def compare(a, b):
  # the family is not known here: observations are compared with the loosest of the families' tolerances
  ra, rb = a['reads'], b['reads']
  if len(ra) != len(rb):
    return f'{len(ra)} reads observed, the model predicts {len(rb)}'
  for k, (x, y) in enumerate(zip(ra, rb)):
    x = {kk: v for kk, v in x.items() if kk not in ('stage', 'op')} if isinstance(x, dict) else x
    y = {kk: v for kk, v in y.items() if kk not in ('stage', 'op')} if isinstance(y, dict) else y
    if isinstance(x, dict) and 'members' in x:
      continue
    if not deep_close(x, y, rel=1e-9, abs_=1e-9):
      return f'read #{k}: real code {str(x)[:200]} vs model {str(y)[:200]}'
  return None


def _describe(ops, k):
  """the mutations since the previous read of the same accumulator (for the message)"""
  pos = [i for i, op in enumerate(ops) if op[0] == 'read'][k]
  acc = ops[pos][1]
  since = []
  for op in reversed(ops[:pos]):
    if op[0] == 'read' and op[1] == acc:
      break
    if op[0] == 'add' and op[1] == acc:
      since.append('add')
    elif op[0] == 'merge' and op[1] == acc:
      since.append(f'merge({op[2]})')
    elif op[0] == 'merge_states' and op[1][0] == acc:
      since.append(f'merge_states({op[1]})')
  return f'read #{k} of accumulator {acc} (after {", ".join(reversed(since)) or "no mutation"} since its previous read)'


def oracle(case, obs):
  fam, sp, ops = FAMILIES[case['fam']], case['spec'], case['ops']
  reads, twins, oneshot = obs['reads'], obs['twins'], obs['oneshot']
  nreads = sum(1 for op in ops if op[0] == 'read')
  for r in reads:
    if isinstance(r, dict) and 'err' in r:
      return f"a well-formed history raised {r['err']} ({r.get('op', r.get('stage', ''))})"
  if len(reads) != nreads:
    return f'{len(reads)} observations for {nreads} reads'
  for k, r in enumerate(reads):
    if isinstance(r, dict) and r.get('impure'):
      return f'read-transparency: result() is not repeatable / hands out internal storage at {_describe(ops, k)}'
    t = twins[k]
    if t is None or (isinstance(t, dict) and 'err' in t):
      return f'read-transparency: the history without the earlier reads raised at {_describe(ops, k)}: {t}'
    if not fam.close(sp, r, t):
      return (f'read-transparency: {_describe(ops, k)} returns {_short(r)}; the same history WITHOUT the earlier reads '
              f'returns {_short(t)} - an earlier read changed what a later read returns')
  for k, r in enumerate(reads):
    o = oneshot[k]
    if o is None:
      continue
    if isinstance(o, dict) and 'err' in o:
      return f'read-value: the one-shot run of the data so far raised {o} at {_describe(ops, k)}'
    if not fam.close(sp, r, o, one_shot=True):
      return (f'read-value: {_describe(ops, k)} returns {_short(r)}; one accumulator fed all the data that reached it so '
              f'far in one batch returns {_short(o)}')
  return None


def _short(o):
  s = str(o)
  return s if len(s) < 260 else s[:260] + '…'


def nontrivial(case, obs):
  ops = case['ops']
  seen_read = set()
  for op in ops:
    if op[0] == 'read':
      seen_read.add(op[1])
    elif op[0] in ('add', 'merge') and op[1] in seen_read:
      return True
    elif op[0] == 'merge_states' and op[1][0] in seen_read:
      return True
  return False


def finding(case, what):
  return FAMILIES[case['fam']].finding(case['spec'], case['ops'], what)


def valid(case):
  fam, sp = FAMILIES[case['fam']], case['spec']
  fed = {}
  for op in case['ops']:
    k = op[0]
    if k == 'new':
      fed[op[1]] = False
    elif k == 'add':
      fed[op[1]] = True
    elif k == 'merge':
      fed[op[1]] = fed[op[1]] or fed[op[2]]
    elif k == 'merge_states':
      fed[op[1][0]] = any(fed[i] for i in op[1])
    elif not fam.readable(sp, fed[op[1]]):
      return False
  return True


def shrink(case, fails):
  """drop operations (never a `new`) while the same kind of failure persists and the history stays well-formed"""
  w0 = fails(case)
  tag = w0.split(':')[0] if isinstance(w0, str) else None
  cur, changed = case, True
  while changed:
    changed = False
    for i in range(len(cur['ops']) - 1, -1, -1):
      if cur['ops'][i][0] == 'new':
        continue
      c = copy.deepcopy(cur)
      del c['ops'][i]
      if not valid(c):
        continue
      w = fails(c)
      if isinstance(w, str) and (tag is None or w.split(':')[0] == tag):
        cur, changed = c, True
        break
  return cur


def neighbours(case, rng):
  for _ in range(400):
    yield gen_case(rng, case.get('fam') if rng.random() < 0.7 else None)


TRUSTED = [
    'histories: the classification model predicts a read as `result` of the merge tree of one-batch states the history '
    'built (driver op "run"); the other families execute the history on their program drivers; reads are pure in every '
    'model by construction - the tie to the real reads is this differential check',
]


def _sub(pid, n_quick, n_thorough):
  class Sub:
    LEAN_MODULES = LEAN[pid]
    RULE = ('histories with reads: <=4 accumulators of one metric, 4-11 random operations add / merge / merge_states / '
            'read on the SAME state objects plus a final read of every accumulator, and three fixed report-then-merge '
            'shapes per family, through the object and the AggregateFn API, for classification (cm, top-k, samplewise, '
            'wrapper; explicit vocabulary where one can be given), retrieval (TopKRetrieval, ThresholdedRetrieval, '
            'MeanState, TupleMeanState), rolling (14 metrics, no reservoir) and text; oracle: read-transparency (every '
            'read = the same history without the earlier reads) and read-value (every read = one accumulator fed all the '
            'data so far in one batch); arms and kinds enforced (hist "histories arm", "histories kind"); non-trivial = a '
            'state is mutated in place after it was read')
    TRUSTED = TRUSTED
    ASSUMPTIONS = ['histories: the C01 domain (explicit vocabulary for multiclass input, no reservoir sampler, '
                   'ValueAccumulator without concat_fn only for read-transparency); classification states are read only '
                   'after at least one batch reached them (get_result of a never-updated state is an AttributeError)']

    @staticmethod
    def gen_cases(ctx):
      yield from gen_cases_for(ctx, pid, n_quick, n_thorough)

    @staticmethod
    def extra(ctx):
      from harness.core import InfraError
      got = ctx.hist.get(f'{pid} histories arm', {})
      missing = [a for a in ARMS if not got.get(a)]
      kinds = ctx.hist.get(f'{pid} histories kind', {})
      missing += [k for k in KINDS if not kinds.get(k)]
      kinds = ctx.hist.get(f'{pid} histories kind with: {ARMS[5]}', {})
      missing += [f'{k}: {ARMS[5]}' for k in KINDS if not kinds.get(k)]
      for fam in FAMILIES:
        g = ctx.hist.get(f'{pid} histories arm/{fam}', {})
        missing += [f'{fam}: {a}' for a in ARMS[:3] + [ARMS[5]] if not g.get(a)]
      if missing:
        raise InfraError(f'{pid} histories: generator missed promised arms {missing}')

  Sub.run_impl = staticmethod(run_impl)
  Sub.model_requests = staticmethod(model_requests)
  Sub.model_obs = staticmethod(model_obs)
  Sub.compare = staticmethod(compare)
  Sub.oracle = staticmethod(oracle)
  Sub.nontrivial = staticmethod(nontrivial)
  Sub.finding = staticmethod(finding)
  Sub.neighbours = staticmethod(neighbours)
  Sub.shrink = staticmethod(shrink)
  return Sub


CHECKS = {'C01': _sub('C01', 500, 12000), 'C07': _sub('C07', 400, 10000), 'C11': _sub('C11', 600, 15000)}
