"""`merge_states` over MANY states: sub-checks of C11 / C01 over all four metric families (work package SC11).

The contract (aggregates/base.py:127-136, "Only the first state may be modified and returned") and C11 ("merge only
ever modifies its receiver, so the merged-in state still reports its own result and later updates to either side do not
leak into the other") quantify over ANY number of states.  The other sub-checks call `merge_states` with two to four
states and mostly read the returned one.  The case class here is ONE call

    agg_fn.merge_states(<container of n states>)        n = 0 .. 9

through the AggregateFn API of every family - base.MergeableMetricAggFn (14 rolling metrics, TopKRetrieval,
ThresholdedRetrieval / MeanState / TupleMeanState via base.as_agg_fn, TopKWordNGrams, PatternFrequency,
SamplewiseClassification), ConfusionMatrixAggFn (its own loop), TopKConfusionMatrixAggFn, the ClassificationAggFn wrapper -
with

  * never-updated states (create_state() only) at the first / a middle / the last position of the list,
  * the states handed over as list / tuple / generator / iterator / deque (harness/lib_states.py),
  * the list in any order, optionally one state left out (a bystander),
  * EVERY state object read after the call (and, arm by arm, before it), not only the returned one,
  * then later updates on either side: a non-first state is updated and the first one read again, and vice versa.

A case is a history in the alphabet of harness/agg/histories.py (new / add / merge_states / read) executed by that
module's family adapters, so the model side is the same as there: the Lean program drivers execute the history with the
call as the left fold into the first state (`Hist.step (.mergeStates ..)`, `Model/Agg/HeapMS.lean: Sys.mergeStates`).

Oracle (from the English contract only, evaluated on the real code's reads):

  frame      : an operation may change what its RECEIVER reports and nothing else - every read of a state equals its
               previous read unless that state was the receiver (update_state on it, or FIRST in a merge_states list)
               in between;                                                                                 [C11]
  own-result : every state still reports its own result - a read equals the one-shot value of exactly the data that
               reached that state (the first state of the call: all the data of the list, in list order).  [C11, C01]

n = 0: the call has nothing to merge; the shipped code raises StopIteration (`next()` of an exhausted iterator) resp.
returns None (confusion-matrix loop); compared with `mergeStatesRaises []` / the cm-state class through the heap driver.
"""
from __future__ import annotations

import copy
import warnings

from harness.agg import classification as CL
from harness.agg import histories as H
from harness.agg import retrieval as RT
from harness.agg import rolling as RO
from harness.agg import text as TX
from harness.core import err_kind
from harness.lib_states import KINDS as CONTAINERS, pack

LEAN = {
    'C01': ['MlModel.Properties.C01.History'],
    'C11': ['MlModel.Properties.C11.MergeStates', 'MlModel.Properties.C11.ClassificationMergeStates',
            'MlModel.Properties.C11.TextMergeStates', 'MlModel.Properties.C11.RetrievalMergeStates',
            'MlModel.Witness.C11MergeStates', 'MlModel.Properties.C11.History'],
}

FAMILIES = H.FAMILIES


# ----------------------------------------------------------------------------- specs: the AggregateFn API of every kind

KIND_GENS = {
    'classification/cm': ('classification', lambda sp: sp['kind'] == 'cm'),
    'classification/topk': ('classification', lambda sp: sp['kind'] == 'topk'),
    'classification/samplewise': ('classification', lambda sp: sp['kind'] == 'samplewise'),
    'classification/wrapper': ('classification', lambda sp: sp['kind'] == 'wrapper'),
    'retrieval/topk': ('retrieval', lambda sp: sp['kind'] == 'topk'),
    'retrieval/thr': ('retrieval', lambda sp: sp['kind'] == 'thr'),
    'retrieval/mean': ('retrieval', lambda sp: sp['kind'] == 'mean'),
    'retrieval/tuplemean': ('retrieval', lambda sp: sp['kind'] == 'tuplemean'),
    'text/ngrams': ('text', lambda sp: sp['metric'] == 'ngrams'),
    'text/patterns': ('text', lambda sp: sp['metric'] == 'patterns'),
}
for _m in H.Rolling.METRICS:
  KIND_GENS[f'rolling/{_m}'] = ('rolling', (lambda m: lambda sp: sp['metric'] == m)(_m))
KINDS = list(KIND_GENS)


def gen_spec(rng, kind):
  fam_name, pred = KIND_GENS[kind]
  fam = FAMILIES[fam_name]
  for _ in range(2000):
    sp = fam.gen_spec(rng)
    if pred(sp):
      break
  else:
    raise AssertionError(f'no spec of kind {kind}')
  sp = dict(sp)
  # always the AggregateFn API; kinds whose class has no as_agg_fn() go through base.as_agg_fn (ms_call)
  if fam_name == 'retrieval' and sp['kind'] != 'topk':
    sp['ms_call'] = True
  else:
    sp['api'] = 'aggfn'
  return fam_name, sp


def kind_of(case):
  f, sp = case['fam'], case['spec']
  if f == 'classification':
    return f'classification/{sp["kind"]}'
  if f == 'retrieval':
    return f'retrieval/{sp["kind"]}'
  if f == 'text':
    return f'text/{sp["metric"]}'
  return f'rolling/{sp["metric"]}'


def agg_fn_of(fam_name, sp):
  """the AggregateFn whose merge_states the case calls (used for n = 0 only; n >= 1 runs through the family adapters)"""
  if fam_name == 'rolling':
    return RO.SPECS[sp['metric']].agg_fn(sp['cfg'])
  if fam_name == 'classification':
    return CL.make_aggfn(sp['kind'], sp['cfg'])
  if fam_name == 'text':
    agg_text, _ = TX._mods()
    cls = agg_text.TopKWordNGrams if sp['metric'] == 'ngrams' else agg_text.PatternFrequency
    return cls(**TX.cfg_kwargs(sp['metric'], sp['cfg'])).as_agg_fn()
  from ml_metrics._src.aggregates import base as B
  from ml_metrics._src.aggregates import retrieval as R
  from ml_metrics._src.aggregates import utils as U
  if sp['kind'] == 'topk':
    cfg = sp['cfg']
    it = 'multiclass' if cfg['multiclass'] else 'multiclass-multioutput'
    return R.TopKRetrieval(metrics=list(cfg['metrics']), k_list=cfg['k_list'], input_type=it).as_agg_fn()
  if sp['kind'] == 'thr':
    ts = [RT._fl(t) for t in sp['thresholds']]
    return B.as_agg_fn(R.ThresholdedRetrieval, thresholds=tuple(ts), metrics=tuple(RT._thr_metric_names(sp['metrics'])))
  return B.as_agg_fn(U.TupleMeanState if sp['kind'] == 'tuplemean' else U.MeanState)


# ----------------------------------------------------------------------------- the shape of a case

def gen_batch(rng, fam, sp):
  for _ in range(50):
    b = fam.gen_batch(rng, sp)
    if fam.name != 'classification' or CL.py_rows(b['yt']):
      return b
  return b


def build_ops(rng, fam, sp, n, unfed, order, pre, post):
  """new x n; 0-2 batches per state (none for the states in `unfed`); reads of the states in `pre`; ONE merge_states over
  `order`; reads of every state; then the post phase."""
  ops = [['new', i] for i in range(n)]
  fed = [False] * n
  for i in range(n):
    if i in unfed:
      continue
    for _ in range(2 if rng.random() < 0.25 else 1):
      ops.append(['add', i, gen_batch(rng, fam, sp)])
    fed[i] = True

  def read(i):
    if fam.readable(sp, fed[i]):
      ops.append(['read', i])
  for i in pre:
    read(i)
  ops.append(['merge_states', list(order)])
  first = order[0]
  fed[first] = any(fed[i] for i in order)
  for i in range(n):
    read(i)
  others = [i for i in range(n) if i != first]
  if post and others:
    k = rng.choice(others)
    ops.append(['add', k, gen_batch(rng, fam, sp)])        # a later update of a merged-in state ...
    fed[k] = True
    read(first)                                            # ... does not leak into the merged one
    read(k)
    ops.append(['add', first, gen_batch(rng, fam, sp)])    # and vice versa
    fed[first] = True
    for i in range(n):
      read(i)
  return ops


def shape_arms(n, unfed, order, pre, post, container):
  arms = {f'n={n}', f'container {container}', f'list of {len(order)}'}
  pos = {order.index(i) for i in unfed if i in order}
  if 0 in pos:
    arms.add('never-updated state FIRST in the list')
  if len(order) - 1 in pos and len(order) > 1:
    arms.add('never-updated state LAST in the list')
  if any(0 < p < len(order) - 1 for p in pos):
    arms.add('never-updated state in the MIDDLE of the list')
  if len(order) < n:
    arms.add('a bystander state outside the list')
  if order != sorted(order):
    arms.add('list not in creation order')
  arms.add('states read before the call' if pre else 'no state read before the call')
  if post:
    arms.add('later updates on either side, then read both')
  return arms


ARMS = ([f'n={n}' for n in range(0, 10)] + [f'container {c}' for c in CONTAINERS] +
        ['never-updated state FIRST in the list', 'never-updated state LAST in the list',
         'never-updated state in the MIDDLE of the list', 'a bystander state outside the list',
         'list not in creation order', 'states read before the call', 'no state read before the call',
         'later updates on either side, then read both'])


def gen_shape(rng, n, force=None):
  """(unfed, order, pre, post, container) for n >= 1 states"""
  unfed = set()
  r = rng.random()
  if force in ('first', 'middle', 'last') or r < 0.45:
    where = force if force in ('first', 'middle', 'last') else rng.choice(['first', 'middle', 'last', 'two'])
  else:
    where = None
  order = list(range(n))
  if rng.random() < 0.5:
    rng.shuffle(order)
  if n >= 3 and (force == 'bystander' or rng.random() < 0.2):
    order.remove(rng.choice(order))
  if where == 'first':
    unfed.add(order[0])
  elif where == 'last':
    unfed.add(order[-1])
  elif where == 'middle' and len(order) >= 3:
    unfed.add(order[rng.randrange(1, len(order) - 1)])
  elif where == 'two' and len(order) >= 2:
    unfed.update(rng.sample(order, 2))
  pre = [] if rng.random() < 0.4 else (list(range(n)) if rng.random() < 0.7 else rng.sample(range(n), rng.randint(1, n)))
  post = rng.random() < 0.5
  container = rng.choice(CONTAINERS)
  return unfed, order, pre, post, container


def make_case(rng, kind, n, force=None, container=None):
  fam_name, sp = gen_spec(rng, kind)
  fam = FAMILIES[fam_name]
  if n == 0:
    sp['container'] = container or rng.choice(CONTAINERS)
    return dict(t='ms0', fam=fam_name, spec=sp, ops=[])
  unfed, order, pre, post, cont = gen_shape(rng, n, force)
  sp['container'] = container or cont
  ops = build_ops(rng, fam, sp, n, unfed, order, pre, post)
  return dict(t='ms', fam=fam_name, spec=sp, ops=ops, shape=dict(n=n, unfed=sorted(unfed), order=order, pre=sorted(pre), post=post))


def _counted(ctx, pid, case):
  ctx.count(f'{pid} mergestates kind', kind_of(case))
  if case['t'] == 'ms0':
    arms = {'n=0', f'container {case["spec"]["container"]}'}
  else:
    s = case['shape']
    arms = shape_arms(s['n'], set(s['unfed']), s['order'], s['pre'], s['post'], case['spec']['container'])
    if s['n'] >= 4:
      ctx.count(f'{pid} mergestates kind with >= 4 states', kind_of(case))
  for a in arms:
    ctx.count(f'{pid} mergestates arm', a)
  return case


def gen_cases_for(ctx, pid, n_random):
  rng = ctx.rng
  for c in ctx.corpus(f'{pid}_mergestates'):
    yield c
  # every kind x every number of states 0..9 (quick: the rolling metrics share the numbers 0..9 between them, each
  # metric still gets 4, 5, 8 or 9 states at least twice)
  rolling = [k for k in KINDS if k.startswith('rolling/')]
  others = [k for k in KINDS if not k.startswith('rolling/')]
  forces = ['first', 'middle', 'last', 'bystander', None]
  t = 0
  for kind in others:
    for n in range(0, 10):
      yield _counted(ctx, pid, make_case(rng, kind, n, force=forces[t % 5], container=CONTAINERS[t % len(CONTAINERS)]))
      t += 1
  for j, kind in enumerate(rolling):
    ns = range(0, 10) if not ctx.quick else sorted({(j + 3 * q) % 10 for q in range(3)} | {4 + (j % 2), 8 + (j % 2)})
    for n in ns:
      yield _counted(ctx, pid, make_case(rng, kind, n, force=forces[t % 5], container=CONTAINERS[t % len(CONTAINERS)]))
      t += 1
  for _ in range(n_random):
    kind = rng.choice(KINDS)
    n = rng.choice([1, 2, 3, 4, 4, 5, 5, 6, 7, 8, 8, 9, 9])
    yield _counted(ctx, pid, make_case(rng, kind, n))


# ----------------------------------------------------------------------------- real code

def run_impl(case):
  fam, sp, ops = FAMILIES[case['fam']], case['spec'], case['ops']
  if case['t'] == 'ms0':
    with warnings.catch_warnings():
      warnings.simplefilter('ignore')
      try:
        fn = agg_fn_of(case['fam'], sp)
      except Exception as e:  # pylint: disable=broad-except
        return dict(empty={'err': err_kind(e), 'stage': 'construct'})
      try:
        r = fn.merge_states(pack([], sp.get('container')))
        return dict(empty={'returned': 'None' if r is None else type(r).__name__})
      except Exception as e:  # pylint: disable=broad-except
        return dict(empty={'err': err_kind(e)})
  reads = fam.run(sp, ops)
  prov = H.provenance(ops)
  bs = H.batches_of(ops)
  oneshot = []
  for data, fed, _ in prov:
    if not fam.one_shot_defined(sp):
      oneshot.append(None)
    elif fed:
      o = fam.run(sp, [['new', 0], ['add', 0, fam.concat(sp, [bs[i] for i in data])], ['read', 0]])
      oneshot.append(o[-1] if o else None)
    else:
      o = fam.run(sp, [['new', 0], ['read', 0]])
      oneshot.append(o[-1] if o else None)
  return dict(reads=reads, oneshot=oneshot)


# ----------------------------------------------------------------------------- model side

def _cm_kind(case):
  """does the kind run the confusion-matrix loop (classification.py:642) rather than the one of base.py:195?  The wrapper
  (metrics/classification.py:175-214) delegates to SamplewiseConfusionMatrixAggFn - a MergeableMetricAggFn - for
  average='samples' and to (TopK)ConfusionMatrixAggFn otherwise."""
  if case['fam'] != 'classification':
    return False
  sp = case['spec']
  return sp['kind'] in ('cm', 'topk') or (sp['kind'] == 'wrapper' and sp['cfg']['average'] != 'samples')


def model_requests(case):
  if case['t'] == 'ms0':
    # the loop of base.py:195 is class-independent: any class of the heap driver; the confusion-matrix loop: cmstate
    if _cm_kind(case):
      return [dict(model='aggobs', cls='cmstate', prog=[{'op': 'merge_states', 'accs': []}])]
    return [dict(model='aggobs', cls='hist', edges=[0, 1], prog=[{'op': 'merge_states', 'accs': []}])]
  return FAMILIES[case['fam']].model_requests(case['spec'], case['ops'])


def model_obs(case, resps):
  if case['t'] == 'ms0':
    e = resps[0]['obs'][0]['err']
    return dict(empty={'returned': 'None'} if e is None else {'err': e})
  return dict(reads=FAMILIES[case['fam']].model_reads(case['spec'], case['ops'], resps))


def compare(a, b):
  if 'empty' in a or 'empty' in b:
    return None if a.get('empty') == b.get('empty') else f"merge_states([]): real code {a.get('empty')} vs model {b.get('empty')}"
  return H.compare(a, b)


# ----------------------------------------------------------------------------- the property on the real code

def _where(ops, pos):
  op = ops[pos]
  if op[0] == 'merge_states':
    return f'merge_states over {len(op[1])} states {op[1]}'
  if op[0] == 'add':
    return f'update_state of state {op[1]}'
  return str(op[:2])


def frame_oracle(fam, sp, ops, reads):
  """every read of a state equals its previous read unless the state was a RECEIVER in between"""
  last, since, k = {}, {}, 0           # acc -> last read value; acc -> ops (positions) since then that did not have it as receiver
  for pos, op in enumerate(ops):
    kind = op[0]
    if kind == 'new':
      last.pop(op[1], None)
    elif kind == 'add':
      last.pop(op[1], None)
    elif kind == 'merge':
      last.pop(op[1], None)
    elif kind == 'merge_states':
      last.pop(op[1][0], None)
    if kind != 'read':
      for a in last:
        since.setdefault(a, []).append(pos)
      continue
    r = reads[k]
    k += 1
    a = op[1]
    if a in last and since.get(a):
      if not fam.close(sp, r, last[a]):
        culprit = since[a]
        ms = [p for p in culprit if ops[p][0] == 'merge_states']
        p = ms[0] if ms else culprit[0]
        role = ''
        if ops[p][0] == 'merge_states':
          role = (f' (position {ops[p][1].index(a)} of the list)' if a in ops[p][1] else ' (not in the list)')
        return (f'frame: state {a}{role} reported {H._short(last[a])} before and {H._short(r)} after {_where(ops, p)} - only '
                f'the first state may be modified, every other state still reports its own result')
    last[a] = r
    since[a] = []
  return None


def value_oracle(fam, sp, ops, reads, oneshot):
  for k, r in enumerate(reads):
    o = oneshot[k]
    if o is None:
      continue
    if isinstance(o, dict) and 'err' in o:
      return f'own-result: the one-shot run of the data of {H._describe(ops, k)} raised {o}'
    if not fam.close(sp, r, o, one_shot=True):
      return (f'own-result: {H._describe(ops, k)} returns {H._short(r)}; one accumulator fed exactly the data that reached '
              f'that state, in one batch, returns {H._short(o)}')
  return None


def _oracle(pid):
  def oracle(case, obs):
    if case['t'] == 'ms0':
      e = obs['empty']
      if 'stage' in e:
        return f'a well-formed configuration raised {e}'
      return None         # nothing to merge, nothing to damage: the outcome is only compared with the model
    fam, sp, ops = FAMILIES[case['fam']], case['spec'], case['ops']
    reads, oneshot = obs['reads'], obs['oneshot']
    nreads = sum(1 for op in ops if op[0] == 'read')
    for r in reads:
      if isinstance(r, dict) and 'err' in r:
        return f"a well-formed merge_states history raised {r['err']} ({r.get('op', r.get('stage', ''))})"
    if len(reads) != nreads:
      return f'{len(reads)} observations for {nreads} reads'
    for r in reads:
      if isinstance(r, dict) and r.get('impure'):
        return 'frame: result() is not repeatable / hands out internal storage'
    if pid == 'C11':
      w = frame_oracle(fam, sp, ops, reads)
      if w:
        return w
    return value_oracle(fam, sp, ops, reads, oneshot)
  return oracle


def nontrivial(case, obs):
  if case['t'] == 'ms0':
    return False
  for pos, op in enumerate(case['ops']):
    if op[0] == 'merge_states':
      return len(op[1]) >= 2 and any(o[0] == 'read' and o[1] != op[1][0] for o in case['ops'][pos + 1:])
  return False


def finding(case, what):
  if case['t'] == 'ms0':
    return None
  return FAMILIES[case['fam']].finding(case['spec'], case['ops'], what)


def shrink(case, fails):
  """fewer states in the list, fewer operations (never a `new`), the plain list as container - while the same kind of
  failure persists and the history stays well-formed"""
  if case['t'] == 'ms0':
    return case
  w0 = fails(case)
  tag = w0.split(':')[0] if isinstance(w0, str) else None

  def same(c):
    if not H.valid(c):
      return False
    w = fails(c)
    return isinstance(w, str) and (tag is None or w.split(':')[0] == tag)
  cur, changed = case, True
  while changed:
    changed = False
    if cur['spec'].get('container') not in (None, 'list'):
      c = copy.deepcopy(cur)
      c['spec']['container'] = 'list'
      if same(c):
        cur, changed = c, True
        continue
    for i in range(len(cur['ops']) - 1, -1, -1):
      op = cur['ops'][i]
      if op[0] == 'new':
        continue
      cands = []
      if op[0] == 'merge_states' and len(op[1]) > 1:
        for j in range(len(op[1]) - 1, 0, -1):
          c = copy.deepcopy(cur)
          del c['ops'][i][1][j]
          cands.append(c)
      else:
        c = copy.deepcopy(cur)
        del c['ops'][i]
        cands.append(c)
      for c in cands:
        if same(c):
          cur, changed = c, True
          break
      if changed:
        break
  cur = dict(cur)
  cur.pop('shape', None)
  return cur


def neighbours(case, rng):
  kind = kind_of(case)
  for _ in range(300):
    k = kind if rng.random() < 0.7 else rng.choice(KINDS)
    yield make_case(rng, k, rng.choice([4, 5, 6, 8, 9]))


TRUSTED = [
    'mergestates: the histories are executed by the family adapters of harness/agg/histories.py (model side: the Lean '
    'program drivers with merge_states as the left fold into the first state); reads are pure in every model by '
    'construction - the tie of the real reads is this differential check; merge_states([]) is compared with the heap '
    'driver (Model/Agg/HeapMS.lean: mergeStatesRaises; cm-state class: returns None)',
]


def _sub(pid, n_quick, n_thorough):
  class Sub:
    LEAN_MODULES = LEAN[pid]
    RULE = ('mergestates: ONE merge_states(<container of n states>) call, n = 0..9, through the AggregateFn API of every kind '
            '(ConfusionMatrixAggFn, TopKConfusionMatrixAggFn, samplewise, ClassificationAggFn wrapper, TopKRetrieval, '
            'ThresholdedRetrieval / MeanState / TupleMeanState via base.as_agg_fn, 14 rolling metrics, TopKWordNGrams, '
            'PatternFrequency): every kind x every n first, then random; states fed 0-2 batches, never-updated states first / '
            'middle / last in the list, list in any order, optional bystander, container list / tuple / generator / iterator / '
            'deque, EVERY state read after the call (arm by arm also before), then later updates on either side and more '
            'reads; oracle: frame (only a receiver changes what it reports) and own-result (every read = one-shot value of '
            'the data that reached that state); arms and kinds enforced (hist "mergestates arm", "mergestates kind with >= 4 '
            'states"); non-trivial = >= 2 states and a non-first state read after the call')
    TRUSTED = TRUSTED
    ASSUMPTIONS = ['mergestates: the C01 domain of the histories sub-check (explicit vocabulary for multiclass input, no '
                   'reservoir sampler, never-updated confusion-matrix states and ValueAccumulators are not read); no state '
                   'object occurs twice in one list']

    @staticmethod
    def gen_cases(ctx):
      yield from gen_cases_for(ctx, pid, n_quick if ctx.quick else n_thorough)

    @staticmethod
    def extra(ctx):
      from harness.core import InfraError
      got = ctx.hist.get(f'{pid} mergestates arm', {})
      missing = [a for a in ARMS if not got.get(a)]
      kinds = ctx.hist.get(f'{pid} mergestates kind with >= 4 states', {})
      missing += [f'{k} with >= 4 states' for k in KINDS if kinds.get(k, 0) < 2]
      if missing:
        raise InfraError(f'{pid} mergestates: generator missed promised arms {missing}')

  Sub.run_impl = staticmethod(run_impl)
  Sub.model_requests = staticmethod(model_requests)
  Sub.model_obs = staticmethod(model_obs)
  Sub.compare = staticmethod(compare)
  Sub.oracle = staticmethod(_oracle(pid))
  Sub.nontrivial = staticmethod(nontrivial)
  Sub.finding = staticmethod(finding)
  Sub.neighbours = staticmethod(neighbours)
  Sub.shrink = staticmethod(shrink)
  return Sub


CHECKS = {'C01': _sub('C01', 120, 6000), 'C11': _sub('C11', 160, 8000)}
