"""The "rolling" metric family: sub-checks of C01, C11 and C07.

Real code: ml_metrics/_src/aggregates/rolling_stats.py, aggregates/utils.py, aggregates/base.py
(CallableMetric.add, MergeableMetricAggFn), utils/math_utils.py, metrics/rolling_stats.py.
Model: lean/MlModel/Model/Agg/Rolling*.lean through lean/Driver/AggRolling.lean ("aggrolling").
Theorems: lean/MlModel/Properties/{C01,C11,C07}/Rolling.lean.

A case is a JSON object {metric, cfg, ...}; numbers are ints, {"n":p,"d":q} (dyadic rationals,
exact in float64) or "nan".  Both sides execute the same *program* (make/add/merge/result/call
over numbered accumulators); the oracles are written from the English statements and use exact
`fractions.Fraction` arithmetic on the raw examples - never the model, never the code.
"""
from __future__ import annotations

import collections
import math
import operator
import warnings
from fractions import Fraction as Fr

import numpy as np

from harness.core import canon, deep_close, err_kind, rat_to_float

warnings.filterwarnings('ignore')
np.seterr(all='ignore')

NAN = 'nan'


# ----------------------------------------------------------------------------- numbers

def enc(x):
  """Fraction | int | None(NaN) -> case JSON."""
  if x is None:
    return NAN
  x = Fr(x)
  return int(x) if x.denominator == 1 else {'n': x.numerator, 'd': x.denominator}


def frac(j):
  """case JSON -> Fraction | None (NaN)."""
  if j == NAN or j is None:
    return None
  if isinstance(j, dict):
    return Fr(j['n'], j['d'])
  return Fr(j)


def flt(j):
  f = frac(j)
  return float('nan') if f is None else float(f)


def fnum(x):
  """Fraction | None -> canonical observation number (float / 'nan')."""
  return NAN if x is None else float(x)


def cnum(x):
  """numpy / python number -> canonical observation number."""
  x = float(x)
  if math.isnan(x):
    return NAN
  if math.isinf(x):
    return 'inf' if x > 0 else '-inf'
  return x


def mnum(j):
  """driver number -> canonical observation number."""
  if j == NAN:
    return NAN
  if isinstance(j, str):
    return j
  return rat_to_float(j)


def rand_val(rng, lo=-12, hi=12):
  return Fr(rng.randint(lo * 4, hi * 4), rng.choice([1, 1, 1, 2, 4, 4]))


# ----------------------------------------------------------------------------- metric specs

class Spec:
  """One metric class: how to build it, feed it, observe it, and its textbook definition."""
  name = ''
  model = ''            # driver metric name
  order = 'multiset'    # 'multiset' | 'ordered' | 'reservoir'
  callable = True       # supports metric(batch) one-shot (CallableMetric.__call__)
  has_aggfn = True

  # -- real code
  def make(self, cfg):
    raise NotImplementedError

  def agg_fn(self, cfg):
    return self.make(cfg).as_agg_fn()

  def args(self, cfg, batch):
    raise NotImplementedError

  def obs(self, cfg, result):
    raise NotImplementedError

  # -- batches
  def concat(self, cfg, batches):
    raise NotImplementedError

  def size(self, batch):
    raise NotImplementedError

  def split(self, cfg, batch, cuts):
    """split one batch at the given row positions."""
    raise NotImplementedError

  def gen_cfg(self, rng):
    return {}

  def gen_batch(self, rng, cfg, n):
    raise NotImplementedError

  # -- model
  def model_cfg(self, cfg):
    return cfg

  def model_res(self, cfg, j):
    raise NotImplementedError

  # -- spec
  def textbook(self, cfg, batch):
    raise NotImplementedError

  def in_domain(self, cfg, batch):
    return True


def _rows_split(rows, cuts):
  out, prev = [], 0
  for c in list(cuts) + [len(rows)]:
    out.append(rows[prev:c])
    prev = c
  return out


# ---- MeanAndVariance / Var / Mean

class MeanVarSpec(Spec):
  model = 'meanvar'

  def __init__(self, name):
    self.name = name
    self.model = 'mean' if name == 'mean' else 'meanvar'

  def make(self, cfg):
    from ml_metrics._src.aggregates import rolling_stats as rs
    return {'meanvar': rs.MeanAndVariance, 'var': rs.Var, 'mean': rs.Mean}[self.name]()

  def args(self, cfg, b):
    if b['dim'] == 1:
      return (np.array([flt(x) for x in b['xs']], dtype=float),)
    return (np.array([[flt(x) for x in r] for r in b['rows']], dtype=float).reshape(len(b['rows']), b['k']),)

  @staticmethod
  def _vec(x):
    a = np.asarray(x)
    return a.ndim >= 1, [cnum(v) for v in np.atleast_1d(a).astype(float).tolist()]

  def obs(self, cfg, r):
    from ml_metrics._src.aggregates import rolling_stats as rs
    if self.name == 'var':
      vec, v = self._vec(r)
      return dict(vec=vec, var=v)
    if self.name == 'mean':
      vec, v = self._vec(r)
      return dict(vec=vec, mean=v)
    vec, mean = self._vec(r.mean)
    return dict(vec=vec, count=[int(c) for c in np.atleast_1d(np.asarray(r.count)).tolist()], mean=mean,
                var=self._vec(r.var)[1], total=self._vec(r.total)[1], stddev=self._vec(r.stddev)[1])

  def concat(self, cfg, bs):
    if cfg['dim'] == 1:
      return dict(dim=1, xs=[x for b in bs for x in b['xs']])
    return dict(dim=2, k=cfg['k'], rows=[r for b in bs for r in b['rows']])

  def size(self, b):
    return len(b['xs']) if b['dim'] == 1 else len(b['rows'])

  def split(self, cfg, b, cuts):
    if b['dim'] == 1:
      return [dict(dim=1, xs=p) for p in _rows_split(b['xs'], cuts)]
    return [dict(dim=2, k=b['k'], rows=p) for p in _rows_split(b['rows'], cuts)]

  def gen_cfg(self, rng):
    dim = rng.choice([1, 2, 2])
    return dict(dim=dim, k=rng.randint(1, 3)) if dim == 2 else dict(dim=1)

  def gen_batch(self, rng, cfg, n):
    p = rng.choice([0, 0, 0.2, 0.8, 1.0] if rng.random() < 0.3 else [0, 0.2])
    if cfg['dim'] == 1:
      return dict(dim=1, xs=[enc(None if rng.random() < p else rand_val(rng)) for _ in range(n)])
    k = cfg['k']
    nan_cols = {j for j in range(k) if rng.random() < 0.25}
    return dict(dim=2, k=k, rows=[[enc(None if (j in nan_cols or rng.random() < p) else rand_val(rng))
                                   for j in range(k)] for _ in range(n)])

  def model_res(self, cfg, j):
    if self.name == 'var':
      return dict(vec=j['vec'], var=[mnum(x) for x in j['var']])
    if self.name == 'mean':
      return dict(vec=j['vec'], mean=[mnum(x) for x in j['mean']])
    var = [mnum(x) for x in j['var']]
    return dict(vec=j['vec'], count=j['count'], mean=[mnum(x) for x in j['mean']], var=var,
                total=[mnum(x) for x in j['total']],
                stddev=[NAN if v == NAN else math.sqrt(v) if v >= 0 else NAN for v in var])

  @staticmethod
  def _col_stats(col):
    v = [x for x in col if x is not None]
    n = len(v)
    if n == 0:
      return 0, None, None, Fr(0)
    mean = sum(v, Fr(0)) / n
    var = sum(((x - mean) ** 2 for x in v), Fr(0)) / n
    return n, mean, var, sum(v, Fr(0))

  def textbook(self, cfg, b):
    """count / mean / population variance / total over the non-NaN entries, per column."""
    if b['dim'] == 1:
      cols, vec = [[frac(x) for x in b['xs']]], False
    else:
      cols, vec = [[frac(r[j]) for r in b['rows']] for j in range(b['k'])], True
    st = [self._col_stats(c) for c in cols]
    full = dict(vec=vec, count=[s[0] for s in st], mean=[fnum(s[1]) for s in st], var=[fnum(s[2]) for s in st],
                total=[fnum(s[3]) for s in st],
                stddev=[NAN if s[2] is None else math.sqrt(s[2]) for s in st])
    if self.name == 'var':
      return dict(vec=vec, var=full['var'])
    if self.name == 'mean':
      return dict(vec=vec, mean=full['mean'])
    return full


# ---- MeanState / TupleMeanState

class MeanStateSpec(Spec):
  name = model = 'meanstate'

  def make(self, cfg):
    from ml_metrics._src.aggregates import utils
    return utils.MeanState()

  def agg_fn(self, cfg):
    from ml_metrics._src.aggregates import base, utils
    return base.as_agg_fn(utils.MeanState)

  def args(self, cfg, b):
    return ([flt(x) for x in b],)

  def obs(self, cfg, r):
    return cnum(r)

  def concat(self, cfg, bs):
    return [x for b in bs for x in b]

  def size(self, b):
    return len(b)

  def split(self, cfg, b, cuts):
    return _rows_split(b, cuts)

  def gen_batch(self, rng, cfg, n):
    return [enc(rand_val(rng)) for _ in range(n)]

  def model_res(self, cfg, j):
    return mnum(j)

  def textbook(self, cfg, b):
    v = [frac(x) for x in b]
    return float(sum(v, Fr(0)) / len(v)) if v else 0.0   # documented: zero denominator -> 0


class ColsSpec(Spec):
  """metrics whose add(*columns) takes k aligned columns; batch = list of k columns."""

  def concat(self, cfg, bs):
    return [[x for b in bs for x in b[j]] for j in range(cfg['k'])]

  def size(self, b):
    return len(b[0]) if b else 0

  def split(self, cfg, b, cuts):
    parts = [_rows_split(c, cuts) for c in b]
    return [[parts[j][i] for j in range(len(b))] for i in range(len(cuts) + 1)]

  def gen_cfg(self, rng):
    return dict(k=rng.randint(1, 3))


class TupleMeanStateSpec(ColsSpec):
  name = model = 'tuplemeanstate'

  def make(self, cfg):
    from ml_metrics._src.aggregates import utils
    return utils.TupleMeanState()

  def agg_fn(self, cfg):
    from ml_metrics._src.aggregates import base, utils
    return base.as_agg_fn(utils.TupleMeanState)

  def args(self, cfg, b):
    return tuple([flt(x) for x in c] for c in b)

  def obs(self, cfg, r):
    return [cnum(x) for x in r]

  def gen_batch(self, rng, cfg, n):
    return [[enc(rand_val(rng)) for _ in range(n)] for _ in range(cfg['k'])]

  def model_res(self, cfg, j):
    return [mnum(x) for x in j]

  def textbook(self, cfg, b):
    out = []
    for c in b:
      v = [frac(x) for x in c]
      out.append(float(sum(v, Fr(0)) / len(v)) if v else 0.0)
    return out


# ---- Counter

class CounterSpec(Spec):
  name = model = 'counter'

  def make(self, cfg):
    from ml_metrics._src.aggregates import rolling_stats as rs
    return rs.Counter()

  def args(self, cfg, b):
    return (list(b),)

  def obs(self, cfg, r):
    return sorted([int(k), int(v)] for k, v in r.items())

  def concat(self, cfg, bs):
    return [x for b in bs for x in b]

  def size(self, b):
    return len(b)

  def split(self, cfg, b, cuts):
    return _rows_split(b, cuts)

  def gen_batch(self, rng, cfg, n):
    return [rng.randint(-3, 4) for _ in range(n)]

  def model_res(self, cfg, j):
    return sorted([int(k), int(v)] for k, v in j)

  def textbook(self, cfg, b):
    d = {}
    for x in b:
      d[x] = d.get(x, 0) + 1
    return sorted([k, v] for k, v in d.items())


# ---- Histogram

class HistogramSpec(Spec):
  name = model = 'histogram'

  def _kw(self, cfg):
    kw = {}
    if isinstance(cfg['bins'], list):
      kw['bins'] = [flt(e) for e in cfg['bins']]
    else:
      kw['bins'] = cfg['bins']
    if cfg.get('range') is not None:
      kw['range'] = (flt(cfg['range'][0]), flt(cfg['range'][1]))
    return kw

  def make(self, cfg):
    from ml_metrics._src.aggregates import rolling_stats as rs
    return rs.Histogram(**self._kw(cfg))

  def args(self, cfg, b):
    xs = np.array([flt(x) for x in b['xs']], dtype=float)
    if b.get('w') is None:
      return (xs,)
    return (xs, np.array([flt(x) for x in b['w']], dtype=float))

  def obs(self, cfg, r):
    return dict(hist=[cnum(x) for x in r.hist.tolist()], edges=[cnum(x) for x in r.bin_edges.tolist()])

  def concat(self, cfg, bs):
    w = None if any(b.get('w') is None for b in bs) else [x for b in bs for x in b['w']]
    if not bs:
      w = [] if cfg.get('weighted') else None
    return dict(xs=[x for b in bs for x in b['xs']], w=w)

  def size(self, b):
    return len(b['xs'])

  def split(self, cfg, b, cuts):
    xs = _rows_split(b['xs'], cuts)
    ws = _rows_split(b['w'], cuts) if b.get('w') is not None else [None] * len(xs)
    return [dict(xs=x, w=w) for x, w in zip(xs, ws)]

  def gen_cfg(self, rng):
    mode = rng.choice(['uniform', 'uniform', 'explicit'])
    weighted = rng.random() < 0.4
    if mode == 'uniform':
      bins = rng.choice([1, 2, 3, 4, 5, 8])
      step = rng.choice([Fr(1), Fr(2), Fr(1, 2), Fr(1, 4)])
      lo = Fr(rng.randint(-4, 2))
      return dict(bins=bins, range=[enc(lo), enc(lo + bins * step)], weighted=weighted)
    n = rng.randint(1, 5)
    es = sorted({rand_val(rng, -4, 6) for _ in range(n + 1)})
    while len(es) < 2:
      es.append(es[-1] + 1)
    return dict(bins=[enc(e) for e in es], range=None, weighted=weighted)

  def gen_batch(self, rng, cfg, n):
    def v():
      r = rng.random()
      if r < 0.08:
        return None
      if r < 0.3 and cfg.get('range'):     # values on the edges, incl. the closed right-most one
        lo, hi = frac(cfg['range'][0]), frac(cfg['range'][1])
        return lo + (hi - lo) * Fr(rng.randint(0, cfg['bins']), cfg['bins'])
      if r < 0.3 and isinstance(cfg['bins'], list):
        return frac(rng.choice(cfg['bins']))
      return rand_val(rng, -6, 8)
    xs = [enc(v()) for _ in range(n)]
    w = [enc(Fr(rng.randint(0, 8), rng.choice([1, 2]))) for _ in range(n)] if cfg.get('weighted') else None
    return dict(xs=xs, w=w)

  def model_cfg(self, cfg):
    return dict(bins=cfg['bins'], range=cfg.get('range'))

  def model_res(self, cfg, j):
    return dict(hist=[mnum(x) for x in j['hist']], edges=[mnum(x) for x in j['edges']])

  @staticmethod
  def edges_of(cfg):
    if isinstance(cfg['bins'], list):
      return [frac(e) for e in cfg['bins']]
    lo, hi = frac(cfg['range'][0]), frac(cfg['range'][1])
    n = cfg['bins']
    return [lo + (hi - lo) * Fr(i, n) for i in range(n + 1)]

  def textbook(self, cfg, b):
    """weight of the values in [e_i, e_{i+1}); the right-most bin is closed; NaN is in no bin."""
    es = self.edges_of(cfg)
    hist = [Fr(0)] * (len(es) - 1)
    ws = b['w'] if b.get('w') is not None else [1] * len(b['xs'])
    for x, w in zip(b['xs'], ws):
      x = frac(x)
      if x is None:
        continue
      for i in range(len(hist)):
        if es[i] <= x and (x < es[i + 1] or (i == len(hist) - 1 and x == es[i + 1])):
          hist[i] += frac(w)
          break
    return dict(hist=[float(h) for h in hist], edges=[float(e) for e in es])


# ---- MinMaxAndCount

class MinMaxSpec(Spec):
  name = model = 'minmax'
  callable = False

  def make(self, cfg):
    from ml_metrics._src.aggregates import rolling_stats as rs
    return rs.MinMaxAndCount()

  def args(self, cfg, b):
    return ([flt(x) for x in b],)

  def obs(self, cfg, r):
    return dict(count=int(r.count), min=cnum(r.min), max=cnum(r.max))

  def concat(self, cfg, bs):
    return [x for b in bs for x in b]

  def size(self, b):
    return len(b)

  def split(self, cfg, b, cuts):
    return _rows_split(b, cuts)

  def gen_batch(self, rng, cfg, n):
    # documented domain: numbers *of inputs* (counts), i.e. non-negative
    return [enc(rand_val(rng, 0, 12)) for _ in range(max(n, 1))]

  def model_res(self, cfg, j):
    return dict(count=j['count'], min=mnum(j['min']), max=mnum(j['max']))

  def textbook(self, cfg, b):
    v = [frac(x) for x in b]
    return dict(count=len(v), min=float(min(v)), max=float(max(v)))

  def in_domain(self, cfg, b):
    return len(b) > 0


# ---- pair metrics: R2Tjur, R2TjurRelative, RRegression, SymmetricPredictionDifference

class PairSpec(Spec):
  callable = False

  def args(self, cfg, b):
    return ([flt(p[0]) for p in b], [flt(p[1]) for p in b])

  def concat(self, cfg, bs):
    return [p for b in bs for p in b]

  def size(self, b):
    return len(b)

  def split(self, cfg, b, cuts):
    return _rows_split(b, cuts)

  def obs(self, cfg, r):
    return cnum(r)

  def model_res(self, cfg, j):
    return mnum(j)


class TjurSpec(PairSpec):

  def __init__(self, rel):
    self.rel = rel
    self.name = self.model = 'r2tjurrel' if rel else 'r2tjur'

  def make(self, cfg):
    from ml_metrics._src.aggregates import rolling_stats as rs
    return rs.R2TjurRelative() if self.rel else rs.R2Tjur()

  def gen_batch(self, rng, cfg, n):
    return [[rng.randint(0, 1), enc(Fr(rng.randint(0, 8), 8))] for _ in range(n)]

  def textbook(self, cfg, b):
    """mean fitted probability of the positives minus (over) that of the negatives."""
    pos = [frac(p[1]) for p in b if frac(p[0]) == 1]
    neg = [frac(p[1]) for p in b if frac(p[0]) == 0]
    if not pos or not neg:
      return NAN
    mp, mn = sum(pos, Fr(0)) / len(pos), sum(neg, Fr(0)) / len(neg)
    if self.rel:
      return NAN if mn == 0 else float(mp / mn)
    return float(mp - mn)


class RRegSpec(PairSpec):
  name = model = 'rregression'

  def make(self, cfg):
    from ml_metrics._src.aggregates import rolling_stats as rs
    return rs.RRegression(center=cfg['center'])

  def gen_cfg(self, rng):
    return dict(center=rng.random() < 0.6)

  def gen_batch(self, rng, cfg, n):
    return [[enc(rand_val(rng, -6, 6)), enc(rand_val(rng, -6, 6))] for _ in range(n)]

  def obs(self, cfg, r):
    r = float(r)
    return 'undef' if not math.isfinite(r) else r

  def run_result(self, acc):
    try:
      return acc.result()
    except ZeroDivisionError:
      return float('nan')

  def model_res(self, cfg, j):
    if j == 'undef':
      return 'undef'
    num, rx, ry = (rat_to_float(j[k]) for k in ('num', 'radx', 'rady'))
    if cfg['center']:
      if rx <= 0 or ry <= 0:
        return 'undef'
      return num / (math.sqrt(rx) * math.sqrt(ry))
    if rx * ry <= 0:
      return 'undef'
    return num / math.sqrt(rx * ry)

  def textbook(self, cfg, b):
    xs, ys = [frac(p[0]) for p in b], [frac(p[1]) for p in b]
    n = len(xs)
    if n == 0:
      return 'undef'
    if cfg['center']:
      mx, my = sum(xs, Fr(0)) / n, sum(ys, Fr(0)) / n
      cov = sum(((x - mx) * (y - my) for x, y in zip(xs, ys)), Fr(0))
      vx = sum(((x - mx) ** 2 for x in xs), Fr(0))
      vy = sum(((y - my) ** 2 for y in ys), Fr(0))
    else:
      cov = sum((x * y for x, y in zip(xs, ys)), Fr(0))
      vx, vy = sum((x * x for x in xs), Fr(0)), sum((y * y for y in ys), Fr(0))
    if vx == 0 or vy == 0:
      return 'undef'
    return float(cov) / math.sqrt(float(vx) * float(vy))


class SPDSpec(PairSpec):
  name = model = 'spd'

  def make(self, cfg):
    from ml_metrics._src.aggregates import rolling_stats as rs
    return rs.SymmetricPredictionDifference()

  def gen_batch(self, rng, cfg, n):
    out = []
    # the metric is scale invariant (2|x-y|/|x+y|): a third of the batches use tiny dyadic units
    # (exact in float64), so a non-zero denominator far below 1e-8 must still divide
    scale = Fr(1, 2 ** rng.choice([40, 60])) if rng.random() < 0.33 else Fr(1)
    for _ in range(n):
      x = rand_val(rng, -4, 6) * scale
      y = -x if rng.random() < 0.15 else rand_val(rng, -4, 6) * scale
      out.append([enc(x), enc(y)])
    return out

  def textbook(self, cfg, b):
    if not b:
      return NAN
    tot = Fr(0)
    for p in b:
      x, y = frac(p[0]), frac(p[1])
      if x + y != 0:
        tot += 2 * abs(x - y) / abs(x + y)
    return float(tot / len(b))


# ---- order-carrying: UnboundedSampler, ValueAccumulator

class SamplerSpec(ColsSpec):
  name = model = 'sampler'
  order = 'ordered'

  def make(self, cfg):
    from ml_metrics._src.aggregates import rolling_stats as rs
    return rs.UnboundedSampler()

  def args(self, cfg, b):
    return tuple(list(c) for c in b)

  def obs(self, cfg, r):
    if isinstance(r, tuple):
      return dict(tuple=[list(c) for c in r])
    return dict(single=list(r))

  def gen_batch(self, rng, cfg, n):
    base = rng.randint(0, 50)
    return [[base + 100 * j + i for i in range(n)] for j in range(cfg['k'])]

  def model_res(self, cfg, j):
    return j

  def textbook(self, cfg, b):
    """all inputs of each column, in feeding order."""
    return dict(single=list(b[0])) if cfg['k'] == 1 else dict(tuple=[list(c) for c in b])


class ValueAccSpec(SamplerSpec):
  name = model = 'valueacc'

  def make(self, cfg):
    from ml_metrics._src.aggregates import rolling_stats as rs
    return rs.ValueAccumulator(concat_fn=operator.add) if cfg['concat'] else rs.ValueAccumulator()

  def gen_cfg(self, rng):
    return dict(k=rng.randint(1, 3), concat=rng.random() < 0.6)

  def model_cfg(self, cfg):
    return dict(concat=cfg['concat'])

  def obs(self, cfg, r):
    if isinstance(r, tuple):
      return dict(tuple=canon(list(r)))
    return dict(single=canon(r))

  def textbook(self, cfg, b):
    if cfg['concat']:
      return super().textbook(cfg, b)
    # no concat_fn: the accumulated items are the fed objects themselves (here: one batch = one item)
    return dict(single=[list(b[0])]) if cfg['k'] == 1 else dict(tuple=[[list(c)] for c in b])


# ---- FixedSizeSample

class ReservoirSpec(Spec):
  name = model = 'fss'
  order = 'reservoir'
  callable = False

  def make(self, cfg):
    from ml_metrics._src.aggregates import rolling_stats as rs
    return rs.FixedSizeSample(cfg['max_size'], seed=cfg['seed'])

  def args(self, cfg, b):
    return (list(b),)

  def obs(self, cfg, r):
    return dict(members=[int(x) for x in r])

  def concat(self, cfg, bs):
    return [x for b in bs for x in b]

  def size(self, b):
    return len(b)

  def split(self, cfg, b, cuts):
    return _rows_split(b, cuts)

  def gen_cfg(self, rng):
    return dict(max_size=rng.randint(1, 5), seed=rng.randint(0, 10**6))

  def gen_batch(self, rng, cfg, n):
    base = rng.randint(0, 9) * 100
    return [base + i for i in range(n)]

  def model_cfg(self, cfg):
    return dict(max_size=cfg['max_size'])

  def model_res(self, cfg, j):
    return dict(members=j['members'])


SPECS = {s.name: s for s in [
    MeanVarSpec('meanvar'), MeanVarSpec('var'), MeanVarSpec('mean'), MeanStateSpec(), TupleMeanStateSpec(),
    CounterSpec(), HistogramSpec(), MinMaxSpec(), TjurSpec(False), TjurSpec(True), RRegSpec(), SPDSpec(),
    SamplerSpec(), ValueAccSpec(), ReservoirSpec()]}

METRIC_WEIGHTS = [('meanvar', 8), ('var', 2), ('mean', 3), ('meanstate', 2), ('tuplemeanstate', 2), ('counter', 2),
                  ('histogram', 4), ('minmax', 2), ('r2tjur', 2), ('r2tjurrel', 1), ('rregression', 2), ('spd', 1),
                  ('sampler', 3), ('valueacc', 3), ('fss', 3)]

COVERED = ('MeanAndVariance, Var, Mean (1-D and 2-D/per-column, NaN entries), MeanState, TupleMeanState, Counter, '
           'Histogram (int bins + range, explicit edges, weights), MinMaxAndCount (axis=None), R2Tjur, R2TjurRelative, '
           'RRegression (1-D x, centered and reflective), SymmetricPredictionDifference, UnboundedSampler, '
           'ValueAccumulator (no concat_fn / concat_fn=operator.add), FixedSizeSample')


# metrics whose never-updated state is distinguishable from "fed one empty batch" (no column structure yet:
# `()` vs `([],)`), or whose add() rejects an empty batch: C01 is claimed when at least one batch was fed at all
NEED_A_BATCH = ('minmax', 'sampler', 'valueacc', 'tuplemeanstate')


def pick_metric(rng):
  tot = sum(w for _, w in METRIC_WEIGHTS)
  r = rng.random() * tot
  for m, w in METRIC_WEIGHTS:
    r -= w
    if r < 0:
      return m
  return METRIC_WEIGHTS[-1][0]


# ----------------------------------------------------------------------------- programs

def run_prog(case, observe_all=False):
  """Executes case['prog'] on the real code.  Returns the list of per-op observations.

  api = 'object': cls(); .add(); .merge(); .result()
  api = 'aggfn' : fn = as_agg_fn(); create_state / update_state / merge_states / get_result
  """
  spec, cfg = SPECS[case['metric']], case['cfg']
  api = case.get('api', 'object')
  fn = spec.agg_fn(cfg) if api == 'aggfn' else None
  accs, out = {}, []

  def result_of(a):
    if hasattr(spec, 'run_result') and api == 'object':
      return spec.run_result(a)
    if api == 'aggfn':
      try:
        return fn.get_result(a)
      except ZeroDivisionError:
        if hasattr(spec, 'run_result'):
          return float('nan')
        raise
    return a.result()

  for op in case['prog']:
    k = op['op']
    try:
      if k == 'make':
        accs[op['acc']] = fn.create_state() if fn else spec.make(cfg)
        out.append(None)
      elif k == 'add':
        a = accs[op['acc']]
        if fn:
          accs[op['acc']] = fn.update_state(a, *spec.args(cfg, op['batch']))
        else:
          a.add(*spec.args(cfg, op['batch']))
        out.append(None)
      elif k == 'merge':
        if fn:
          accs[op['acc']] = fn.merge_states([accs[op['acc']], accs[op['other']]])
        else:
          accs[op['acc']].merge(accs[op['other']])
        out.append(None)
      elif k == 'merge_states':     # one call on the AggregateFn API; the model sees it as a left fold
        ids = op['accs']
        if fn:
          from harness.lib_states import pack   # case['container']: list (default) / tuple / generator / ... (SC11)
          accs[ids[0]] = fn.merge_states(pack([accs[i] for i in ids], case.get('container')))
        else:
          for i in ids[1:]:
            accs[ids[0]].merge(accs[i])
        out += [None] * (len(ids) - 1)
      elif k == 'result':
        out.append(spec.obs(cfg, result_of(accs[op['acc']])))
      elif k == 'call':
        if fn:
          r = fn(*spec.args(cfg, op['batch']))
        else:
          r = spec.make(cfg)(*spec.args(cfg, op['batch']))
        out.append(spec.obs(cfg, r))
      else:
        raise AssertionError(k)
    except Exception as e:  # pylint: disable=broad-except
      out.append({'err': err_kind(e)})
      break
  return out, accs


def model_prog(case):
  """The same program for the Lean driver (merge_states expanded to its left fold)."""
  spec = SPECS[case['metric']]
  prog = []
  for op in case['prog']:
    if op['op'] == 'merge_states':
      ids = op['accs']
      for n, i in enumerate(ids[1:]):
        m = dict(op='merge', acc=ids[0], other=i)
        if 'rng' in op:
          m['rng'] = op['rng'][n]
        prog.append(m)
    elif op['op'] == 'call' and case.get('api') == 'aggfn':
      # AggregateFn.__call__ = get_result(update_state(create_state(), batch))  (base.py:160-164)
      prog += [dict(op='make', acc=999), dict(op='add', acc=999, batch=op['batch']), dict(op='result', acc=999)]
    else:
      prog.append(op)
  return dict(model='aggrolling', metric=spec.model, cfg=spec.model_cfg(case['cfg']), prog=prog)


def model_out(case, resp):
  spec, cfg = SPECS[case['metric']], case['cfg']
  out = []
  for o in resp['obs']:
    if o is None or (isinstance(o, dict) and 'err' in o):
      out.append(o)
    else:
      out.append(spec.model_res(cfg, o))
  return out


def rng_draws(rng, n=24):
  return [rng.randint(0, 7) for _ in range(n)]


def shards_prog(spec, cfg, shards, rng, api):
  """accumulator i per shard, batches added, all merged into accumulator 0, result."""
  prog = []
  for i, sh in enumerate(shards):
    prog.append(dict(op='make', acc=i))
    for b in sh:
      op = dict(op='add', acc=i, batch=b)
      if spec.order == 'reservoir':
        op['rng'] = rng_draws(rng)
      prog.append(op)
  if len(shards) > 1:
    if api == 'aggfn' or rng.random() < 0.5:
      op = dict(op='merge_states', accs=list(range(len(shards))))
      if spec.order == 'reservoir':
        op['rng'] = [rng_draws(rng) for _ in shards[1:]]
      prog.append(op)
      root = 0
    else:
      # random bracketing that keeps the left-to-right order of the shards
      items = list(range(len(shards)))
      while len(items) > 1:
        p = rng.randrange(len(items) - 1)
        op = dict(op='merge', acc=items[p], other=items[p + 1])
        if spec.order == 'reservoir':
          op['rng'] = rng_draws(rng)
        prog.append(op)
        items.pop(p + 1)
      root = items[0]
  else:
    root = 0
  prog.append(dict(op='result', acc=root))
  return prog


def gen_shards(spec, cfg, rng, max_shards=4, max_batches=3, max_rows=5):
  shards = []
  for _ in range(rng.randint(1, max_shards)):
    nb = rng.choice([0, 1, 1, 2, 3][:max_batches + 2])
    sh = []
    for _ in range(nb):
      n = rng.choice([0, 1, 1, 2, 3, 4, 5][:max_rows + 2])
      if spec.name == 'minmax':
        n = max(n, 1)
      sh.append(spec.gen_batch(rng, cfg, n))
    shards.append(sh)
  return shards


def all_batches(shards):
  return [b for sh in shards for b in sh]


def approx(a, b):
  return deep_close(a, b, rel=1e-9, abs_=1e-9)


def compare_obs(a, b):
  return None if approx(a, b) else 'observations differ'


def multiset_le(small, big):
  c = collections.Counter(big)
  for x in small:
    c[x] -= 1
    if c[x] < 0:
      return False
  return True


# ----------------------------------------------------------------------------- known finding classes

def _mv_batches(case):
  for op in case.get('prog', []):
    if op['op'] in ('add', 'call') and isinstance(op.get('batch'), dict) and 'dim' in op['batch']:
      yield op['batch']


def finding_class(case, what=''):
  """Fingerprints of the known input classes (see known_findings.d/rolling.json)."""
  m = case['metric']
  prog = case.get('prog', [])
  if m in ('meanvar', 'var'):
    bs = [b for b in _mv_batches(case) if b['dim'] == 2]
    if bs:
      k = bs[0]['k']
      valid = [[any(r[j] != NAN for r in b['rows']) for j in range(k)] for b in bs]
      if all(not any(v) for v in valid):
        return 'F26'       # 2-D data without a single non-NaN entry (or no row): accumulator stays scalar
      bs = [b for b in bs if b['rows']]
      valid = [[any(r[j] != NAN for r in b['rows']) for j in range(k)] for b in bs]
      for j in range(k):
        col = [v[j] for v in valid]
        if any(col) and not all(col) and len(bs) > 1:
          return 'F2'      # a column all-NaN in one state but not in another
  if m == 'mean':
    bs = [b for b in _mv_batches(case) if b['dim'] == 2]
    if bs and all(all(x == NAN for r in b['rows'] for x in r) for b in bs):
      return 'F26'
  if m == 'fss' and any(op['op'] in ('merge', 'merge_states') for op in prog):
    return 'F3'
  if m in ('sampler', 'valueacc', 'tuplemeanstate'):
    fed = set()
    for op in prog:
      if op['op'] == 'add':
        fed.add(op['acc'])
      elif op['op'] == 'merge':
        if op['other'] not in fed:
          return 'F25'     # merging in a never-updated accumulator
        fed.add(op['acc'])
      elif op['op'] == 'merge_states':
        for i in op['accs'][1:]:
          if i not in fed:
            return 'F25'
        fed.add(op['accs'][0])
  if m == 'minmax':
    vals = [frac(x) for op in prog if op['op'] == 'add' for x in op['batch']]
    if vals and max(vals) < 0:
      return 'F15'
  return None


# ----------------------------------------------------------------------------- C01

class C01:
  LEAN_MODULES = ['MlModel.Properties.C01.Rolling']
  TRUSTED = [
      'rolling family: numpy kernels np.nanmean/np.nanvar/np.sum/np.histogram/np.min/np.max, collections.Counter and '
      'list.extend/pop are modelled by their list/rational semantics (Model/Agg/Rolling*.lean), not verified',
      'rolling family: the reservoir sampler\'s random generator is an arbitrary draw stream in the model; the tie '
      'compares size and reviewed-count only (membership is decided by the theorem and by the oracle on the real code)',
  ]
  ASSUMPTIONS = ['rolling family: examples are small integers / dyadic rationals (exact in float64); 1-D and 2-D inputs; '
                 'MinMaxAndCount with axis=None on non-negative data; RRegression with 1-D x']
  RULE = ('[metrics: ' + COVERED + '] corpus, then random (metric, config, dataset, composition into <=4 shards x <=3 '
          'batches incl. empty shards/batches/all-NaN columns and batches, merge order = merge_states or a random '
          'order-preserving bracketing, object API or AggregateFn API); the program "per-shard accumulators merged" and '
          'the program "one accumulator, one batch" run on the real code and on the Lean model; ~8% malformed inputs '
          '(mixed 1-D/2-D or column counts, bad histogram configs, range=None histograms, empty MinMaxAndCount batch, '
          'result() of a never-updated ValueAccumulator) must be rejected with the model\'s error kind; non-trivial = at '
          'least 2 non-empty batches in total (malformed: an error was raised); distinct = distinct canonical case JSON')

  @staticmethod
  def make_case(spec, cfg, shards, rng, api):
    prog = shards_prog(spec, cfg, shards, rng, api)
    n = len(shards)
    if spec.name == 'valueacc' and not cfg['concat']:
      # without concat_fn the accumulated items ARE the batch objects: the reference run feeds the same items,
      # one by one, to a single accumulator (sharding invariance; there is no "one batch" of items)
      single = ([dict(op='make', acc=n)] + [dict(op='add', acc=n, batch=b) for b in all_batches(shards)]
                + [dict(op='result', acc=n)])
      return dict(metric=spec.name, cfg=cfg, api=api, nshards=n, nsingle=len(single), prog=prog + single)
    whole = spec.concat(cfg, all_batches(shards))
    op = dict(op='add', acc=n, batch=whole)
    if spec.order == 'reservoir':
      op['rng'] = rng_draws(rng)
    single = [dict(op='make', acc=n), op, dict(op='result', acc=n)]
    return dict(metric=spec.name, cfg=cfg, api=api, nshards=n, nsingle=3, prog=prog + single)

  @staticmethod
  def malformed_case(rng):
    """inputs the real code rejects: the model must reject them with the same error kind (no oracle)."""
    how = rng.choice(['mv_dim', 'mv_k', 'cols', 'hist_cfg', 'hist_auto', 'minmax_empty', 'va_fresh_result'])
    if how in ('mv_dim', 'mv_k'):
      spec = SPECS[rng.choice(['meanvar', 'var', 'mean'])]
      cfg = dict(dim=2, k=rng.randint(1, 3))
      shards = gen_shards(spec, cfg, rng, max_shards=2)
      bs = all_batches(shards)
      if bs:
        b = rng.choice(bs)
        n = max(len(b['rows']), 1)
        if how == 'mv_dim':
          b.clear(); b.update(dim=1, xs=[enc(rand_val(rng)) for _ in range(n)])
        else:
          k2 = cfg['k'] + 1
          b.clear(); b.update(dim=2, k=k2, rows=[[enc(rand_val(rng)) for _ in range(k2)] for _ in range(n)])
      prog = shards_prog(spec, cfg, shards, rng, 'object')
    elif how == 'cols':
      spec = SPECS[rng.choice(['sampler', 'valueacc', 'tuplemeanstate'])]
      cfg = spec.gen_cfg(rng)
      shards = gen_shards(spec, cfg, rng, max_shards=2)
      bs = all_batches(shards)
      if bs:
        b = rng.choice(bs)
        b.append(list(b[0]))
      prog = shards_prog(spec, cfg, shards, rng, 'object')
    elif how == 'hist_cfg':
      spec = SPECS['histogram']
      cfg = rng.choice([dict(bins=0, range=[0, 1]), dict(bins=2, range=[3, 1]), dict(bins=[0, 2, 1], range=None),
                        dict(bins=3, range=[2, 2])])
      cfg = dict(cfg, weighted=False)
      shards = [[dict(xs=[enc(rand_val(rng, 0, 4)) for _ in range(3)], w=None)]]
      prog = shards_prog(spec, cfg, shards, rng, 'object')
    elif how == 'hist_auto':
      spec = SPECS['histogram']
      cfg = dict(bins=rng.choice([1, 2, 4]), range=None, weighted=False)
      pool = [[0, 1], [0, 1, Fr(1, 2)], [1, 0, 0], [0, 2], [], [None, 1], [3, 3], [Fr(1, 4), 0, 1]]
      shards = [[dict(xs=[enc(x) for x in rng.choice(pool)], w=None) for _ in range(rng.randint(1, 2))]
                for _ in range(rng.randint(1, 2))]
      prog = shards_prog(spec, cfg, shards, rng, 'object')
    elif how == 'minmax_empty':
      spec, cfg = SPECS['minmax'], {}
      shards = [[spec.gen_batch(rng, cfg, 2), []], [spec.gen_batch(rng, cfg, 1)]]
      prog = shards_prog(spec, cfg, shards, rng, 'object')
    else:
      spec = SPECS['valueacc']
      cfg = spec.gen_cfg(rng)
      prog = [dict(op='make', acc=0), dict(op='make', acc=1), dict(op='merge', acc=0, other=1), dict(op='result', acc=0)]
    return dict(metric=spec.name, cfg=cfg, api='object', malformed=how, nshards=0, nsingle=0, prog=prog)

  @staticmethod
  def gen_cases(ctx):
    yield from ctx.corpus('C01_rolling')
    rng = ctx.rng
    for _ in range(2600 if ctx.quick else 60000):
      if rng.random() < 0.08:
        c = C01.malformed_case(rng)
        ctx.count('C01 rolling malformed', c['malformed'])
        yield c
        continue
      spec = SPECS[pick_metric(rng)]
      cfg = spec.gen_cfg(rng)
      shards = gen_shards(spec, cfg, rng)
      if spec.name in NEED_A_BATCH and not all_batches(shards):
        continue
      api = 'aggfn' if (spec.has_aggfn and rng.random() < 0.4) else 'object'
      ctx.count('C01 rolling metric', spec.name)
      ctx.count('C01 rolling api', api)
      for flag in C01.input_classes(spec, cfg, shards):
        ctx.count('C01 rolling input class', flag)
      yield C01.make_case(spec, cfg, shards, rng, api)

  @staticmethod
  def input_classes(spec, cfg, shards):
    """which special input classes (model branches) a composition exercises - for the evidence."""
    out = set()
    if any(not sh for sh in shards):
      out.add('empty shard')
    if shards and not shards[0]:
      out.add('first shard empty (fresh receiver of merge_states)')
    bs = all_batches(shards)
    if any(spec.size(b) == 0 for b in bs):
      out.add('empty batch')
    if len(shards) > 1:
      out.add('>=2 shards')
    if spec.name in ('meanvar', 'var', 'mean'):
      if cfg['dim'] == 2:
        out.add('2-D')
        k = cfg['k']
        for b in bs:
          if b['rows']:
            cols = [[r[j] for r in b['rows']] for j in range(k)]
            nan_cols = [all(x == NAN for x in c) for c in cols]
            if all(nan_cols):
              out.add('batch without a valid entry (guard :392)')
            elif any(nan_cols):
              out.add('column all-NaN in one batch (F2 class)')
      else:
        out.add('1-D')
        if any(b['xs'] and all(x == NAN for x in b['xs']) for b in bs):
          out.add('batch without a valid entry (guard :392)')
    if spec.name == 'histogram':
      out.add('weights' if cfg.get('weighted') else 'no weights')
      out.add('explicit edges' if isinstance(cfg['bins'], list) else 'int bins + range')
    if spec.name == 'valueacc':
      out.add('concat_fn' if cfg['concat'] else 'no concat_fn')
    return sorted(out)

  @staticmethod
  def run_impl(case):
    out, _ = run_prog(case)
    res = [o for o in out if o is not None]
    return dict(results=res)

  @staticmethod
  def model_requests(case):
    return [model_prog(case)]

  @staticmethod
  def model_obs(case, resps):
    out = model_out(case, resps[0])
    return dict(results=[o for o in out if o is not None])

  @staticmethod
  def compare(a, b):
    ra, rb = a['results'], b['results']
    if len(ra) != len(rb):
      return 'different number of results'
    for x, y in zip(ra, rb):
      if isinstance(x, dict) and 'members' in x and isinstance(y, dict) and 'members' in y:
        if len(x['members']) != len(y['members']):
          return 'reservoir size differs'
      elif not approx(x, y):
        return 'results differ'
    return None

  @staticmethod
  def oracle(case, obs):
    """sharded/batched/merged result == one accumulator fed the whole dataset in one batch."""
    spec, cfg = SPECS[case['metric']], case['cfg']
    res = obs['results']
    if case.get('malformed'):
      return None       # rejected inputs: decided by the correspondence (same error kind as the model)
    if len(res) != 2 or any(isinstance(r, dict) and 'err' in r for r in res):
      return f'accumulation raised or is incomplete: {res}'
    sharded, single = res
    if spec.order == 'reservoir':
      data = [x for op in case['prog'][:-case.get('nsingle', 3)] if op['op'] == 'add' for x in op['batch']]
      n = len(data)
      for name, r in (('sharded', sharded), ('single', single)):
        if len(r['members']) != min(cfg['max_size'], n):
          return f'{name}: reservoir size {len(r["members"])} != min(max_size={cfg["max_size"]}, n={n})'
        if not multiset_le(r['members'], data):
          return f'{name}: reservoir {r["members"]} is not a sub-multiset of the inputs'
      return None
    if not approx(sharded, single):
      return f'sharded result {sharded} != single-batch result {single}'
    return None

  @staticmethod
  def nontrivial(case, obs):
    if case.get('malformed'):
      return any(isinstance(r, dict) and 'err' in r for r in obs['results'])
    n = sum(1 for op in case['prog'][:-case.get('nsingle', 3)] if op['op'] == 'add' and SPECS[case['metric']].size(op['batch']) > 0)
    return n >= 2

  @staticmethod
  def finding(case, what):
    return finding_class(case, what)

  @staticmethod
  def extra(ctx):
    """reviewed-count of the reservoir is a public attribute, not part of result(): checked here."""
    rng = ctx.rng
    spec = SPECS['fss']
    for _ in range(60 if ctx.quick else 1500):
      cfg = spec.gen_cfg(rng)
      shards = gen_shards(spec, cfg, rng)
      case = C01.make_case(spec, cfg, shards, rng, 'object')
      _, accs = run_prog(case)
      n = sum(len(b) for b in all_batches(shards))
      root = case['prog'][-case['nsingle'] - 1]['acc']
      ctx.extra_evals += 1
      for i in (root, len(shards)):
        if accs[i].num_samples_reviewed != n:
          ctx.extra_oracle_failures.append((dict(case, family='rolling'),
                                            f'num_samples_reviewed={accs[i].num_samples_reviewed} != {n}'))


# ----------------------------------------------------------------------------- C11

def result_op(i):
  return dict(op='result', acc=i)


ALIAS_METRICS = {'sampler': 'heap_sampler', 'valueacc': 'heap_valueacc', 'fss': 'heap_fss', 'meanvar': 'heap_meanvar'}


def containers(metric, acc):
  """the mutable containers an accumulator exposes through PUBLIC properties."""
  if metric == 'sampler':
    return list(acc.samples)
  if metric == 'valueacc':
    return list(acc.data)
  if metric == 'fss':
    return [acc.reservoir]
  if metric == 'meanvar':
    return [x for x in (acc.count, acc.mean, acc.var) if isinstance(x, np.ndarray) and x.ndim >= 1]
  raise AssertionError(metric)


def same_object(a, b):
  if a is b:
    return True
  if isinstance(a, np.ndarray) and isinstance(b, np.ndarray):
    return bool(np.shares_memory(a, b))
  return False


def run_alias(case):
  """after every op: which pairs of accumulators reference a common container (`is` / shares_memory)."""
  spec, cfg = SPECS[case['metric']], case['cfg']
  accs, out = [], []
  for op in case['prog']:
    try:
      if op['op'] == 'make':
        accs.append(spec.make(cfg))
      elif op['op'] == 'add':
        accs[op['acc']].add(*spec.args(cfg, op['batch']))
      elif op['op'] == 'merge':
        accs[op['acc']].merge(accs[op['other']])
    except Exception as e:  # pylint: disable=broad-except
      out.append({'err': err_kind(e)})
      break
    cs = [containers(case['metric'], a) for a in accs]
    out.append([[i, j] for i in range(len(accs)) for j in range(i + 1, len(accs))
                if any(same_object(x, y) for x in cs[i] for y in cs[j])])
  return out


class C11:
  LEAN_MODULES = ['MlModel.Properties.C11.Rolling', 'MlModel.Properties.C11.RollingHeap']
  TRUSTED = C01.TRUSTED
  ASSUMPTIONS = C01.ASSUMPTIONS
  RULE = ('[metrics: ' + COVERED + ', FrequencyState] three kinds of programs over <=4 accumulators built from '
          'generated data (incl. never-updated ones): "laws" (both bracketings of a 3-way merge, both orders of a '
          '2-way merge, fresh on either side; results compared), "frame" (random interleavings of add/merge/result '
          'where after EVERY op the result of EVERY accumulator is read, so an operand or bystander that changes is '
          'seen) and "alias" (identity probes of the container fields after merge, compared with the heap model); '
          'non-trivial = contains a merge of two updated accumulators; distinct = distinct canonical case JSON')

  # -- "laws" cases: several programs in one case, their final results must agree as stated
  @staticmethod
  def laws_case(spec, cfg, rng):
    A, B, C = (spec.gen_batch(rng, cfg, rng.choice([0, 1, 2, 3, 4]) if spec.name != 'minmax' else rng.randint(1, 4))
               for _ in range(3))

    def draws():
      return rng_draws(rng) if spec.order == 'reservoir' else None

    def mk(i, b):
      ops = [dict(op='make', acc=i)]
      if b is not None:
        op = dict(op='add', acc=i, batch=b)
        if spec.order == 'reservoir':
          op['rng'] = draws()
        ops.append(op)
      return ops

    def mg(i, j):
      op = dict(op='merge', acc=i, other=j)
      if spec.order == 'reservoir':
        op['rng'] = draws()
      return op

    progs = {
        'left': mk(0, A) + mk(1, B) + mk(2, C) + [mg(0, 1), mg(0, 2), result_op(0)],
        'right': mk(0, A) + mk(1, B) + mk(2, C) + [mg(1, 2), mg(0, 1), result_op(0)],
        'ab': mk(0, A) + mk(1, B) + [mg(0, 1), result_op(0)],
        'ba': mk(0, A) + mk(1, B) + [mg(1, 0), result_op(1)],
        'a': mk(0, A) + [result_op(0)],
        'fresh_a': mk(0, None) + mk(1, A) + [mg(0, 1), result_op(0)],
        'a_fresh': mk(0, A) + mk(1, None) + [mg(0, 1), result_op(0)],
        'fresh_fresh': mk(0, None) + mk(1, None) + [mg(0, 1), result_op(0)],
        'fresh': mk(0, None) + [result_op(0)],
    }
    return dict(metric=spec.name, cfg=cfg, kind='laws', progs=progs, sizes=[spec.size(A), spec.size(B), spec.size(C)],
                data=spec.concat(cfg, [A, B, C]))

  @staticmethod
  def frame_case(spec, cfg, rng):
    """random interleaving; after every op every accumulator's result is read (twice at the end)."""
    n = rng.randint(2, 4)
    prog = [dict(op='make', acc=i) for i in range(n)]
    fed = set()
    steps = rng.randint(3, 8)
    for _ in range(steps):
      r = rng.random()
      if r < 0.55:
        i = rng.randrange(n)
        nrows = rng.randint(1, 3) if spec.name == 'minmax' else rng.choice([0, 1, 2, 3])
        op = dict(op='add', acc=i, batch=spec.gen_batch(rng, cfg, nrows))
        fed.add(i)
      else:
        i, j = rng.sample(range(n), 2)
        op = dict(op='merge', acc=i, other=j)
        if j in fed:
          fed.add(i)
      if spec.order == 'reservoir':
        op['rng'] = rng_draws(rng)
      prog.append(op)
      # result() of a never-updated ValueAccumulator raises IndexError: not read here
      reads = sorted(fed) if spec.name == 'valueacc' else range(n)
      prog += [result_op(k) for k in reads]
    prog += [result_op(k) for k in (sorted(fed) if spec.name == 'valueacc' else range(n))]
    return dict(metric=spec.name, cfg=cfg, kind='frame', naccs=n, prog=prog)

  @staticmethod
  def alias_case(spec, cfg, rng):
    n = rng.randint(2, 4)
    prog = [dict(op='make') for _ in range(n)]
    for _ in range(rng.randint(2, 7)):
      if rng.random() < 0.5:
        i = rng.randrange(n)
        prog.append(dict(op='add', acc=i, batch=spec.gen_batch(rng, cfg, rng.choice([0, 1, 2, 3]))))
      else:
        i, j = rng.sample(range(n), 2)
        prog.append(dict(op='merge', acc=i, other=j))
    return dict(metric=spec.name, cfg=cfg, kind='alias', naccs=n, prog=prog)

  @staticmethod
  def gen_cases(ctx):
    yield from ctx.corpus('C11_rolling')
    rng = ctx.rng
    for _ in range(500 if ctx.quick else 10000):
      spec = SPECS[rng.choice(sorted(ALIAS_METRICS))]
      cfg = spec.gen_cfg(rng)
      if spec.name == 'meanvar':
        cfg = dict(dim=2, k=rng.randint(1, 3))
      ctx.count('C11 rolling alias metric', spec.name)
      yield C11.alias_case(spec, cfg, rng)
    for _ in range(900 if ctx.quick else 20000):
      spec = SPECS[pick_metric(rng)]
      cfg = spec.gen_cfg(rng)
      ctx.count('C11 rolling laws metric', spec.name)
      yield C11.laws_case(spec, cfg, rng)
    for _ in range(900 if ctx.quick else 20000):
      spec = SPECS[pick_metric(rng)]
      cfg = spec.gen_cfg(rng)
      ctx.count('C11 rolling frame metric', spec.name)
      yield C11.frame_case(spec, cfg, rng)

  @staticmethod
  def _subcases(case):
    if case['kind'] == 'laws':
      return [(k, dict(metric=case['metric'], cfg=case['cfg'], prog=p)) for k, p in sorted(case['progs'].items())]
    return [('prog', case)]

  @staticmethod
  def run_impl(case):
    if case['kind'] == 'alias':
      return dict(shares=run_alias(case))
    out = {}
    for k, sub in C11._subcases(case):
      o, _ = run_prog(sub)
      out[k] = o
    return out

  @staticmethod
  def model_requests(case):
    if case['kind'] == 'alias':
      cfg = case['cfg']
      mcfg = dict(max_size=cfg['max_size']) if case['metric'] == 'fss' else dict(k=cfg.get('k', 1))
      prog = [dict(op, batch=dict(rows=op['batch']['rows'])) if (case['metric'] == 'meanvar' and op['op'] == 'add')
              else op for op in case['prog']]
      return [dict(model='aggrolling', metric=ALIAS_METRICS[case['metric']], cfg=mcfg, prog=prog)]
    return [model_prog(sub) for _, sub in C11._subcases(case)]

  @staticmethod
  def model_obs(case, resps):
    if case['kind'] == 'alias':
      return dict(shares=resps[0]['shares'])
    return {k: model_out(sub, r) for (k, sub), r in zip(C11._subcases(case), resps)}

  @staticmethod
  def compare(a, b):
    if 'shares' in a or 'shares' in b:
      return None if a == b else 'identity pattern of the container fields differs from the heap model'
    if set(a) != set(b):
      return 'different programs'
    for k in a:
      if len(a[k]) != len(b[k]):
        return f'{k}: different number of observations'
      for x, y in zip(a[k], b[k]):
        if isinstance(x, dict) and 'members' in x and isinstance(y, dict) and 'members' in y:
          if len(x['members']) != len(y['members']):
            return f'{k}: reservoir size differs'
        elif not approx(x, y):
          return f'{k}: observations differ'
    return None

  @staticmethod
  def _final(obs):
    return obs[-1] if obs else None

  @staticmethod
  def oracle(case, obs):
    spec, cfg = SPECS[case['metric']], case['cfg']
    if case['kind'] == 'alias':
      bad = [x for x in obs['shares'] if isinstance(x, dict)]
      # identity is compared with the model; the property-level check is the "frame" kind
      return f'an operation raised: {bad}' if bad else None
    if case['kind'] == 'laws':
      fin = {k: C11._final(v) for k, v in obs.items()}
      bad = {k: v for k, v in fin.items() if isinstance(v, dict) and 'err' in v}
      allowed = set()
      if spec.name == 'valueacc':
        allowed = {'fresh', 'fresh_fresh'}      # result() of a never-updated ValueAccumulator: IndexError
      if set(bad) - allowed:
        return f'merge/result raised: { {k: bad[k] for k in sorted(set(bad) - allowed)} }'
      if spec.order == 'reservoir':
        n = case['sizes']
        exp = {'left': sum(n), 'right': sum(n), 'ab': n[0] + n[1], 'ba': n[0] + n[1], 'a': n[0], 'fresh_a': n[0],
               'a_fresh': n[0], 'fresh_fresh': 0, 'fresh': 0}
        for k, e in exp.items():
          if len(fin[k]['members']) != min(cfg['max_size'], e):
            return f'{k}: reservoir size {len(fin[k]["members"])} != min({cfg["max_size"]}, {e})'
          if not multiset_le(fin[k]['members'], case['data']):
            return f'{k}: members not among the inputs'
        return None
      if not approx(fin['left'], fin['right']):
        return f'not associative: (a.b).c = {fin["left"]}  a.(b.c) = {fin["right"]}'
      if spec.order == 'multiset' and not approx(fin['ab'], fin['ba']):
        return f'not commutative: a.b = {fin["ab"]}  b.a = {fin["ba"]}'
      if not approx(fin['fresh_a'], fin['a']):
        return f'fresh is not a left unit: fresh.a = {fin["fresh_a"]}  a = {fin["a"]}'
      if not approx(fin['a_fresh'], fin['a']):
        return f'fresh is not a right unit: a.fresh = {fin["a_fresh"]}  a = {fin["a"]}'
      if 'fresh' not in bad and not approx(fin['fresh_fresh'], fin['fresh']):
        return f'fresh.fresh = {fin["fresh_fresh"]} != fresh = {fin["fresh"]}'
      return None
    # frame: replay the reads.  After op k, every accumulator that is not the receiver of op k must read the same
    # as before; the final double read must be identical (result() repeatable and pure).
    o = obs['prog']
    if any(isinstance(x, dict) and 'err' in x for x in o):
      return f'an operation raised: {[x for x in o if isinstance(x, dict) and "err" in x]}'
    last, dirty, cur_op = {}, set(), None
    for op, x in zip(case['prog'], o):
      if op['op'] in ('add', 'merge'):
        cur_op, dirty = op, {op['acc']}
      elif op['op'] == 'result':
        i = op['acc']
        if i in last and i not in dirty:
          same = approx(last[i], x) if spec.order != 'reservoir' else last[i] == x
          if not same:
            if cur_op is not None and cur_op['op'] == 'merge' and cur_op.get('other') == i:
              role = 'operand'
            elif cur_op is not None and cur_op['acc'] == i:
              role = 're-read (result() not repeatable)'
            else:
              role = 'bystander'
            return (f'{role}: accumulator {i} changed from {last[i]} to {x} after {cur_op and cur_op["op"]} on '
                    f'accumulator {cur_op and cur_op["acc"]}')
        last[i] = x
        dirty.discard(i)
    return None

  @staticmethod
  def nontrivial(case, obs):
    if case['kind'] == 'laws':
      return sum(1 for s in case['sizes'] if s) >= 2
    if case['kind'] == 'alias':
      return any(op['op'] == 'merge' for op in case['prog'])
    fed = set()
    for op in case['prog']:
      if op['op'] == 'add':
        fed.add(op['acc'])
      if op['op'] == 'merge' and op['acc'] in fed and op['other'] in fed:
        return True
    return False

  @staticmethod
  def finding(case, what):
    if case['kind'] == 'laws':
      for k, p in case['progs'].items():
        f = finding_class(dict(metric=case['metric'], cfg=case['cfg'], prog=p), what)
        if f:
          return f
      return None
    return finding_class(case, what)


# ----------------------------------------------------------------------------- C07

class C07:
  LEAN_MODULES = ['MlModel.Properties.C07.Rolling']
  TRUSTED = C01.TRUSTED
  ASSUMPTIONS = C01.ASSUMPTIONS
  RULE = ('[metrics: ' + COVERED + '; function API mean/var/stddev/count/total] random (metric, config, dataset); '
          'the value after feeding the dataset in random batches, the one-shot value metric(dataset) / '
          'AggregateFn(dataset), and ml_metrics.metrics.rolling_stats.{mean,var,stddev,count,total}(dataset) are '
          'compared with an exact-rational textbook computation from the raw examples and with each other; '
          'non-trivial = dataset of >=2 examples; distinct = distinct canonical case JSON')

  @staticmethod
  def make_case(spec, cfg, data, cuts, api):
    parts = spec.split(cfg, data, cuts)
    prog = [dict(op='make', acc=0)] + [dict(op='add', acc=0, batch=p) for p in parts] + [result_op(0)]
    prog += [dict(op='make', acc=1), dict(op='add', acc=1, batch=data), result_op(1)]
    if spec.callable:
      prog.append(dict(op='call', batch=data))
    return dict(metric=spec.name, cfg=cfg, api=api, data=data, prog=prog)

  @staticmethod
  def gen_cases(ctx):
    yield from ctx.corpus('C07_rolling')
    rng = ctx.rng
    for _ in range(2600 if ctx.quick else 60000):
      name = pick_metric(rng)
      if name == 'fss':
        continue
      spec = SPECS[name]
      cfg = spec.gen_cfg(rng)
      n = rng.choice([0, 1, 2, 3, 4, 5, 6, 8, 12])
      if spec.name == 'minmax':
        n = max(n, 1)
      data = spec.gen_batch(rng, cfg, n)
      n = spec.size(data)
      cuts = sorted(rng.sample(range(1, n), min(rng.randint(0, 3), n - 1))) if n > 1 else []
      if spec.name == 'valueacc' and not cfg['concat']:
        cuts = []
      api = 'aggfn' if (spec.has_aggfn and rng.random() < 0.4) else 'object'
      ctx.count('C07 rolling metric', spec.name)
      yield C07.make_case(spec, cfg, data, cuts, api)

  @staticmethod
  def run_impl(case):
    out, _ = run_prog(case)
    res = dict(results=[o for o in out if o is not None])
    if case['metric'] == 'meanvar':
      from ml_metrics._src.metrics import rolling_stats as fapi
      spec = SPECS['meanvar']
      (batch,) = spec.args(case['cfg'], case['data'])
      try:
        res['function_api'] = dict(
            vec=np.asarray(fapi.mean(batch)).ndim >= 1,
            count=[int(c) for c in np.atleast_1d(np.asarray(fapi.count(batch))).tolist()],
            mean=spec._vec(fapi.mean(batch))[1], var=spec._vec(fapi.var(batch))[1],
            total=spec._vec(fapi.total(batch))[1], stddev=spec._vec(fapi.stddev(batch))[1])
      except Exception as e:  # pylint: disable=broad-except
        res['function_api'] = {'err': err_kind(e)}
    return res

  @staticmethod
  def model_requests(case):
    reqs = [model_prog(case)]
    if case['metric'] == 'meanvar':
      # the five functions are `MeanAndVariance().add(batch).<field>`; add() returns new(batch) (FnApi in the model)
      reqs.append(model_prog(dict(metric='meanvar', cfg=case['cfg'], prog=[dict(op='call', batch=case['data'])])))
    return reqs

  @staticmethod
  def model_obs(case, resps):
    out = [o for o in model_out(case, resps[0]) if o is not None]
    res = dict(results=out)
    if case['metric'] == 'meanvar':
      res['function_api'] = model_out(case, resps[1])[0]
    return res

  @staticmethod
  def compare(a, b):
    return None if approx(a, b) else 'observations differ'

  @staticmethod
  def oracle(case, obs):
    spec, cfg = SPECS[case['metric']], case['cfg']
    res = obs['results']
    if any(isinstance(r, dict) and 'err' in r for r in res):
      return f'raised: {res}'
    if not spec.in_domain(cfg, case['data']):
      return None
    want = spec.textbook(cfg, case['data'])
    names = ['batched accumulator', 'one-batch accumulator', 'one-shot call']
    for nm, r in zip(names, res):
      if not approx(r, want):
        return f'{nm} = {r} but the textbook value is {want}'
    if 'function_api' in obs and not approx(obs['function_api'], want):
      return f'function API = {obs["function_api"]} but the textbook value is {want}'
    return None

  @staticmethod
  def nontrivial(case, obs):
    return SPECS[case['metric']].size(case['data']) >= 2

  @staticmethod
  def finding(case, what):
    return finding_class(case, what)


CHECKS = {'C01': C01, 'C11': C11, 'C07': C07}
