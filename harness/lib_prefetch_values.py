"""C15, value level: generators whose elements / return value / failure are exactly the values the protocol code
special-cases, run through the REAL client loop (`CourierClient.async_iterate`) against the REAL
`PrefetchedCourierServer` over the fake courier on real OS threads, compared with `Model/PrefetchClient.lean`
(driver model "prefetchclient") and with the plain Python iteration of the same iterator (the oracle).

A case: {stage:'values', prefetch:p, batch:b, mode:'inline'|'threaded', yields:[tok..], fin:{'ret':[tok..]}|{'raise':tok}}
  tok = ['int',n] | ['str',s] | ['none'] | ['bool',b] | ['list',[tok..]] | ['tuple',[tok..]] | ['exc', class name, [tok..]]

The special values are READ OFF THE SOURCE with `ast` at run time (`special_literals`): every exception class the
functions under the property name in an `isinstance` / `except` / `raise` / constructor call, every exception the
code CONSTRUCTS to compare with (`elem != ValueError('generator already executing')`), every string / tuple constant
that takes part in a comparison, `None`; a new special case in the code adds cases here.
"""
try:  # the real server logs every shutdown request at WARNING: thousands of lines per run
  from absl import logging as _absl_logging
  _absl_logging.set_verbosity(_absl_logging.ERROR)
except Exception:  # pragma: no cover
  pass

import ast
import asyncio
import builtins
import json
import os
import queue as _queue
import threading

_KEEP = []

# functions whose text is scanned: (file relative to the repo root, qualified names or None = whole file)
ANCHORS = [
    ('ml_metrics/_src/chainables/courier_server.py',
     ['PrefetchedCourierServer._next_batch', 'PrefetchedCourierServer._init_iterator',
      'PrefetchedCourierServer._stop_prefetch_locked', 'PrefetchedCourierServer._stop_prefetch']),
    ('ml_metrics/_src/utils/courier_utils.py', ['CourierClient.async_iterate', 'CourierClient.next_batch_from_generator']),
    ('ml_metrics/_src/utils/iter_utils.py',
     ['is_stop_iteration', 'IteratorQueue.get_nowait', 'IteratorQueue.get_batch', 'IteratorQueue.enqueue_from_iterator',
      'IteratorQueue.maybe_stop', 'IteratorQueue._stop_enqueue', 'IteratorQueue.enqueue_done', 'IteratorQueue.put']),
]


class HarnessError(Exception):
  """a user-defined exception class (no library knows it)"""


def _exc_class(name):
  if name == 'HarnessError':
    return HarnessError
  c = getattr(builtins, name, None)
  if isinstance(c, type) and issubclass(c, Exception):
    return c
  return None


def _functions(tree):
  out = {}
  for node in tree.body:
    if isinstance(node, (ast.FunctionDef, ast.AsyncFunctionDef)):
      out[node.name] = node
    elif isinstance(node, ast.ClassDef):
      for sub in node.body:
        if isinstance(sub, (ast.FunctionDef, ast.AsyncFunctionDef)):
          out[f'{node.name}.{sub.name}'] = sub
  return out


def _const_tok(node):
  """token of a literal AST node, or None"""
  if isinstance(node, ast.Constant):
    v = node.value
    if v is None:
      return ['none']
    if isinstance(v, bool):
      return ['bool', v]
    if isinstance(v, int):
      return ['int', v]
    if isinstance(v, str):
      return ['str', v]
    return None
  if isinstance(node, ast.Tuple):
    el = [_const_tok(e) for e in node.elts]
    return ['tuple', el] if all(e is not None for e in el) else None
  if isinstance(node, ast.Call) and isinstance(node.func, ast.Name) and _exc_class(node.func.id) is not None:
    args = [_const_tok(a) for a in node.args]
    if all(a is not None for a in args) and not node.keywords:
      return ['exc', node.func.id, args]
  return None


def special_literals(repo):
  """-> dict(classes=[name..], excs=[tok..], consts=[tok..], where={key: [file:line..]}) read off the working tree"""
  classes, excs, consts, where = [], [], [], {}

  def note(kind, tok, fn, node):
    lst = dict(c=classes, e=excs, k=consts)[kind]
    if tok not in lst:
      lst.append(tok)
    where.setdefault(json.dumps(tok), []).append(f'{fn}:{node.lineno}')

  for rel, names in ANCHORS:
    path = os.path.join(repo, rel)
    tree = ast.parse(open(path).read())
    fns = _functions(tree)
    for name in names:
      if name not in fns:
        continue    # a renamed function: the coverage floor below still applies
      for node in ast.walk(fns[name]):
        # exception classes named in isinstance / except / raise / constructor calls
        if isinstance(node, ast.Name) and _exc_class(node.id) is not None:
          note('c', node.id, rel, node)
        # constructed exceptions with literal arguments, wherever they stand (comparison operand, raise, return)
        if isinstance(node, ast.Call):
          t = _const_tok(node)
          if t is not None and t[0] == 'exc' and all(a[0] == 'str' and len(a[1]) < 60 for a in t[2]):
            note('e', t, rel, node)
        # operands of comparisons: the values the code compares an element / a marker / its args with
        if isinstance(node, ast.Compare):
          for side in [node.left] + list(node.comparators):
            t = _const_tok(side)
            if t is not None:
              note('e' if t[0] == 'exc' else 'k', t, rel, node)
  return dict(classes=classes, excs=excs, consts=consts, where=where)


def derived_specials(lit):
  """the special values every role (raise / yield / return) is exercised with"""
  out = []
  def add(t):
    if t not in out:
      out.append(t)
  for t in lit['excs']:
    add(t)
  strs = []
  for t in lit['consts']:
    if t[0] == 'str':
      strs.append(t[1])
    if t[0] == 'tuple':
      strs += [e[1] for e in t[1] if e[0] == 'str']
  for s in strs:                                   # a comparison of `.args` / `str(e)` with a constant:
    for c in lit['classes']:                       # every class the code knows, carrying exactly that text
      add(['exc', c, [['str', s]]])
  for c in lit['classes']:
    add(['exc', c, []])
    add(['exc', c, [['str', 'x']]])
    add(['exc', c, [['int', 7], ['str', 'y']]])
  for t in lit['excs']:                            # same text, another class / same class, other text
    if t[2]:
      add(['exc', 'HarnessError', t[2]])
      add(['exc', t[1], t[2] + [['int', 0]]])
  add(['exc', 'HarnessError', [['str', 'boom']]])
  return out


def plain_specials(lit):
  """non-exception special values (elements / return values): what the code compares with, plus falsy values"""
  out = [['none'], ['int', 0], ['str', ''], ['list', []], ['tuple', []], ['bool', False]]
  for t in lit['consts']:
    if t[0] != 'exc' and t not in out:
      out.append(t)
  return out


# ------------------------------------------------------------------ tokens <-> values

def decode(t):
  k = t[0]
  if k in ('int', 'str', 'bool'):
    return t[1]
  if k == 'none':
    return None
  if k == 'list':
    return [decode(e) for e in t[1]]
  if k == 'tuple':
    return tuple(decode(e) for e in t[1])
  if k == 'exc':
    return _exc_class(t[1])(*[decode(e) for e in t[2]])
  raise ValueError(t)


def _struct(v):
  if v is None or isinstance(v, (bool, int, str)):
    return v
  if isinstance(v, float):
    return ['float', repr(v)]
  if isinstance(v, list):
    return ['list', [_struct(e) for e in v]]
  if isinstance(v, tuple):
    return ['tuple', [_struct(e) for e in v]]
  if isinstance(v, BaseException):
    return ['exc', _cls_name(v), [_struct(a) for a in v.args]]
  return ['repr', repr(v)]


def encs(v):
  """canonical encoding of a value as ONE string (what the Lean model carries)"""
  return json.dumps(_struct(v), sort_keys=True)


def _cls_name(e):
  return 'StopIteration' if isinstance(e, StopIteration) else type(e).__name__


def enc_exc(e):
  return dict(cls=_cls_name(e), args=[encs(a) for a in e.args])


def enc_val(v):
  """a batch element as the model sees it: an Exception instance or not"""
  if isinstance(v, Exception):
    return dict(e=enc_exc(v))
  return dict(p=encs(v))


class ValuesSource:
  """the iterator handed to init_generator: yields the decoded tokens, then ends as `fin` says"""

  def __init__(self, yields, fin):
    self.yields, self.fin, self.i = list(yields), fin, 0

  def __iter__(self):
    return self

  def __next__(self):
    if self.i < len(self.yields):
      self.i += 1
      return decode(self.yields[self.i - 1])
    if self.i == len(self.yields):
      self.i += 1
      if 'raise' in self.fin:
        raise decode(self.fin['raise'])
      raise StopIteration(*[decode(a) for a in self.fin['ret']])
    raise StopIteration()


def values_source(yields, fin):
  return ValuesSource(yields, fin)


def expected(case):
  """the oracle's reference: the plain Python iteration of the same iterator"""
  it = iter(values_source(case['yields'], case['fin']))
  ys = []
  while True:
    try:
      ys.append(enc_val(next(it)))
    except StopIteration as e:
      return dict(yielded=ys, returned=[None if e.value is None else encs(e.value)], exhausted=True, raised=None)
    except Exception as e:  # pylint: disable=broad-except
      return dict(yielded=ys, returned=[], exhausted=False, raised=enc_exc(e))


# ------------------------------------------------------------------ the real run

def _run(case, timeout):
  from harness import fakecourier
  fakecourier.install()
  fakecourier.reset(mode=case.get('mode', 'inline'))
  from ml_metrics._src.chainables import courier_server, lazy_fns
  from ml_metrics._src.utils import courier_utils
  server = courier_server.PrefetchedCourierServer(prefetch_size=case['prefetch'])
  _KEEP.append(server)
  server.start()
  try:
    cl = courier_utils.CourierClient(server.address, iterate_batch_size=case['batch'])
    _KEEP.append(cl)
    task = courier_utils.GeneratorTask.new(lazy_fns.trace(values_source)(case['yields'], case['fin']))
    rq = _queue.SimpleQueue()
    got = []

    out = dict(yielded=got, returned=[], exhausted=False, raised=None, hang=False)

    async def consume():
      # the loop's own exception is recorded HERE: asyncio.TimeoutError is the builtin TimeoutError, which a generator may raise
      try:
        async for x in cl.async_iterate(task, generator_result_queue=rq):
          got.append(enc_val(x))
        out['exhausted'] = True
      except Exception as e:  # pylint: disable=broad-except
        out['raised'] = enc_exc(e)
    try:
      asyncio.run(asyncio.wait_for(consume(), timeout=timeout))
    except asyncio.TimeoutError:
      out['hang'] = True
    while not rq.empty():
      v = rq.get()
      out['returned'].append(None if v is None else encs(v))
    return out
  finally:
    try:
      server.stop().join(timeout=5)
    except Exception:  # pylint: disable=broad-except
      pass


def run_values(case, timeout=8.0):
  """on a daemon thread (the server must not install signal handlers in the worker's main thread; a blocked run must
  not hang the check)"""
  import logging
  box = {}

  def body():
    try:
      box['r'] = _run(case, timeout)
    except BaseException as e:  # pylint: disable=broad-except
      box['e'] = e
  logging.disable(logging.CRITICAL)
  hook = threading.excepthook
  threading.excepthook = lambda args: None       # a failing generator's prefetch thread ends with its exception
  try:
    th = threading.Thread(target=body, daemon=True)
    th.start()
    th.join(timeout + 20)
    if th.is_alive():
      return dict(stage='values', yielded=[], returned=[], exhausted=False, raised=None, hang=True, stuck=True)
    if 'e' in box:
      raise box['e']
    return dict(box['r'], stage='values')
  finally:
    threading.excepthook = hook
    logging.disable(logging.NOTSET)


# ------------------------------------------------------------------ model side

def tok_val(t):
  return enc_val(decode(t))


def model_request(case):
  fin = case['fin']
  if 'raise' in fin:
    f = dict(**{'raise': enc_exc(decode(fin['raise']))})
  else:
    f = dict(ret=[encs(decode(a)) for a in fin['ret']])
  return dict(model='prefetchclient', batch=case['batch'], yields=[tok_val(t) for t in case['yields']], fin=f,
              variant='shipped')


def model_obs(case, resp):
  outs = []
  for o in resp['outcomes']:
    outs.append(dict(yielded=o['yielded'], returned=[None if r == 'null' else r for r in o['returned']],
                     exhausted=o['exhausted'], raised=o['raised']))
  return dict(stage='values', outcomes=outs)


def _core(o):
  return dict(yielded=o['yielded'], returned=o['returned'], exhausted=o['exhausted'], raised=o['raised'])


def compare(obs, m):
  if obs.get('hang'):
    live = [o for o in m['outcomes'] if not o['exhausted'] and o['raised'] is None]
    return None if live else f'the real client loop never ended; the model ends with {m["outcomes"]}'
  if _core(obs) in m['outcomes']:
    return None
  return f'client-visible result differs: real {_core(obs)} vs model {m["outcomes"]}'


def oracle(case, obs):
  want = expected(case)
  if obs.get('hang'):
    return (f'the client loop did not end within the time limit (it keeps polling next_batch_from_generator / a request '
            f'stays blocked); so far it yielded {obs["yielded"]}; the generator is {want}')
  got = _core(obs)
  if got['yielded'] != want['yielded']:
    return f'the client yielded {got["yielded"]}; the generator yields {want["yielded"]}'
  if want['raised'] is not None:
    if got['raised'] != want['raised']:
      return (f'the generator fails with {want["raised"]} after {len(want["yielded"])} elements; the client ended with '
              f'raised={got["raised"]} returned={got["returned"]}')
    if got['returned']:
      return f'a failing generator delivered an end marker: returned={got["returned"]}'
  else:
    if got['raised'] is not None:
      return f'the generator ends normally returning {want["returned"]}; the client raised {got["raised"]}'
    if got['returned'] != want['returned']:
      return f'end marker carries {got["returned"]}; the generator returns {want["returned"]}'
  return None
