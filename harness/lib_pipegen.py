"""Random operator chains for C08 / C12: a typed generator (most chains are meaningful) with a malformed share.

The generator follows a symbolic *schema* of the records between the operators so that input keys exist and the
chosen function fits them; `wild` cases pick keys / functions / options without looking at the schema.
Schema: ('rec', {name: type}) for dict records, ('val', type) otherwise.
Types: int, bool, col (list of ints), nested ({'d': int, 'l': col}), t2 (tuple of two ints), dictuv ({'u','v'}), any.
"""
from __future__ import annotations

N = lambda s: {'n': s}
P = lambda *segs: {'p': list(segs)}
SELF, SKIP = {'self': 1}, {'skip': 1}
FRESH = ['x', 'y', 'z', 'p', 'q', 'r', 's', 't']
# SC18: record keys / output names that are PLAIN str spelled like the reserved keys (Reserved('SELF') == 'SELF').
# Shape 'rdict' = records {'SELF': int, 'SKIP': int, 'c': {'SELF': int, 'SKIP': [int, int]}}; chains over it draw
# their fresh output names from FRESH_R, so the spellings occur as input keys, output keys, assign keys, select
# keys, nested path segments and dict-form record keys.
RESERVED_NAMES = ['SELF', 'SKIP']
FRESH_R = ['SELF', 'SKIP', 'x', 'y', 'SKIP', 'SELF', 'z', 'q']


def wl(xs):
  return {'l': list(xs)}


def wd(**kw):
  return {'d': kw}


def make_items(rng, shape, n):
  """Wire values of the source records."""
  items = []
  for i in range(n):
    a, b = rng.randrange(0, 9), rng.randrange(0, 9)
    if shape == 'dict':
      items.append(wd(a=a, b=b, c=wd(d=rng.randrange(0, 9), l=wl([a + 10, b + 10]))))
    elif shape == 'rdict':
      items.append(wd(SELF=a, SKIP=b, c=wd(SELF=rng.randrange(0, 9), SKIP=wl([a + 10, b + 10]))))
    elif shape == 'int':
      items.append(a)
    elif shape == 'cols':
      k = rng.choice([1, 2, 2, 3])
      v = [rng.randrange(0, 9) for _ in range(k)]
      items.append(wd(v=wl(v), w=wl([x + 20 for x in v])))
    elif shape == 'colsfix':       # every batch has the same number of rows (aligned domain of Assign + batch_size)
      v = [rng.randrange(0, 9) for _ in range(2)]
      items.append(wd(v=wl(v), w=wl([x + 20 for x in v])))
    elif shape == 't2':
      items.append({'t': [a, b]})
    else:
      raise ValueError(shape)
  return items


def schema_of(shape):
  return {'dict': ('rec', {'a': 'int', 'b': 'int', 'c': 'nested'}), 'int': ('val', 'int'),
          'rdict': ('rec', {'SELF': 'int', 'SKIP': 'int', 'c': 'rnested'}),
          'cols': ('rec', {'v': 'col', 'w': 'col'}), 'colsfix': ('rec', {'v': 'col', 'w': 'col'}),
          't2': ('val', 't2')}[shape]


def readable(schema, rng):
  """[(key, type)] of the places that can be read."""
  out = []
  kind, body = schema
  if kind == 'val':
    out.append((SELF, body))
    if body == 't2':
      out += [({'i': 0}, 'int'), (P(1), 'int')]
    if body == 'col':
      out += [({'i': 0}, 'int')]
    if body == 'dictuv':
      out += [(N('u'), 'int'), (P('v'), 'int')]
    return out
  for name, t in body.items():
    out.append((N(name) if rng.random() < 0.7 else P(name), t))
    if t == 'nested':
      out += [(P(name, 'd'), 'int'), (P(name, 'l'), 'col'), (P(name, 'l', rng.randrange(2)), 'int')]
    if t == 'rnested':
      out += [(P(name, 'SELF'), 'int'), (P(name, 'SKIP'), 'col'), (P(name, 'SKIP', rng.randrange(2)), 'int')]
    if t == 't2':
      out += [(P(name, rng.randrange(2)), 'int')]
    if t == 'dictuv':
      out += [(P(name, 'u'), 'int')]
    if t == 'col':
      out += [(P(name, 0), 'int')]
  out.append((SELF, 'rec'))
  return out


# name -> (input types, output types); 'any' accepts everything
FN_TABLE = {
    'add1': (['int'], ['int']), 'neg': (['int'], ['int']), 'ident': (['any'], ['same']),
    'pair': (['int'], ['int', 'int']), 'triple': (['int'], ['int', 'int', 'int']),
    'mk_dict': (['int'], ['dictuv']), 'sum2': (['int', 'int'], ['int']), 'swap': (['any', 'any'], ['same1', 'same0']),
    'wrap1': (['any'], ['same']), 'counter': (['any'], ['int']), 'is_even': (['int'], ['bool']),
    'first': (['col'], ['int']), 'tup': (['any', 'any'], ['same0', 'same1']), 'const': (['any'], ['int']),
    'gt': (['int'], ['bool']),
    'v_add1': (['col'], ['col']), 'v_pair': (['col'], ['col', 'col']), 'v_sum2': (['col', 'col'], ['col']),
}


def mk_fn(rng, name):
  if name == 'const':
    return {'f': 'const', 'c': rng.randrange(5)}
  if name == 'gt':
    return {'f': 'gt', 'c': rng.randrange(2, 7)}
  return {'f': name}


def fits(t, want):
  return want == 'any' or t == want or (want == 'int' and t == 'bool')


def pick_inputs(rng, schema, want):
  """keys (and their types) for the parameter types `want`, or None."""
  cands = readable(schema, rng)
  keys, types = [], []
  for w in want:
    c = [(k, t) for k, t in cands if fits(t, w)]
    if w == 'int' and rng.random() < 0.08:
      c = [({'lit': rng.randrange(10)}, 'int')]
    if not c:
      return None
    k, t = rng.choice(c)
    keys.append(k)
    types.append(t)
  return keys, types


def in_spec(rng, keys, params):
  """one of the input key shapes for the chosen keys"""
  r = rng.random()
  if r < 0.2 and params and len(params) == len(keys):
    return {'kw': [[p, k] for p, k in zip(params, keys)]}
  if len(keys) == 1 and r < 0.75:
    return {'one': keys[0]}
  return {'many': keys}


PARAMS = {'add1': ['x'], 'neg': ['x'], 'ident': ['x'], 'pair': ['x'], 'triple': ['x'], 'mk_dict': ['x'],
          'sum2': ['x', 'y'], 'swap': ['x', 'y'], 'wrap1': ['x'], 'is_even': ['x'], 'first': ['x'], 'gt': ['x'],
          'fail_on': ['x'], 'v_add1': ['x'], 'v_pair': ['x'], 'v_sum2': ['x', 'y'], 'v_fail_on': ['x'],
          'counter': None, 'tup': None, 'const': None}


def out_types(fname, in_types):
  outs = []
  for o in FN_TABLE[fname][1]:
    if o == 'same':
      outs.append(in_types[0])
    elif o == 'same0':
      outs.append(in_types[0])
    elif o == 'same1':
      outs.append(in_types[1])
    else:
      outs.append(o)
  return outs


def fresh_names(rng, taken, n, pool=None):
  free = []
  for x in (FRESH if pool is None else pool):
    if x not in taken and x not in free:
      free.append(x)
  rng.shuffle(free)
  if pool is not None and rng.random() < 0.7:       # the reserved spellings first, when they are free
    free.sort(key=lambda x: x not in RESERVED_NAMES)
  return free[:n] if len(free) >= n else None


def out_spec(rng, otypes, taken, allow_self=True, pool=None):
  """-> (spec, new entries {name: type} | ('val', t) | None)"""
  n = len(otypes)
  r = rng.random()
  if allow_self and r < 0.15:
    return {'one': SELF}, ('val', otypes[0] if n == 1 else ('t2' if otypes == ['int', 'int'] else 'any'))
  if n == 1 and otypes[0] == 'dictuv' and r < 0.5:
    nm = fresh_names(rng, taken, 2, pool)
    if nm:
      return {'one': {'dk': [[nm[0], N('u')], [nm[1], P('v')]]}}, {nm[0]: 'int', nm[1]: 'int'}
  if n > 1 and r < 0.3:
    nm = fresh_names(rng, taken, 1, pool)
    if nm:
      return {'one': N(nm[0])}, {nm[0]: 't2' if otypes == ['int', 'int'] else 'any'}
  nm = fresh_names(rng, taken, n, pool)
  if nm is None:
    return None, None
  keys, entries = [], {}
  for name, t in zip(nm, otypes):
    r2 = rng.random()
    if r2 < 0.12 and n > 1:
      keys.append(SKIP)
    elif r2 < 0.22:
      keys.append(P(name, 'w'))
      entries[name] = 'any'
    elif r2 < 0.3:
      keys.append(P(name))
      entries[name] = t
    else:
      keys.append(N(name))
      entries[name] = t
  if n == 1 and rng.random() < 0.6:
    return {'one': keys[0]}, entries
  return {'many': keys}, entries


def gen_chain(rng, shape, max_len, fail=None, batchy=0.15):
  """-> specs.  `fail`: {'kind': err kind, 'values': [..]} makes one function a fail_on."""
  schema = schema_of(shape)
  names_pool = FRESH_R if shape == 'rdict' else None
  specs = []
  n = rng.randrange(1, max_len + 1)
  fail_at = rng.randrange(n) if fail else -1
  tries = 0
  while len(specs) < n and tries < 60:
    tries += 1
    kind, body = schema
    taken = set(body) if kind == 'rec' else set()
    op = rng.choice(['select', 'apply', 'apply', 'assign', 'assign', 'filter', 'sink', 'batch'])
    want_fail = fail and len(specs) == fail_at
    cols = kind == 'rec' and any(t == 'col' for t in body.values())
    if op == 'batch':
      # only where its meaning is clear: first, or right after a select / apply with plain keys
      ok_pos = not specs or (specs[-1]['op'] in ('select', 'apply') and 'clear' in specs[-1])
      if not ok_pos or want_fail or cols:
        continue
      specs.append({'op': 'batch', 'n': rng.choice([0, 1, 2, 3])})
      schema = (kind, {k: 'col' for k in body}) if kind == 'rec' else ('val', 'col')
      if kind == 'rec' and specs[-2:-1] and specs[-2]['op'] in ('select', 'apply'):
        schema = ('rec', {k: 'col' for k in specs[-2]['clear']})
      continue
    if op == 'select':
      if kind != 'rec' or want_fail or not body:
        continue
      names = list(body)
      rng.shuffle(names)
      names = names[:rng.randrange(1, min(3, len(names)) + 1)]
      keys = [N(x) for x in names]
      sp = {'op': 'select', 'in': {'one': keys[0]} if len(keys) == 1 and rng.random() < 0.5 else {'many': keys}}
      new = {x: body[x] for x in names}
      if rng.random() < (0.3 if names_pool is None else 0.5):
        nm = fresh_names(rng, taken, len(keys), names_pool)
        if nm:
          sp['out'] = {'many': [N(x) for x in nm]} if len(nm) > 1 or rng.random() < 0.5 else {'one': N(nm[0])}
          new = {o: body[x] for o, x in zip(nm, names)}
      if all(t == 'col' for t in new.values()) and rng.random() < batchy * 2:
        sp['batch'] = rng.choice([1, 2, 3])
      sp['clear'] = list(new)
      specs.append(sp)
      schema = ('rec', new)
      continue
    if op in ('filter', 'sink'):
      if op == 'filter':
        fname = rng.choice(['is_even', 'gt', 'ident'])
      else:
        fname = rng.choice(['ident', 'ident', 'tup', 'const', 'sum2'])
      if want_fail:
        fname = 'fail_on'
      want = ['int'] if fname == 'fail_on' else FN_TABLE[fname][0]
      if op == 'filter' and fname == 'ident':
        want = [rng.choice(['int', 'int', 'col'])]      # a predicate returns a truth value, never a tuple
      got = pick_inputs(rng, schema, want)
      if got is None:
        continue
      keys, _ = got
      fn = {'f': 'fail_on', 's': fail['values'], 'kind': fail['kind']} if fname == 'fail_on' else mk_fn(rng, fname)
      sp = {'op': op, 'fn': fn, 'in': in_spec(rng, keys, PARAMS.get(fname))}
      if op == 'sink':
        sp['is_sink'] = True
      specs.append(sp)
      continue
    # apply / assign
    use_cols = cols and rng.random() < 0.7
    if want_fail:
      fname = 'v_fail_on' if use_cols else 'fail_on'
      want, otypes_of = (['col'], ['col']) if use_cols else (['int'], ['int'])
    else:
      pool = ['v_add1', 'v_pair', 'v_sum2', 'ident'] if use_cols else \
          ['add1', 'neg', 'ident', 'pair', 'triple', 'mk_dict', 'sum2', 'swap', 'wrap1', 'counter', 'is_even', 'first',
           'tup', 'const']
      fname = rng.choice(pool)
      want = FN_TABLE[fname][0]
    got = pick_inputs(rng, schema, want)
    if got is None:
      continue
    keys, types = got
    otypes = otypes_of if want_fail else out_types(fname, types)
    if want_fail:
      fn = {'f': fname, 's': fail['values'], 'kind': fail['kind']}
    else:
      fn = mk_fn(rng, fname)
    if op == 'apply':
      ospec, entries = out_spec(rng, otypes, set(), pool=names_pool)
    else:
      ospec, entries = out_spec(rng, otypes, taken, allow_self=False, pool=names_pool)
      if kind != 'rec':
        continue
    if ospec is None:
      continue
    sp = {'op': op, 'fn': fn, 'in': in_spec(rng, keys, PARAMS.get(fname)),
          ('out' if op == 'apply' else 'keys'): ospec}
    nkeys = 1 if 'one' in ospec else len(ospec['many'])
    if use_cols and all(t == 'col' for t in otypes) and 'self' not in str(ospec) and 'skip' not in str(ospec) \
        and nkeys == len(otypes) and rng.random() < 0.6:
      if op == 'apply' or shape == 'colsfix':
        sp['batch'] = 2 if op == 'assign' else rng.choice([1, 2, 3])
        sp['fn_batch'] = rng.choice([0, 0, 1, 2, 3]) if op == 'apply' else rng.choice([0, 2])
    specs.append(sp)
    if op == 'apply':
      if isinstance(entries, tuple):
        schema = entries
      else:
        schema = ('rec', entries)
        if all('n' in k for k in (ospec.get('many') or [ospec['one']])):
          sp['clear'] = list(entries)
    else:
      schema = ('rec', {**body, **entries})
  for sp in specs:
    sp.pop('clear', None)
  return specs


def strip(specs):
  return specs


WILD_KEYS = [N('a'), N('b'), N('zz'), P('c', 'd'), P('c', 'l', 5), P('a', 'q'), SELF, SKIP, {'lit': 7}, {'i': 0},
             N('v'), P('c')]


WILD_KEYS_R = [N('SELF'), N('SKIP'), P('c', 'SELF'), P('c', 'SKIP', 0), P('SELF'), P('SKIP', 'q'), SELF, SKIP, {'lit': 7},
               N('zz'), P('c'), N('SKIP'), N('SELF')]
WILD_OUT_R = [N('SELF'), N('SKIP'), N('x'), SKIP, SELF, P('SELF', 'w'), P('z', 'SKIP'), P('SKIP'),
              {'dk': [['SKIP', N('u')], ['SELF', N('v')]]}, {'dk': [['s', N('u')]]}, {'lit': 5}]


def gen_wild(rng, max_len, reserved_names=False):
  """specs chosen without looking at the records: exercises the builder's checks and run-time routing errors.
  `reserved_names`: keys are drawn from the pools in which plain names are spelled like the reserved keys."""
  if reserved_names:
    global WILD_KEYS
    saved = WILD_KEYS
    WILD_KEYS = WILD_KEYS_R
    try:
      specs = gen_wild(rng, max_len)
    finally:
      WILD_KEYS = saved
    for sp in specs:
      if sp['op'] == 'aggregate':      # aggregate output keys stay as the plain wild arm draws them
        continue
      for part in ('out', 'keys'):
        if sp.get(part) and rng.random() < 0.8:
          ks = [rng.choice(WILD_OUT_R) for _ in (sp[part].get('many') or [0])]
          sp[part] = {'one': ks[0]} if 'one' in sp[part] else {'many': ks}
    return specs
  specs = []
  for _ in range(rng.randrange(1, max_len + 1)):
    op = rng.choice(['select', 'apply', 'assign', 'filter', 'sink', 'batch', 'aggregate', 'assign'])
    nin = rng.choice([0, 1, 1, 1, 2])
    keys = [rng.choice(WILD_KEYS) for _ in range(nin)]
    r = rng.random()
    ins = {'kw': [[p, k] for p, k in zip(['x', 'y'], keys)]} if r < 0.2 and nin else \
        {'one': keys[0]} if nin == 1 and r < 0.7 else {'many': keys}
    fname = rng.choice(['add1', 'pair', 'swap', 'sum2', 'ident', 'tup', 'const', 'mk_dict', 'empty', 'wrap1', 'counter'])
    fn = mk_fn(rng, fname) if rng.random() < 0.9 else None
    nout = rng.choice([0, 1, 1, 2, 2, 3])
    okeys = [rng.choice([N('x'), N('y'), N('a'), N('x'), SKIP, SELF, P('z', 'w'), P('z', 0), {'lit': 5},
                         {'dk': [['s', N('u')], ['t', N('v')]]}, {'i': 1}]) for _ in range(nout)]
    outs = {'one': okeys[0]} if nout == 1 and rng.random() < 0.6 else {'many': okeys}
    fb, b = rng.choice([(0, 0), (0, 0), (0, 0), (0, 2), (2, 2), (2, 0)])
    if b and (nin == 0 or not all(k in (N('v'), N('a'), N('zz')) for k in keys)):
      b = 0          # re-batching is exercised on list columns (and scalars / missing keys), not on dict values
    if op == 'select':
      sp = {'op': 'select', 'in': ins}
      if rng.random() < 0.4:
        sp['out'] = outs
      if b and rng.random() < 0.3:
        sp['batch'] = b
    elif op == 'apply':
      sp = {'op': 'apply', 'fn': fn, 'in': ins, 'out': outs, 'fn_batch': fb, 'batch': b}
    elif op == 'assign':
      sp = {'op': 'assign', 'fn': fn, 'in': ins, 'keys': outs, 'fn_batch': fb, 'batch': b}
    elif op == 'filter':
      sp = {'op': 'filter', 'fn': mk_fn(rng, rng.choice(['is_even', 'gt', 'const', 'pair'])), 'in': ins}
    elif op == 'sink':
      sp = {'op': 'sink', 'fn': mk_fn(rng, rng.choice(['ident', 'tup', 'const'])), 'in': ins,
            'is_sink': rng.random() < 0.85}
    elif op == 'batch':
      sp = {'op': 'batch', 'n': rng.choice([0, 1, 2])}
    else:
      sp = {'op': 'aggregate', 'has_fn': rng.random() < 0.8,
            'out': {'one': rng.choice([SELF, N('m')])} if rng.random() < 0.7 else {'many': [N('m'), rng.choice([N('m2'), SELF])]}}
    specs.append(sp)
  if all(sp['op'] == 'aggregate' for sp in specs):     # an empty pipeline cannot be iterated at all
    specs.insert(0, {'op': 'select', 'in': {'one': SELF}})
  return specs


# ----------------------------------------------------------------------------- value shapes (round 9, package SC08b)
# Record VALUES that are themselves containers whose shape interacts with the packing conventions of the operators
# (`_get_inputs` returns the TUPLE of selected values, `_identity_fn(*x) = x`, `_normalize_outputs` wraps a non-tuple
# result and re-wraps for SELF, `_get_outputs` gives ONE key the whole tuple of several outputs and zips otherwise):
# tuples of length 0 / 1 / 2 / 3 (also nested, also holding None), lists of length 0 / 1 / 2, None, dicts, scalars.
# `vs_value(shape, seed)`: the wire value; the ints inside vary with `seed` so that different keys / records differ.

def vs_value(shape, seed=0):
  a, b, c = 10 + seed, 20 + seed, 30 + seed
  return {
      't0': {'t': []}, 't1': {'t': [a]}, 't1-of-t2': {'t': [{'t': [a, b]}]}, 't1-of-t1': {'t': [{'t': [a]}]},
      't1-of-none': {'t': [None]}, 't1-of-l1': {'t': [wl([a])]}, 't2': {'t': [a, b]}, 't2-of-t1': {'t': [{'t': [a]}, {'t': [b]}]},
      't3': {'t': [a, b, c]}, 'l0': wl([]), 'l1': wl([a]), 'l1-of-t1': wl([{'t': [a]}]), 'l2': wl([a, b]), 'l3': wl([a, b, c]),
      'none': None, 'dict': wd(u=a, v=b), 'dict-of-t1': wd(u={'t': [a]}), 'dict0': wd(), 'int': a, 'str': f's{a}', 'bool': bool(seed % 2),
  }[shape]


VS_SHAPES = ['t0', 't1', 't1-of-t2', 't1-of-t1', 't1-of-none', 't1-of-l1', 't2', 't2-of-t1', 't3', 'l0', 'l1', 'l1-of-t1', 'l2', 'l3',
             'none', 'dict', 'dict-of-t1', 'dict0', 'int', 'str', 'bool']
# shapes that are columns (list / tuple of rows): the batched arms
VS_COLUMN_SHAPES = ['t0', 't1', 't1-of-t1', 't2', 't2-of-t1', 't3', 'l0', 'l1', 'l1-of-t1', 'l2', 'l3']


def classify_value(v):
  """generic shape label of a WIRE value (coverage is computed from the case, not from the generator's intention)"""
  if v is None:
    return 'none'
  if isinstance(v, bool):
    return 'bool'
  if isinstance(v, int):
    return 'int'
  if isinstance(v, str):
    return 'str'
  if 't' in v or 'l' in v:
    kind = 't' if 't' in v else 'l'
    xs = v[kind]
    lab = f'{kind}{min(len(xs), 3)}'
    if len(xs) == 1 and kind == 't' and xs[0] is not None and not isinstance(xs[0], (bool, int, str)):
      lab += '-of-container'
    elif len(xs) == 1 and kind == 't' and xs[0] is None:
      lab += '-of-none'
    return lab
  if 'd' in v:
    return 'dict' if v['d'] else 'dict0'
  return 'other'


VS_LABELS = ['t0', 't1', 't1-of-container', 't1-of-none', 't2', 't3', 'l0', 'l1', 'l2', 'l3', 'none', 'dict', 'dict0', 'int', 'str', 'bool']
VS_COLUMN_LABELS = ['t0', 't1', 't1-of-container', 't2', 't3', 'l0', 'l1', 'l2', 'l3']
VS_NAMES = ['a', 'b', 'c']
VS_OUT = ['x', 'y', 'z']


def vs_records(shape, nrec=2, rows=None):
  """dict records {'a','b','c': values of `shape`, 'k': int, 'n': {'d': value}}"""
  out = []
  for i in range(nrec):
    out.append(wd(a=vs_value(shape, 3 * i), b=vs_value(shape, 3 * i + 1), c=vs_value(shape, 3 * i + 2), k=i,
                  n=wd(d=vs_value(shape, 3 * i + 5))))
  return out


def vs_in_spec(nin, form):
  keys = [N(x) for x in VS_NAMES[:nin]]
  if form == 'path':
    keys[0] = P('n', 'd')
  if form == 'self':
    keys[0] = SELF
  if nin == 1 and form in ('one', 'path', 'self'):
    return {'one': keys[0]}
  return {'many': keys}


def vs_out_spec(nout, form='names'):
  keys = [N(x) for x in VS_OUT[:nout]]
  if form == 'path':
    keys[0] = P('x', 'w')
  if form == 'self':
    keys[0] = SELF
  if nout == 1 and form != 'many':
    return {'one': keys[0]}
  return {'many': keys}


def value_shape_cases(mk_case):
  """The systematic table operator kind x #inputs (1..3) x #outputs (1..3) x value shape, with and without a user
  function, with and without batch sizes.  `mk_case(specs, items, **kw)` builds the case."""
  f = lambda n, **kw: dict(f=n, **kw)
  i = 0
  for shape in VS_SHAPES:
    recs = vs_records(shape)
    whole = [vs_value(shape, 0), vs_value(shape, 1)]            # the value IS the record
    for nin in (1, 2, 3):
      in_forms = ['one', 'many', 'path'] if nin == 1 else ['many', 'path'] if nin == 2 else ['many']
      for nout in (1, 2, 3):
        for inf in in_forms:
          i += 1
          ins = vs_in_spec(nin, inf)
          outf = 'names' if i % 3 else ('path' if i % 2 else 'many')
          outs = vs_out_spec(nout, outf)
          # --- without a function: select / apply / assign only route
          sel = {'op': 'select', 'in': ins, 'out': outs}
          yield mk_case([sel], recs, tag='value-shape')
          yield mk_case([{'op': 'apply', 'fn': None, 'in': ins, 'out': outs}], recs, tag='value-shape')
          yield mk_case([{'op': 'assign', 'fn': None, 'in': ins, 'keys': outs}], recs, tag='value-shape')
          # --- with a function that hands its arguments on: `tup` returns the tuple of its arguments, `ident` its one
          #     argument (a tuple VALUE returned by a function is several outputs), `wrap1` a 1-tuple of it
          fn = f('ident') if nin == 1 and i % 2 else f('tup')
          yield mk_case([{'op': 'apply', 'fn': fn, 'in': ins, 'out': outs}], recs, tag='value-shape')
          yield mk_case([{'op': 'assign', 'fn': fn, 'in': ins, 'keys': outs}], recs, tag='value-shape')
          if nin == 1:
            yield mk_case([{'op': 'apply', 'fn': f('wrap1'), 'in': ins, 'out': outs}], recs, tag='value-shape')
        # a function RETURNING a value of this shape (whatever it is given)
        yield mk_case([{'op': 'apply', 'fn': f('const', c=vs_value(shape, 7)), 'in': vs_in_spec(nin, 'many'), 'out': vs_out_spec(nout)}],
                      recs, tag='value-shape')
        yield mk_case([{'op': 'assign', 'fn': f('const', c=vs_value(shape, 7)), 'in': vs_in_spec(nin, 'many'), 'keys': vs_out_spec(nout)}],
                      recs, tag='value-shape')
      # select with its default output keys (= the input keys), SELF as the one output key, kwargs
      yield mk_case([{'op': 'select', 'in': vs_in_spec(nin, 'one' if nin == 1 else 'many')}], recs, tag='value-shape')
      yield mk_case([{'op': 'select', 'in': vs_in_spec(nin, 'many'), 'out': {'one': SELF}}], recs, tag='value-shape')
      yield mk_case([{'op': 'apply', 'fn': None, 'in': vs_in_spec(nin, 'many'), 'out': {'one': SELF}}], recs, tag='value-shape')
      yield mk_case([{'op': 'apply', 'fn': f('tup'), 'in': vs_in_spec(nin, 'many'), 'out': {'one': SELF}}], recs, tag='value-shape')
      # a function RETURNING a value of this shape into SELF (the SELF re-wrap of `_normalize_outputs`)
      yield mk_case([{'op': 'apply', 'fn': f('const', c=vs_value(shape, 7)), 'in': vs_in_spec(nin, 'many'), 'out': {'one': SELF}}],
                    recs, tag='value-shape')
      yield mk_case([{'op': 'apply', 'fn': f('const', c=vs_value(shape, 7)), 'in': vs_in_spec(nin, 'many'), 'out': {'many': [SELF]}}],
                    recs, tag='value-shape')
      # filter / sink see the selected values as they are
      yield mk_case([{'op': 'sink', 'fn': f('tup'), 'in': vs_in_spec(nin, 'many'), 'is_sink': True}], recs, tag='value-shape')
      yield mk_case([{'op': 'filter', 'fn': f('const', c=1), 'in': vs_in_spec(nin, 'many')}], recs, tag='value-shape')
      if nin == 1:
        yield mk_case([{'op': 'sink', 'fn': f('ident'), 'in': {'kw': [['x', N('a')]]}, 'is_sink': True}], recs, tag='value-shape')
        yield mk_case([{'op': 'filter', 'fn': f('ident'), 'in': {'one': N('a')}}], recs, tag='value-shape')
        yield mk_case([{'op': 'apply', 'fn': f('ident'), 'in': {'kw': [['x', N('a')]]}, 'out': {'one': N('x')}}], recs, tag='value-shape')
    # the value as the WHOLE record
    for nout in (1, 2, 3):
      outs = vs_out_spec(nout)
      yield mk_case([{'op': 'select', 'in': {'one': SELF}, 'out': outs}], whole, tag='value-shape')
      yield mk_case([{'op': 'apply', 'fn': None, 'in': {'one': SELF}, 'out': outs}], whole, tag='value-shape')
      yield mk_case([{'op': 'apply', 'fn': f('ident'), 'in': {'one': SELF}, 'out': outs}], whole, tag='value-shape')
    yield mk_case([{'op': 'apply', 'fn': None, 'in': {'one': SELF}, 'out': {'one': SELF}}], whole, tag='value-shape')
    yield mk_case([{'op': 'apply', 'fn': f('ident'), 'in': {'one': SELF}, 'out': {'one': SELF}}], whole, tag='value-shape')
    yield mk_case([{'op': 'apply', 'fn': f('wrap1'), 'in': {'one': SELF}, 'out': {'one': SELF}}], whole, tag='value-shape')
    yield mk_case([{'op': 'select', 'in': {'one': SELF}}], whole, tag='value-shape')
    yield mk_case([{'op': 'select', 'in': {'many': [SELF, SELF]}, 'out': {'many': [N('x'), N('y')]}}], whole, tag='value-shape')
    yield mk_case([{'op': 'sink', 'fn': f('ident'), 'in': {'one': SELF}, 'is_sink': True}], whole, tag='value-shape')
    yield mk_case([{'op': 'batch', 'n': 2}], whole + [vs_value(shape, 2)], tag='value-shape')
    # chains: the routed value has to survive several fn-less operators
    yield mk_case([{'op': 'filter', 'fn': f('gt', c=-1), 'in': {'one': N('k')}},
                   {'op': 'assign', 'fn': None, 'in': {'one': N('a')}, 'keys': {'one': N('y')}},
                   {'op': 'select', 'in': {'many': [N('y'), N('b')]}},
                   {'op': 'batch', 'n': 2}], vs_records(shape, 3), tag='value-shape')
    yield mk_case([{'op': 'select', 'in': {'many': [N('a'), N('b')]}, 'out': {'one': N('x')}},
                   {'op': 'select', 'in': {'one': P('x', 0)}, 'out': {'one': N('y')}},
                   {'op': 'apply', 'fn': None, 'in': {'one': N('y')}, 'out': {'one': SELF}}], recs, tag='value-shape')
  # --- with batch sizes: the values under the input keys are COLUMNS (list / tuple of rows) of that shape; None / int are
  #     not columns (TypeError from `_batch_size`).  NOT generated: dict values under a batched operator — `len()` works on a
  #     dict, `more_itertools.sliced` then raises KeyError(slice) (or, buffered with a list, `_concat` flattens its keys): the
  #     Rebatch model (C19, shared) knows list / tuple / array columns only and says TypeError at entry
  for shape in VS_COLUMN_SHAPES + ['none', 'int']:
    for nin in (1, 2, 3):
      recs = vs_records(shape, 3)
      ins = vs_in_spec(nin, 'one' if nin == 1 else 'many')
      same = {'many': [N(x) for x in VS_OUT[:nin]]} if nin > 1 else {'one': N('x')}
      for b in (1, 2):
        yield mk_case([{'op': 'select', 'in': ins, 'batch': b}], recs, tag='value-shape')
        yield mk_case([{'op': 'select', 'in': ins, 'out': same, 'batch': b}], recs, tag='value-shape')
        yield mk_case([{'op': 'apply', 'fn': None, 'in': ins, 'out': same, 'batch': b}], recs, tag='value-shape')
        yield mk_case([{'op': 'apply', 'fn': None, 'in': ins, 'out': same, 'fn_batch': 3 - b, 'batch': b}], recs, tag='value-shape')
        yield mk_case([{'op': 'apply', 'fn': f('tup'), 'in': {'many': ins.get('many', [ins.get('one')])}, 'out': same, 'fn_batch': b - 1, 'batch': b}],
                      recs, tag='value-shape')
        if nin > 1:
          yield mk_case([{'op': 'select', 'in': ins, 'out': {'one': N('x')}, 'batch': b}], recs, tag='value-shape')
      yield mk_case([{'op': 'select', 'in': ins}, {'op': 'batch', 'n': 2}], recs, tag='value-shape')
      # assign + batch_size on streams that are aligned when the column has exactly b rows
      rows = {'t1': 1, 't1-of-t1': 1, 'l1': 1, 'l1-of-t1': 1, 't2': 2, 't2-of-t1': 2, 'l2': 2, 't3': 3, 'l3': 3}.get(shape)
      if rows:
        yield mk_case([{'op': 'assign', 'fn': None, 'in': ins, 'keys': same, 'batch': rows}], recs, tag='value-shape')
        yield mk_case([{'op': 'assign', 'fn': f('tup'), 'in': {'many': ins.get('many', [ins.get('one')])}, 'keys': same, 'batch': rows}],
                      recs, tag='value-shape')


def gen_value_shape_chain(rng):
  """-> (specs, items): a random chain of 1..4 operators that only ROUTE (select, assign / apply without fn, apply of
  `tup`, a trailing batch) over dict records whose fields have INDEPENDENTLY drawn value shapes (mixed per record)."""
  shapes = {nm: rng.choice(VS_SHAPES) for nm in ('a', 'b', 'c', 'd')}
  nrec = rng.choice([1, 2, 3, 4])
  items = [wd(**{nm: vs_value(sh, 4 * i + j) for j, (nm, sh) in enumerate(shapes.items())}, k=i) for i in range(nrec)]
  have = list(shapes) + ['k']
  fresh = [x for x in FRESH]
  specs = []
  for _ in range(rng.randrange(1, 5)):
    nin = rng.choice([1, 1, 2, 2, 3])
    if len(have) < nin:
      break
    src = rng.sample(have, nin)
    ins = {'one': N(src[0])} if nin == 1 and rng.random() < 0.6 else {'many': [N(x) for x in src]}
    r = rng.random()
    names = [x for x in fresh if x not in have]
    if r < 0.35:                                    # assign without fn: copies under new names (or one name for all)
      nout = 1 if rng.random() < 0.3 else nin
      if len(names) < nout:
        break
      outs = names[:nout]
      specs.append({'op': 'assign', 'fn': None, 'in': ins, 'keys': {'one': N(outs[0])} if nout == 1 and rng.random() < 0.6 else {'many': [N(x) for x in outs]}})
      have = have + outs
    elif r < 0.7:                                   # select: default keys, renamed, or one key for all
      q = rng.random()
      if q < 0.4:
        specs.append({'op': 'select', 'in': ins})
        have = list(dict.fromkeys(src))
      else:
        nout = 1 if q < 0.6 else nin
        outs = (names + FRESH)[:nout]
        specs.append({'op': 'select', 'in': ins, 'out': {'one': N(outs[0])} if nout == 1 and rng.random() < 0.6 else {'many': [N(x) for x in outs]}})
        have = outs
    else:                                           # apply: without fn / tup
      nout = 1 if rng.random() < 0.3 else nin
      outs = (names + FRESH)[:nout]
      specs.append({'op': 'apply', 'fn': None if rng.random() < 0.6 else {'f': 'tup'}, 'in': {'many': [N(x) for x in src]} if 'one' not in ins or rng.random() < 0.5 else ins,
                    'out': {'one': N(outs[0])} if nout == 1 and rng.random() < 0.6 else {'many': [N(x) for x in outs]}})
      have = outs
  if specs and specs[-1]['op'] in ('select', 'apply') and rng.random() < 0.25:
    specs.append({'op': 'batch', 'n': rng.choice([1, 2])})
  return specs, items


def vs_arms(case):
  """The value-shape arms a case exercises, computed from the case itself: for the FIRST operator (it reads the source
  records as they are) `<kind><-fn|+fn><+batch>:in<n>:out<m>:<shape of the value under the first input key>`."""
  from harness import lib_pipe as L
  specs, items = case['specs'], case['src']['items']
  if not specs or not items:
    return []
  sp = specs[0]
  op = sp['op']
  if op in ('aggregate',):
    return []
  if op == 'batch':
    return [f'batch:in1:out1:{classify_value(items[0])}']
  names, in_keys = L._norm_in(sp['in'])          # pylint: disable=protected-access
  if not in_keys:
    return []
  try:
    k = in_keys[0]
    v = items[0]
    if 'self' in k:
      pass
    elif 'lit' in k or 'skip' in k:
      return []
    else:
      for s in ([k['n']] if 'n' in k else [k['i']] if 'i' in k else list(k['p'])):
        v = v['d'][s] if isinstance(s, str) else (v.get('l') or v.get('t'))[s]
  except Exception:  # pylint: disable=broad-except
    return []
  if op == 'select':
    out = sp.get('out')
    nout = len(L._norm_out(out)) if out is not None and L._norm_out(out) else len(in_keys)   # pylint: disable=protected-access
    fn = '-fn'
  elif op in ('apply', 'assign'):
    nout = len(L._norm_out(sp['out'] if op == 'apply' else sp['keys']))                       # pylint: disable=protected-access
    fn = '-fn' if sp.get('fn') is None else '+fn'
  else:
    nout, fn = 0, '+fn'
  b = '+batch' if sp.get('batch') or sp.get('fn_batch') else ''
  arms = [f'{op}{fn}{b}:in{min(len(in_keys), 3)}:out{min(nout, 3)}:{classify_value(v)}']
  outs = L._norm_out(sp.get('out') or sp.get('keys') or {'many': []})                           # pylint: disable=protected-access
  if len(outs) == 1 and 'self' in outs[0]:
    arms.append(f'{op}{fn}{b}:in{min(len(in_keys), 3)}:outSELF:{classify_value(v)}')
    if (sp.get('fn') or {}).get('f') == 'const':
      arms.append(f"{op}+fn{b}:outSELF:returns:{classify_value(sp['fn']['c'])}")
  elif (sp.get('fn') or {}).get('f') == 'const':
    arms.append(f"{op}+fn{b}:out{min(nout, 3)}:returns:{classify_value(sp['fn']['c'])}")
  return arms


def vs_required():
  """the promised grid (exit 2 if the generator misses one): operator kind x #inputs x #outputs x value shape"""
  need = []
  for lab in VS_LABELS:
    for nin in (1, 2, 3):
      for nout in (1, 2, 3):
        for kind in ('select-fn', 'apply-fn', 'assign-fn', 'apply+fn', 'assign+fn'):
          need.append(f'{kind}:in{nin}:out{nout}:{lab}')
      for kind in ('filter+fn', 'sink+fn'):
        need.append(f'{kind}:in{nin}:out0:{lab}')
      for kind in ('select-fn', 'apply-fn', 'apply+fn'):
        need.append(f'{kind}:in{nin}:outSELF:{lab}')
    # a function RETURNING a value of that shape, with 1 / 2 / 3 output keys and with SELF
    for out in ('out1', 'out2', 'out3', 'outSELF'):
      need.append(f'apply+fn:{out}:returns:{lab}')
    for out in ('out1', 'out2', 'out3'):
      need.append(f'assign+fn:{out}:returns:{lab}')
    need.append(f'batch:in1:out1:{lab}')
  for lab in VS_COLUMN_LABELS + ['none', 'int']:
    for nin in (1, 2, 3):
      for kind in ('select-fn+batch', 'apply-fn+batch', 'apply+fn+batch'):
        need.append(f'{kind}:in{nin}:out{nin}:{lab}')
      if nin > 1:
        need.append(f'select-fn+batch:in{nin}:out1:{lab}')
  for lab in ('t1', 't1-of-container', 'l1', 't2', 'l2', 't3', 'l3'):
    for nin in (1, 2, 3):
      for kind in ('assign-fn+batch', 'assign+fn+batch'):
        need.append(f'{kind}:in{nin}:out{nin}:{lab}')
  return need
