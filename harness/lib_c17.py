"""The fixed library of named Python callables used by the C17 check (mirrored by
`applyLib` in lean/MlModel/Model/Lazy.lean), value encoding, and the textbook LRU used by the oracle.

This module must stay importable by name (cloudpickle then pickles its functions and classes by
reference, as it does for any library code a user traces).
"""
import operator

LOG = []        # names of the library callables entered, in call order
STATE = {'counter': 0}


def reset():
  LOG.clear()
  STATE['counter'] = 0


class Rec:
  """A small frozen record: attribute access and item access by field name; hashable."""
  __slots__ = ('_f',)

  def __init__(self, **kw):
    object.__setattr__(self, '_f', tuple(kw.items()))

  def __getattr__(self, name):       # only reached when normal lookup fails
    if name == '_f' or (name.startswith('__') and name.endswith('__')):   # own slot / protocol probes
      raise AttributeError(name)
    for k, v in self._f:
      if k == name:
        return v
    raise AttributeError(name)

  def __setattr__(self, name, value):
    raise AttributeError('frozen')

  def __getitem__(self, key):
    for k, v in self._f:
      if isinstance(key, str) and k == key:
        return v
    raise KeyError(key)

  def __eq__(self, other):
    if not isinstance(other, Rec):
      return NotImplemented
    return self._f == other._f

  def __hash__(self):
    return hash(('Rec', self._f))

  def __repr__(self):
    return 'Rec(%s)' % ', '.join(f'{k}={v!r}' for k, v in self._f)

  def __getstate__(self):
    return self._f

  def __setstate__(self, st):
    object.__setattr__(self, '_f', st)


def _isint(x):
  return isinstance(x, int) and not isinstance(x, bool)


def add(a, b):
  LOG.append('add')
  if not (_isint(a) and _isint(b)):
    raise TypeError('add: ints only')
  return a + b


def mul(a, b=2):
  LOG.append('mul')
  if not (_isint(a) and _isint(b)):
    raise TypeError('mul: ints only')
  return a * b


def pair(a, b):
  LOG.append('pair')
  return (a, b)


def len_(x):
  LOG.append('len')
  if not isinstance(x, (tuple, str)):
    raise TypeError('len: tuple or str only')
  return len(x)


def ident(x):
  LOG.append('ident')
  return x


def mkrec(**kw):
  LOG.append('mkrec')
  return Rec(**kw)


def counter(x=0):
  """Stateful: the k-th call returns k."""
  LOG.append('counter')
  STATE['counter'] += 1
  return STATE['counter']


def failneg(x):
  LOG.append('failneg')
  if not _isint(x):
    raise TypeError('failneg: int only')
  if x < 0:
    raise ValueError('negative')
  return x


# ---- cached calls with unhashable / ambiguous-== arguments reached through distinct copies ('copies' cases)

class Amb:
  """Unhashable, picklable, and `==` has no truth value at all (an ndarray of several elements is the common case)."""
  __hash__ = None

  def __init__(self, data):
    self.data = list(data)

  def __eq__(self, other):
    raise ValueError('The truth value of an Amb comparison is ambiguous')


def flat(x):
  """canonical flat list of numbers of an argument value"""
  import numpy as np
  if isinstance(x, Amb):
    return list(x.data)
  if isinstance(x, dict):
    return list(x['w'])
  if isinstance(x, tuple) and x and isinstance(x[0], np.ndarray):
    return [float(v) for v in x[0].reshape(-1)]
  if x is None:
    return []
  return [float(v) for v in np.asarray(x, dtype=float).reshape(-1)]


def ones(n):
  LOG.append('ones')
  return [1] * n


class Model:
  """A 'model' that is expensive to build, hence built once and cached.  `serial` numbers the constructions in the
  process, so the identity of the object behind a result stays observable through a call chain."""
  COUNT = [0]

  def __init__(self, weights, bias=None):
    LOG.append('Model')
    Model.COUNT[0] += 1
    self.serial = Model.COUNT[0]
    self.weights = weights
    self.bias = bias

  def __call__(self, x):
    LOG.append('Model.call')
    return [w * x for w in flat(self.weights)], self.serial


def copy_arg(kind, weights):
  import numpy as np
  if kind == 'ndarray':
    return np.array(weights, dtype=float)
  if kind == 'ndarray2d':
    return np.array([weights, weights], dtype=float)
  if kind == 'ndarray1':
    return np.array(weights[:1], dtype=float)
  if kind == 'list':
    return list(weights)
  if kind == 'dict':
    return {'w': list(weights)}
  if kind == 'amb':
    return Amb(weights)
  if kind == 'tuple':
    return tuple(weights)
  if kind == 'int':
    return weights[0]
  if kind == 'tuple_arr':
    return (np.array(weights, dtype=float),)
  raise ValueError(kind)


LIB = {
    'add': add, 'mul': mul, 'pair': pair, 'len': len_, 'ident': ident, 'mkrec': mkrec,
    'counter': counter, 'failneg': failneg, 'getattr': getattr, 'getitem': operator.getitem,
}
NAME_OF = {id(f): n for n, f in LIB.items()}


class RefLRU:
  """Textbook least-recently-used cache of capacity `cap` (written from the definition, not from
  the code): entries ordered by last use; a hit or a put makes the entry the most recent one; a put
  beyond the capacity drops the least recently used entry."""

  def __init__(self, cap):
    self.cap = cap
    self.items = []          # [key, value], least recently used first

  def get(self, key):
    for i, (k, v) in enumerate(self.items):
      if k == key:
        self.items.append(self.items.pop(i))
        return True, v
    return False, None

  def put(self, key, value):
    for i, (k, _) in enumerate(self.items):
      if k == key:
        self.items.pop(i)
        break
    self.items.append([key, value])
    while len(self.items) > self.cap:
      self.items.pop(0)

  def clear(self):
    self.items = []

  def keys(self):
    return [k for k, _ in self.items]

  def __len__(self):
    return len(self.items)
