"""Deterministic cooperative scheduler + shims for `threading`, `queue`, `concurrent.futures`.

Purpose (DESIGN §4.3): drive the REAL ml_metrics code through a *chosen* thread schedule so that
"for all interleavings" is replayable and comparable with the Lean LTS.  No edit of /repo: the
harness replaces module attributes of the already-imported repo module
(`iter_utils.threading = shim.threading_module(sched)` …).

Execution model
  * every managed thread is a real OS thread, but only the thread holding the *baton* runs;
  * every shim operation (Lock/RLock acquire+release, Condition wait/notify/notify_all,
    Queue get_nowait/put_nowait/empty, Thread start/join, executor submit/shutdown, and the
    harness' own `step(label)` marker, e.g. inside a source iterator's __next__) is a YIELD
    POINT: the thread publishes the operation it is about to perform and returns the baton;
  * the scheduler asks the chooser to pick one *enabled* (tid, alt) pair; the chosen thread
    performs its pending operation atomically and runs on to its next yield point;
  * blocking is simulated: a thread whose pending operation is not enabled is simply not
    offered; "no enabled thread while some are unfinished" is reported as a deadlock instead
    of hanging;
  * `Condition.wait(timeout=t)` with t not None offers the extra alternative 'timeout'
    (the wait returns False) whenever the lock can be re-acquired; with t None it never fires.
  * `notify` wakes waiters in FIFO order, as CPython's Condition does.

The trace is the list of (tid, label) of executed operations.
"""
from __future__ import annotations

import collections
import concurrent.futures as _futures
import queue as _real_queue
import threading as _real_threading
import types as _types


class Deadlock(Exception):
  pass


class SchedulerError(Exception):
  pass


class _Op:
  """An operation a thread is about to perform."""
  __slots__ = ('label', 'enabled', 'effect', 'alts')

  def __init__(self, label, enabled, effect, alts=None):
    self.label = label          # str
    self.enabled = enabled      # () -> bool
    self.effect = effect        # (alt) -> result
    self.alts = alts            # () -> list of extra alternatives (e.g. ['timeout']) or None


class _MThread:
  def __init__(self, sched, tid, name, fn, args, kwargs):
    self.sched, self.tid, self.name = sched, tid, name
    self.fn, self.args, self.kwargs = fn, args, kwargs
    self.go = _real_threading.Semaphore(0)
    self.pending = None
    self.chosen_alt = None
    self.done = False
    self.result = None
    self.exc = None
    self.killed = False
    self.os_thread = _real_threading.Thread(target=self._body, name=f'sched-{name}', daemon=True)

  def _body(self):
    s = self.sched
    s._by_ident[_real_threading.get_ident()] = self
    self.go.acquire()              # first scheduling = the 'start' op
    try:
      if self.killed:
        raise _Killed()
      self.result = self.fn(*self.args, **self.kwargs)
    except _Killed:
      pass
    except BaseException as e:     # pylint: disable=broad-except
      self.exc = e
    finally:
      self.done = True
      self.pending = None
      s._back.release()


class _Killed(BaseException):
  pass


class Scheduler:
  """chooser(options, sched) -> index into options; options = sorted list of (tid, alt)."""

  def __init__(self, chooser, max_steps=20000):
    self.chooser = chooser
    self.max_steps = max_steps
    self.threads: list[_MThread] = []
    self._by_ident = {}
    self._back = _real_threading.Semaphore(0)
    self.trace = []               # (tid, label)
    self.choices = []             # (tid, alt) chosen at each step
    self.steps = 0
    self.outcome = None
    self.blocked = []

  # -- thread management ------------------------------------------------------------
  def spawn(self, name, fn, *args, **kwargs):
    t = _MThread(self, len(self.threads), name, fn, args, kwargs)
    t.pending = _Op('start', lambda: True, lambda alt: None)
    self.threads.append(t)
    t.os_thread.start()
    return t

  def current(self):
    return self._by_ident.get(_real_threading.get_ident())

  # -- yield point ------------------------------------------------------------------
  def op(self, label, enabled, effect, alts=None):
    """Called by shim primitives. From an unmanaged thread the op executes immediately."""
    t = self.current()
    if t is None:
      if not enabled():
        raise SchedulerError(f'unmanaged thread would block on {label}')
      return effect(None)
    if t.killed:
      raise _Killed()
    t.pending = _Op(label, enabled, effect, alts)
    self._back.release()          # hand the baton back
    t.go.acquire()                # ... until chosen
    if t.killed:
      raise _Killed()
    op, t.pending = t.pending, None
    self.trace.append((t.tid, op.label if t.chosen_alt is None else f'{op.label}:{t.chosen_alt}'))
    return op.effect(t.chosen_alt)

  def step(self, label):
    """A pure marker yield point (e.g. `next(it)` of a harness-provided iterator)."""
    return self.op(label, lambda: True, lambda alt: None)

  # -- main loop ----------------------------------------------------------------------
  def options(self):
    opts = []
    for t in self.threads:
      if t.done or t.pending is None:
        continue
      if t.pending.enabled():
        opts.append((t.tid, None))
      if t.pending.alts is not None:
        for a in t.pending.alts():
          opts.append((t.tid, a))
    return opts

  def run(self):
    while True:
      if all(t.done for t in self.threads):
        self.outcome = 'done'
        break
      opts = self.options()
      if not opts:
        self.outcome = 'deadlock'
        self.blocked = [(t.tid, t.name, t.pending.label if t.pending else None)
                        for t in self.threads if not t.done]
        break
      if self.steps >= self.max_steps:
        self.outcome = 'max_steps'
        break
      i = self.chooser(opts, self)
      if i is None:
        self.outcome = 'stopped'
        break
      tid, alt = opts[i]
      self.choices.append((tid, alt))
      self.steps += 1
      t = self.threads[tid]
      t.chosen_alt = alt
      if t.pending.label == 'start':
        self.trace.append((tid, 'start'))
      t.go.release()
      self._back.acquire()        # wait until it yields again or finishes
    self._kill_rest()
    return self.outcome

  def _kill_rest(self):
    for t in self.threads:
      if not t.done:
        t.killed = True
        t.go.release()
        self._back.acquire()
    for t in self.threads:
      t.os_thread.join(timeout=5)


# ------------------------------------------------------------------------------ primitives

class Lock:
  _reentrant = False

  def __init__(self, sched, name='lock'):
    self._s, self.name = sched, name
    self.owner = None
    self.count = 0

  def _me(self):
    t = self._s.current()
    return t.tid if t is not None else -1

  def _can(self, me):
    return self.owner is None or (self._reentrant and self.owner == me)

  def acquire(self, blocking=True, timeout=-1):
    me = self._me()

    def eff(alt):
      if alt == 'fail':
        return False
      self.owner = me
      self.count += 1
      return True
    if not blocking:
      return self._s.op(f'tryacquire {self.name}', lambda: True,
                        lambda alt: eff(None) if self._can(me) else False)
    return self._s.op(f'acquire {self.name}', lambda: self._can(me), eff)

  def release(self):
    me = self._me()

    def eff(alt):
      if self.owner != me:
        raise RuntimeError('cannot release un-acquired lock')
      self.count -= 1
      if self.count == 0:
        self.owner = None
    return self._s.op(f'release {self.name}', lambda: True, eff)

  def locked(self):
    return self.owner is not None

  def __enter__(self):
    self.acquire()
    return self

  def __exit__(self, *a):
    self.release()

  # used by Condition
  def _release_save(self):
    st = (self.owner, self.count)
    self.owner, self.count = None, 0
    return st

  def _acquire_restore(self, st):
    self.owner, self.count = st


class RLock(Lock):
  _reentrant = True


class Condition:
  def __init__(self, sched, lock=None, name='cond'):
    self._s, self.name = sched, name
    self._lock = lock if lock is not None else RLock(sched, name)
    self.waiters = collections.deque()     # tids parked, FIFO
    self.notified = set()
    self.acquire = self._lock.acquire
    self.release = self._lock.release

  def __enter__(self):
    self._lock.acquire()
    return self

  def __exit__(self, *a):
    self._lock.release()

  def wait(self, timeout=None):
    me = self._lock._me()
    saved = {}

    def park(alt):
      if self._lock.owner != me:
        raise RuntimeError('cannot wait on un-acquired lock')
      saved['st'] = self._lock._release_save()
      self.waiters.append(me)
    self._s.op(f'wait {self.name}', lambda: True, park)

    def wake(alt):
      if alt == 'timeout':
        if me in self.waiters:
          self.waiters.remove(me)
        self.notified.discard(me)
        self._lock._acquire_restore(saved['st'])
        return False
      self.notified.discard(me)
      self._lock._acquire_restore(saved['st'])
      return True
    lock_free = lambda: self._lock.owner is None
    alts = None
    if timeout is not None:
      alts = lambda: (['timeout'] if lock_free() and me not in self.notified else [])
    return self._s.op(f'wake {self.name}', lambda: me in self.notified and lock_free(), wake, alts)

  def wait_for(self, predicate, timeout=None):
    r = predicate()
    while not r:
      if not self.wait(timeout):
        return predicate()
      r = predicate()
    return r

  def notify(self, n=1):
    me = self._lock._me()

    def eff(alt):
      if self._lock.owner != me:
        raise RuntimeError('cannot notify on un-acquired lock')
      k = n
      while k > 0 and self.waiters:
        self.notified.add(self.waiters.popleft())
        k -= 1
    return self._s.op(f'notify {self.name}' if n == 1 else f'notify{n} {self.name}', lambda: True, eff)

  def notify_all(self):
    me = self._lock._me()

    def eff(alt):
      if self._lock.owner != me:
        raise RuntimeError('cannot notify on un-acquired lock')
      while self.waiters:
        self.notified.add(self.waiters.popleft())
    return self._s.op(f'notify_all {self.name}', lambda: True, eff)


class Event:
  def __init__(self, sched, name='event'):
    self._s, self.name = sched, name
    self._flag = False

  def is_set(self):
    return self._flag

  def set(self):
    def eff(alt):
      self._flag = True
    return self._s.op(f'set {self.name}', lambda: True, eff)

  def clear(self):
    self._flag = False

  def wait(self, timeout=None):
    alts = None if timeout is None else (lambda: [] if self._flag else ['timeout'])
    return self._s.op(f'ewait {self.name}', lambda: self._flag, lambda alt: alt != 'timeout', alts)


class SimpleQueue:
  """queue.SimpleQueue / queue.Queue: atomic FIFO; nowait ops never block."""

  def __init__(self, sched, maxsize=0, name='q'):
    self._s, self.name, self.maxsize = sched, name, maxsize
    self.items = collections.deque()

  def get_nowait(self):
    def eff(alt):
      if not self.items:
        raise _real_queue.Empty()
      return self.items.popleft()
    return self._s.op(f'get_nowait {self.name}', lambda: True, eff)

  def put_nowait(self, v):
    def eff(alt):
      if self.maxsize > 0 and len(self.items) >= self.maxsize:
        raise _real_queue.Full()
      self.items.append(v)
    return self._s.op(f'put_nowait {self.name}', lambda: True, eff)

  def empty(self):
    return self._s.op(f'empty {self.name}', lambda: True, lambda alt: not self.items)

  def qsize(self):
    return len(self.items)

  def full(self):
    return self.maxsize > 0 and len(self.items) >= self.maxsize

  def get(self, block=True, timeout=None):
    if not block:
      return self.get_nowait()
    alts = None if timeout is None else (lambda: [] if self.items else ['timeout'])

    def eff(alt):
      if alt == 'timeout':
        raise _real_queue.Empty()
      return self.items.popleft()
    return self._s.op(f'get {self.name}', lambda: bool(self.items), eff, alts)

  def put(self, v, block=True, timeout=None):
    if not block:
      return self.put_nowait(v)
    room = lambda: not (self.maxsize > 0 and len(self.items) >= self.maxsize)
    alts = None if timeout is None else (lambda: [] if room() else ['timeout'])

    def eff(alt):
      if alt == 'timeout':
        raise _real_queue.Full()
      self.items.append(v)
    return self._s.op(f'put {self.name}', room, eff, alts)


class Thread:
  def __init__(self, sched, group=None, target=None, name=None, args=(), kwargs=None, daemon=None):
    self._s = sched
    self._target, self._args, self._kwargs = target, args, kwargs or {}
    self.name = name or 'thread'
    self.daemon = daemon
    self._t = None

  def start(self):
    def eff(alt):
      self._t = self._s.spawn(self.name, self._target, *self._args, **self._kwargs)
    self._s.op(f'thread_start {self.name}', lambda: True, eff)

  def join(self, timeout=None):
    alts = None if timeout is None else (lambda: [] if (self._t and self._t.done) else ['timeout'])
    self._s.op(f'join {self.name}', lambda: self._t is not None and self._t.done, lambda alt: None, alts)

  def is_alive(self):
    return self._t is not None and not self._t.done


class ThreadPoolExecutor:
  """Each submitted callable is a managed thread; at most max_workers run at a time."""

  def __init__(self, sched, max_workers=None, thread_name_prefix='pool', **_):
    self._s = sched
    self.max_workers = max_workers or 10**9
    self.prefix = thread_name_prefix
    self.tasks = []
    self._shutdown = False

  def _running(self):
    return sum(1 for t, started in self.tasks if started[0] and not t.done)

  def submit(self, fn, *args, **kwargs):
    if self._shutdown:
      raise RuntimeError('cannot schedule new futures after shutdown')
    fut = _futures.Future()
    started = [False]

    def body():
      started[0] = True
      if not fut.set_running_or_notify_cancel():
        return
      try:
        r = fn(*args, **kwargs)
      except _Killed:
        raise
      except BaseException as e:  # pylint: disable=broad-except
        fut.set_exception(e)
      else:
        fut.set_result(r)

    def eff(alt):
      t = self._s.spawn(f'{self.prefix}_{len(self.tasks)}', body)
      pool = self
      t.pending = _Op('start', lambda: pool._running() < pool.max_workers, lambda alt: None)
      self.tasks.append((t, started))
    self._s.op(f'submit {self.prefix}', lambda: True, eff)
    return fut

  def shutdown(self, wait=True, cancel_futures=False):
    self._shutdown = True
    if wait:
      self._s.op(f'shutdown {self.prefix}', lambda: all(t.done for t, _ in self.tasks), lambda alt: None)

  def all_done(self):
    return all(t.done for t, _ in self.tasks)

  def __enter__(self):
    return self

  def __exit__(self, *a):
    self.shutdown(wait=True)


# ------------------------------------------------------------------------------ module facades

def threading_module(sched):
  m = _types.ModuleType('threading_shim')
  cnt = collections.Counter()

  def nm(kind):
    cnt[kind] += 1
    return f'{kind}{cnt[kind]}'
  m.Lock = lambda: Lock(sched, nm('lock'))
  m.RLock = lambda: RLock(sched, nm('rlock'))
  m.Condition = lambda lock=None: Condition(sched, lock, nm('cond'))
  m.Event = lambda: Event(sched, nm('event'))
  m.Thread = lambda *a, **k: Thread(sched, *a, **k)
  m.get_ident = _real_threading.get_ident
  m.current_thread = _real_threading.current_thread
  m.main_thread = _real_threading.main_thread
  m.enumerate = _real_threading.enumerate
  m.active_count = _real_threading.active_count
  m.local = _real_threading.local
  return m


def queue_module(sched):
  m = _types.ModuleType('queue_shim')
  cnt = collections.Counter()

  def nm():
    cnt['q'] += 1
    return f'q{cnt["q"]}'
  m.SimpleQueue = lambda: SimpleQueue(sched, 0, nm())
  m.Queue = lambda maxsize=0: SimpleQueue(sched, maxsize, nm())
  m.Empty = _real_queue.Empty
  m.Full = _real_queue.Full
  return m


def futures_module(sched):
  m = _types.ModuleType('futures_shim')
  for k in dir(_futures):
    if not k.startswith('_'):
      setattr(m, k, getattr(_futures, k))
  m.ThreadPoolExecutor = lambda *a, **k: ThreadPoolExecutor(sched, *a, **k)
  return m


class patched:
  """Context manager: replace `threading`/`queue`/`futures` attributes of repo modules."""

  def __init__(self, sched, modules, names=('threading', 'queue', 'futures')):
    self.sched, self.modules, self.names = sched, modules, names
    self.saved = []

  def __enter__(self):
    repl = dict(threading=threading_module(self.sched), queue=queue_module(self.sched),
                futures=futures_module(self.sched))
    for mod in self.modules:
      for n in self.names:
        if hasattr(mod, n):
          self.saved.append((mod, n, getattr(mod, n)))
          setattr(mod, n, repl[n])
    return self

  def __exit__(self, *a):
    for mod, n, v in self.saved:
      setattr(mod, n, v)


# ------------------------------------------------------------------------------ choosers

def replay_chooser(schedule, strict=True):
  """schedule: list of tid or [tid, alt]. After it is exhausted: lowest option (deterministic)."""
  it = iter(schedule)

  def choose(opts, sched):
    for want in it:
      w = (want, None) if isinstance(want, int) else (want[0], want[1])
      if w in opts:
        return opts.index(w)
      if strict:
        raise SchedulerError(f'schedule wants {w}, enabled {opts} at step {sched.steps}')
    return 0
  return choose


def random_chooser(rng, timeout_weight=0.05):
  def choose(opts, sched):
    normal = [i for i, (_, a) in enumerate(opts) if a is None]
    alt = [i for i, (_, a) in enumerate(opts) if a is not None]
    if normal and (not alt or rng.random() > timeout_weight):
      return rng.choice(normal)
    return rng.choice(alt)
  return choose


def priority_chooser(rng, nthreads_hint=8, change_points=3, horizon=200):
  """PCT-style: random priorities, a few priority change points."""
  prio = {}
  changes = sorted(rng.randrange(horizon) for _ in range(change_points))

  def choose(opts, sched):
    while changes and sched.steps >= changes[0]:
      changes.pop(0)
      if prio:
        t = max(prio, key=prio.get)
        prio[t] = min(prio.values()) - 1
    normal = [i for i, (_, a) in enumerate(opts) if a is None]
    cand = normal or list(range(len(opts)))
    for i in cand:
      prio.setdefault(opts[i][0], rng.random())
    return max(cand, key=lambda i: prio[opts[i][0]])
  return choose
