"""Round-13 extensions of the C06 machinery (imports harness.lib_sched / lib_sched_ext / lib_prefetch_values, edits
nothing there).

* `specials(repo)`            the exceptions whose VALUE the code under C06 special-cases, read off the source with `ast`
                              by harness.lib_prefetch_values (every exception the code constructs / compares with, every
                              class it names, each with the texts it compares `.args` with, plus a user-defined class):
                              used as the APPLICATION ERROR of a generator task / shard / as_completed task.
* `gen_task_exc`, `FailWith`  tasks / row functions that raise exactly such a value.
* `RejoinCluster`             "die mid-call, REJOIN, then the remaining workers are lost": worker A dies with a call in
                              flight (the response is lost for good, no call timeout), the death is announced; once the
                              master's bookkeeping loop has gone round (it has seen the death), A is restarted and
                              re-registers - whatever the master still holds for it; only THEN the other workers die
                              (each at its next counted call, so with a call in flight as well).  At every moment one
                              worker is usable: the others until A is back, A from then on.
"""
from __future__ import annotations

import threading
import time as _real_time

from harness import fakecourier
from harness import lib_prefetch_values as V
from harness import lib_sched as L

_SPECIALS = {}


def specials(repo):
  """-> (tokens, where): the special exception values (tokens of lib_prefetch_values) of the working tree."""
  if repo not in _SPECIALS:
    lit = V.special_literals(repo)
    _SPECIALS[repo] = (V.derived_specials(lit), lit)
  return _SPECIALS[repo]


def exc_class(tok):
  return V._exc_class(tok[1])      # pylint: disable=protected-access


def is_retriable_class(tok):
  """The code's own convention: an exception that IS a TimeoutError is a retriable outcome, not a task error."""
  return issubclass(exc_class(tok), TimeoutError)


def is_stop_class(tok):
  return issubclass(exc_class(tok), StopIteration)


def gen_task_exc(i, k, tok):
  """Generator task number i: yields the k records 100*i .. 100*i+k-1, then FAILS with the decoded token (a generator
  function, what a user writes: a StopIteration raised inside it becomes RuntimeError, PEP 479)."""
  for j in range(k):
    yield 100 * i + j
  raise V.decode(tok)


class FailWith:
  """Row function / task body raising the decoded token at one value."""

  def __init__(self, value, tok):
    self.value, self.tok = value, tok

  def __call__(self, x):
    if x == self.value:
      raise V.decode(self.tok)
    return x


def define_pipeline_exc(n, pipe='p0', fail_at=None, exc=None, shard_index=0, num_shards=1):
  """`lib_sched.define_pipeline` whose row function fails with a special exception value at element `fail_at`."""
  ns = L.setup()
  T = ns.transform.TreeTransform
  ds = ns.io.SequenceDataSource(range(n)).shard(shard_index, num_shards)
  t = T.new(name='ds').data_source(ds)
  if fail_at is not None:
    t = t.apply(fn=FailWith(fail_at, exc))
  return L.add_stages(t, pipe)


# ------------------------------------------------------------------------------------------ die, rejoin, others lost

class _Ticks:
  """Counts the `time.sleep()` calls of the case-body thread: orchestrate.as_completed sleeps once per round of its
  bookkeeping loop (orchestrate.py `time.sleep(0.0)`), WorkerPool.iterate reads the clock once per round - installed
  as instance attributes of the shared guard clock (the class is not edited), removed by `close()`."""

  def __init__(self):
    self.n = 0
    clock = L.CLOCK
    cls = type(clock)
    ticks = self

    def sleep(dt=0.0):
      if threading.current_thread().name == 'case-body':
        ticks.n += 1
      return cls.sleep(clock, dt)

    def time():
      if threading.current_thread().name == 'case-body':
        ticks.n += 1
      return cls.time(clock)

    clock.sleep = sleep
    clock.time = time

  def close(self):
    for k in ('sleep', 'time'):
      try:
        delattr(L.CLOCK, k)
      except AttributeError:
        pass


class RejoinCluster(L.Cluster):
  """plans: worker `first` holds 'restart' at some counted call index (dies there, the call hangs, and REJOINS as
  described above); every worker whose plan holds the pseudo-fate 'die_late' dies at its first counted call issued
  after the rejoin (calls before that are answered normally)."""

  ROUNDS = 40       # rounds of the master's loop between the announced death and the restart of the worker

  def __init__(self, n_workers, plans=(), **kw):
    self.late = [('die_late' in p) for p in plans] + [False] * (n_workers - len(plans))
    self.rejoined = threading.Event()
    self.killed_at = {}
    self.ticks = _Ticks()
    plans = [[('ok' if f == 'die_late' else f) for f in p] for p in plans]
    try:
      super().__init__(n_workers, plans, **kw)
    except BaseException:
      self.ticks.close()
      raise

  def _plan(self, i):
    inner = super()._plan(i)

    def plan(idx, method):
      if self.late[i] and self.rejoined.is_set() and not self.dead[i]:
        self.killed_at[i] = idx
        self.kill(i)
        return 'die'
      if idx < len(self.plans[i]) and self.plans[i][idx] == 'restart' and not self.dead[i]:
        self.killed_at[i] = idx
      return inner(idx, method)

    return plan

  def _watch(self):
    workers = self.pool.all_workers
    seen = {}
    while not self._stop.is_set():
      for i, w in enumerate(workers):
        if self.dead[i] and self.can_rejoin[i]:
          t0 = seen.setdefault(i, (self.ticks.n, _real_time.time()))
          # the master's loop has gone round ROUNDS times since the death was announced: it has examined the task
          # that was in flight on the dead worker (every round examines every running task)
          if self.ticks.n - t0[0] >= self.ROUNDS and _real_time.time() - t0[1] >= 0.01:
            self.rejoin(i)
            self.rejoined.set()
            seen.pop(i, None)
      _real_time.sleep(0.0005)

  def close(self, hung=False):
    self.ticks.close()
    super().close(hung=hung)
