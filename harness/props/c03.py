"""C03 — results do not depend on the execution strategy.

Real code: `ml_metrics._src.chainables.transform` (TreeTransform builder, `.chain`, `_chain_and_fuse`,
`make(shard=)`, `ChainedRunner.iterate/merge_states/get_result`, `_RunnerIterator` = `MultiplexIterator`
with `num_threads`), `chainables.io` (SequenceDataSource / ShardedIterable shards) and
`chainables.orchestrate.run_pipeline_interleaved` without workers — all entered through the public
builder API (harness/lib_c03.py), every strategy run in a child process under a hard timeout.
Model: lean/MlModel/Model/Strategy.lean (driver handler "strategy"); theorems: Properties/C03.lean.

Case: {kind: dict|scalar, data: [batch = [row = [x,y] | [x]]], items: [op | {"agg": kind}], src: seq|rr|plain,
       strategies: [strategy, ...]}   — strategies[0] is the sequential baseline (see lib_c03 for the format).
Observation: one dict per strategy {err, phase?, out: [batch of rows], aggs: {A<i>: result}} or {hang: true}.

Round 7 adds two case families (harness/lib_c03x.py; a case of a family carries "fam"):
  fam = "sizes"   {n, strat}: a stream of n elements, n straddling every integer constant read off the SOURCE of the
                  working tree, pushed with the producer AHEAD of the consumer through an IteratorQueue consumed by
                  iter(q) / get_batch(), the in-process interleaved runner (2-3 stages, unbounded / bounded stage queues)
                  and num_threads; model: Model/DequeueCache.lean (driver "dequeuecache"), theorems C03_cache_*.
  fam = "sliced"  {sub, parts, strat}: a SLICED aggregation (C02-format pipeline) run shard by shard over any partition
                  of the batches, the shard states (different key sets) merged by ChainedRunner / TransformRunner /
                  AGGREGATE-mode runner; oracle: brute-force group-by over the whole data + equality with the unsharded
                  run; model: Model/PipeAggShard.lean (driver "pipeaggshard"), theorems C03_shards_sliced*.
  fam = "obs"     (round 10, harness/lib_c03y.py) {sub: shape|kinds, src: {kind: mseq|seq|rr|iter, seqs}, stages, strats}: DATA-SOURCE
                  SHAPES (SequenceDataSource.from_sequences with 2-4 sequences of equal / unequal / empty lengths x shard counts 1..5 so
                  that thread-shard and make(shard=) boundaries fall ON / one BEFORE / one AFTER a sequence start; single sequences,
                  ShardedIterable, plain iterables) and EVERY OBSERVABLE the aggregate can be taken from (iterator.agg_result, the
                  returned AggregateResult's agg_result and agg_state, iterator.agg_state, merge_states of per-shard states +
                  get_result) x state kind (tuple / number / frozen dataclass / None-or-number states returned as NEW objects, lists
                  and MergeableMetrics mutated in place, MeanAndVariance) at every aggregating stage of 1-3 stage chains;
                  model: Model/StrategyObs.lean (driver "strategyobs"), theorems C03_shards_merged_*, C03_chain_*.
  fam = "pool"    {items: [{sub, k, workers}]}: the same sliced pipelines through orchestrate.sharded_pipelines_as_iterator over a
                  worker pool on harness/fakecourier (harness/lib_c16x.py, run in its own process) — the C16 path of the same merge.
"""
import collections
import copy
import json
import os
import re

from harness import lib_c03 as L
from harness import lib_c03x as X
from harness import lib_c03y as Y
from harness.core import close

PID = 'C03'
TITLE = 'Results do not depend on the execution strategy'
LEAN_MODULES = ['MlModel.Properties.C03', 'MlModel.Properties.C03Obs', 'MlModel.Witness.C03', 'MlModel.Witness.C03Obs']
TRUSTED = [
    'threads are modelled as "any split of the input among producers, any arrival order" (Stage.Exec); the real '
    'ThreadPoolExecutor / GIL scheduling is sampled with real OS threads (num_threads 1,2,3,8), not modelled',
    'the inter-stage queue of run_pipeline_interleaved is the IteratorQueue LTS of C04 with one producer and one consumer; '
    'that every element is eventually put and delivered (liveness) is C04Live/C13, here a hypothesis of QueueDelivers',
    'aggregates are abstract lawful mergeable metrics (Lemmas/AggCore.lean); that MeanAndVariance is one is C01/C11; '
    'the correspondence uses exact integer moments (count,sum,sum of squares) and compares mean/variance with tolerance',
    'tree key routing (input_keys/output_keys), slicing (add_slice) and error skipping are outside the Strategy model (C08, C02, C12); '
    'sharded x sliced runs are modelled by Model/PipeAggShard.lean on top of the C02 model (Model/PipeAgg.lean)',
    'the DequeueIterator cache (Model/DequeueCache.lean) is composed with the queue LTS through its `received` list: the '
    'boundaries of the get_batch results are a free parameter of C03_stage_runner_cached (any cut into non-empty refills); '
    'collections.deque(maxlen) semantics (extend drops from the left) is the model\'s reading of the CPython documentation',
    'Model/StrategyObs.lean: dicts are association lists read with lookupLast (what dict(items)[k] answers); states are VALUES — an '
    'aggregate that mutates its state in place shares the object between the dicts holding it, which the value model does not '
    'distinguish (covered by the in-place state kinds of the obs family on the real code); the chained agg_state lists the per-stage '
    'items without collapsing a key that two stages share (lookups agree with Python\'s dict; C03_chain_shards_merged assumes distinct keys)',
    'size-dependent behaviour: the integer constants are read off the source by harness/lib_c03x.constants() (every int '
    'literal 2..20000 of iter_utils.py, orchestrate.py, transform.py, io.py); a bound computed at run time from other data is not seen',
]
ASSUMPTIONS = ['user callables are pure, vectorised and come from the named library of harness/lib_c03.py (twin in Driver/Strategy.lean)',
               'pipelines with a re-batching operator have no element-level filter after it (its outcome would depend on batch '
               'boundaries, finding F18)']
RULE = ('corpus (witness cases of F18 and F-C03-fuse) first; then random pipelines of 1..5 items from the grammar '
        'apply|assign|filter|rebatch|aggregate(MeanAndVariance|Collect) over datasets of <= 24 rows (0..8 batches of 1..4 rows, or '
        '0..12 scalar rows with .batch(n)), three data-source kinds (SequenceDataSource, ShardedIterable, plain list); for every '
        'case: the sequential baseline, up to 5 other groupings of the same operator list into transforms (builder / same-name '
        'chain = fuse / new-name chain = stage, including refused ones and the all-chained one), num_threads in {1,2,3,8} on real OS threads and num_threads in {2,3} under the deterministic scheduler (seeded PCT / uniform-random schedules, deadlocks reported), shard '
        'counts 1..5 (via make(shard=) and via data_source.shard) + merge_states, and run_pipeline_interleaved in process (two '
        'groupings); plus directed cases every run: (a) a read-modify-write aggregate (update pre-empted between read and write: scheduler yield point / 1 ms sleep) in an UPSTREAM stage with num_threads 2,3,8 downstream on OS threads and 6 (thorough 30) seeded schedules per case under the deterministic scheduler; (b) aggregations in 2-3 named stages with the shard states handed to merge_states as list / generator / iterator, with and without strict_states_cnt, by the plain and the AGGREGATE-mode runner. non-trivial = at least 2 input elements, at least 2 items, and some strategy other than the baseline ran '
        'without error; distinct = distinct canonical case JSON.  Round 7 families (lib_c03x): SIZES — for every integer constant b '
        'read off the source at run time the stream lengths 0, 1, 2, b-1, b, b+1 and 2*max+3, each through q_iter / q_batch '
        '(IteratorQueue pre-filled = producer completely ahead; also bounded queues with a parked producer, num_steps, small '
        'explicit max_batch_size), the interleaved runner with 2 and 3 stages (downstream gated on an event until the upstream '
        'source is exhausted; default unbounded and RunnerResource(buffer_size=b) queues) and num_threads 1,2,3,8 (consumer '
        'starts after the queue bound 3t was filled); enforced: every strategy meets a stream longer than every constant, and '
        'an interleaved run whose upstream really was ahead by more than every constant.  SLICED — C02-format pipelines '
        '(MeanAndVariance / Mean / Counter / a 2-output MergeableMetric; default, cross, within_values, fan-out slicers; data '
        'sorted by the slice feature or mixed) x any partition of the batches into 1..5 shards (consecutive, round robin, '
        'shuffled, empty shards, make(shard=) / data_source.shard) x merge by ChainedRunner / TransformRunner / AGGREGATE runner '
        '/ two aggregating stages x states as list / generator / iterator x strict_states_cnt x batches as list / one-shot '
        'iterator; enforced classes: key absent from the first / a middle / the last shard, disjoint key sets, empty (first) shard.  '
        'POOL (harness/lib_c16x.py, own process) — the same sliced pipelines through orchestrate.sharded_pipelines_as_iterator over a '
        'WorkerPool of 1..3 fakecourier workers, 1..6 shards (merge of a generator of states with strict_states_cnt on the master thread): '
        '6 pipelines per quick run, exactly one AggregateResult, same oracle and model.  Round 10 family OBS (lib_c03y): SHAPE — every tuple '
        'of 2 and 3 sequence lengths from 0..3 (all 80), 40 random 4-tuples (thorough: all 256) and ten longer layouts, each under '
        'num_threads 1..5, make(shard=) 1..5, data_source.shard 1..5 and the interleaved runner, four small pipelines; a single '
        'sequence / ShardedIterable / plain iterable of 0,1,2,5,7,12 elements; enforced (generator side): for threads, shards:make and '
        'shards:source a boundary ON a sequence start, ON the start of an empty sequence, one BEFORE, one AFTER, away from every '
        'start and at an end of the data, and ON / BEFORE / AFTER for every (number of sequences 2,3,4) x (k 2..5).  KINDS — chains with '
        '1, 2, 3 aggregating stages (optionally a stage without aggregates) where every one of the 7 state kinds sits at every '
        'aggregating position (all 7 + 49 pairs + >= 40 covering triples), under threads, shards (make and source, list / generator, '
        'plain / AGGREGATE runner) and the interleaved runner; enforced: strategy x kind x position x number of aggregating stages '
        '(126 classes); every run takes every observable, an observable that was not taken is an oracle failure')

TIMEOUT = float(os.environ.get('C03_TIMEOUT', '20'))

APPLY_D = ['dbl', 'inc', 'sq', 'neg', 'swap', 'addxy', 'yinc']
APPLY_S = ['dbl', 'inc', 'sq', 'neg']
ASSIGNS = ['sumxy', 'x2', 'one']
FILTERS = ['sum_even', 'first_pos', 'len_ge2', 'small', 'always', 'never']


# ------------------------------------------------------------------ generators

def is_op(it):
  return 'op' in it


def base_cuts(items):
  """everything in one transform, except that a function after an aggregate starts a new stage"""
  return ['c' if ('agg' in a and is_op(b)) else 'b' for a, b in zip(items, items[1:])]


def valid_cuts(items, cuts):
  """no function behind an aggregation inside one stage (what the API documents as an error)"""
  seen_agg = False
  for i, it in enumerate(items):
    if i > 0 and cuts[i - 1] == 'c':
      seen_agg = False
    if 'agg' in it:
      seen_agg = True
    elif seen_agg:
      return False
  return True


def gen_items(rng, kind):
  n = rng.randrange(1, 6)
  items, rebatched = [], False
  for _ in range(n):
    r = rng.random()
    if kind == 'dict':
      if r < 0.30:
        items.append({'op': 'apply', 'fn': rng.choice(APPLY_D)})
      elif r < 0.42:
        items.append({'op': 'assign', 'fn': rng.choice(ASSIGNS)})
      elif r < 0.57 and not rebatched:
        items.append({'op': 'filter', 'fn': rng.choice(FILTERS)})
      elif r < 0.72:
        items.append({'op': 'rebatch', 'n': rng.choice([1, 2, 2, 3, 5])})
        rebatched = True
      else:
        items.append({'agg': rng.choice(['moments', 'moments', 'collect', 'rmw'])})
    else:
      if r < 0.35:
        items.append({'op': 'apply', 'fn': rng.choice(APPLY_S)})
      elif r < 0.50 and not rebatched:
        items.append({'op': 'filter', 'fn': rng.choice(FILTERS)})
      elif r < 0.70 and not rebatched:
        items.append({'op': 'rebatch', 'n': rng.choice([1, 2, 2, 3, 5])})
        rebatched = True
      else:
        items.append({'agg': 'moments' if (rebatched and rng.random() < 0.6) else rng.choice(['collect', 'collect', 'rmw'])})
  return items


def gen_data(rng, kind):
  if kind == 'dict':
    nb = rng.choice([0, 1, 2, 3, 4, 5, 6, 8])
    data, total = [], 0
    for _ in range(nb):
      s = rng.choice([1, 1, 2, 3, 4])
      if total + s > 24:
        break
      data.append([[rng.randrange(-3, 10), rng.randrange(-3, 10)] for _ in range(s)])
      total += s
    return data
  return [[[rng.randrange(-3, 10)]] for _ in range(rng.choice([0, 1, 2, 3, 5, 7, 9, 12]))]


def merge_variant(rng, k):
  """how the shard states reach merge_states: a list, a one-shot generator (what the orchestration passes) or an
  iterator; with / without strict_states_cnt; merged by the plain runner or by make(mode=AGGREGATE)"""
  return dict(states_as=['list', 'gen', 'iter'][k % 3] if k else rng.choice(['list', 'gen', 'iter']),
              strict=rng.random() < 0.5, runner=rng.choice(['default', 'default', 'aggregate']))


def strategies_for(rng, items, src, quick=True):
  bc = base_cuts(items)
  g = len(bc)
  sts = [dict(s='seq', cuts=bc)]
  seen = {tuple(bc)}
  cand = [['c'] * g, ['f'] * g, ['b'] * g]
  for _ in range(4):
    cand.append([rng.choice('bfc') for _ in range(g)])
  # one grouping that tries to fuse a function behind an aggregate, when the program has that shape
  for i, (a, b) in enumerate(zip(items, items[1:])):
    if 'agg' in a and is_op(b):
      c = list(bc); c[i] = 'f'; cand.append(c)
      break
  for c in cand:
    if tuple(c) not in seen and len(sts) < 6:
      seen.add(tuple(c))
      sts.append(dict(s='seq', cuts=c))
  valid_alt = [s['cuts'] for s in sts[1:] if valid_cuts(items, s['cuts'])]
  for n in (1, 2, 3, 8):
    sts.append(dict(s='threads', cuts=bc, n=n))
  if valid_alt:
    sts.append(dict(s='threads', cuts=rng.choice(valid_alt), n=rng.choice([2, 3])))
  if src != 'plain':
    for k in (1, 2, 3, 4, 5):
      sts.append(dict(s='shards', cuts=bc, k=k, via='source' if (k + len(items)) % 2 else 'make',
                      **merge_variant(rng, k)))
    if valid_alt:
      sts.append(dict(s='shards', cuts=rng.choice(valid_alt), k=rng.choice([2, 3]), via=rng.choice(['make', 'source']),
                      **merge_variant(rng, 0)))
  # the same threads under the deterministic scheduler (seeded schedules, PCT and uniform random)
  for j in range(2 if quick else 4):
    sts.append(dict(s='sched', cuts=bc, n=rng.choice([2, 3]), chooser=['pct', 'random'][j % 2],
                    seed=rng.randrange(10**6)))
  sts.append(dict(s='interleaved', cuts=bc))
  allc = ['c'] * g
  if allc != bc:
    sts.append(dict(s='interleaved', cuts=allc))
  return sts


def gen_random(ctx):
  rng = ctx.rng
  for _ in range(450 if ctx.quick else 8000):
    kind = rng.choice(['dict', 'dict', 'scalar'])
    items = gen_items(rng, kind)
    src = rng.choice(['seq', 'seq', 'rr', 'plain'])
    yield dict(kind=kind, data=gen_data(rng, kind), items=items, src=src,
               strategies=strategies_for(rng, items, src, ctx.quick))


def gen_directed(ctx):
  """Configurations a random draw reaches too rarely.
  (a) upstream stage with a read-modify-write aggregate, downstream stage with several worker threads pulling from
      the upstream stage iterator: OS threads (the aggregate's update sleeps 1 ms between read and write) and seeded
      schedules of the deterministic scheduler (the update is pre-empted at a yield point) — a lost update is then a
      concrete, replayable schedule;
  (b) aggregations in two or three named stages, shard states merged from a list / generator / iterator, with and
      without strict_states_cnt, by the plain and by the AGGREGATE-mode runner."""
  rng = ctx.rng
  nseeds = 6 if ctx.quick else 30
  for kind, tail in (('scalar', [{'op': 'apply', 'fn': 'inc'}]), ('dict', [{'op': 'apply', 'fn': 'dbl'}, {'agg': 'moments'}]),
                     ('scalar', [{'op': 'apply', 'fn': 'dbl'}, {'agg': 'rmw'}, {'op': 'apply', 'fn': 'neg'}])):
    for rep in range(2 if ctx.quick else 6):
      n = rng.choice([6, 8, 10, 12])
      data = ([[[rng.randrange(0, 9)]] for _ in range(n)] if kind == 'scalar' else
              [[[rng.randrange(0, 9), rng.randrange(0, 9)] for _ in range(rng.choice([1, 2]))] for _ in range(n)])
      head = [{'agg': 'rmw'}] if rep % 2 == 0 else [{'op': 'apply', 'fn': 'inc'}, {'agg': 'rmw'}]
      items = head + tail
      bc = base_cuts(items)
      sts = [dict(s='seq', cuts=bc)]
      sts += [dict(s='threads', cuts=bc, n=m) for m in (2, 3, 8)]
      sts += [dict(s='sched', cuts=bc, n=rng.choice([2, 3, 4]), chooser=['random', 'pct'][j % 2], seed=rng.randrange(10**6))
              for j in range(nseeds)]
      yield dict(kind=kind, data=data, items=items, src=['plain', 'seq', 'rr'][rep % 3], strategies=sts)
  shapes = [[{'agg': 'collect'}, {'op': 'apply', 'fn': 'inc'}, {'agg': 'moments'}],
            [{'op': 'apply', 'fn': 'dbl'}, {'agg': 'moments'}, {'op': 'apply', 'fn': 'inc'}, {'agg': 'collect'},
             {'op': 'apply', 'fn': 'neg'}, {'agg': 'collect'}],
            [{'agg': 'moments'}, {'agg': 'collect'}, {'op': 'apply', 'fn': 'sq'}, {'agg': 'moments'}]]
  for items in shapes:
    for src in ('seq', 'rr'):
      data = [[[rng.randrange(-3, 10), rng.randrange(-3, 10)] for _ in range(rng.choice([1, 2, 3]))]
              for _ in range(rng.choice([3, 5, 7]))]
      bc = base_cuts(items)
      sts = [dict(s='seq', cuts=bc)]
      for how in ('list', 'gen', 'iter'):
        for strict in (False, True):
          k = rng.choice([1, 2, 3, 4])
          sts.append(dict(s='shards', cuts=bc, k=k, via=rng.choice(['make', 'source']), states_as=how, strict=strict,
                          runner='aggregate' if (k + strict) % 2 else 'default'))
      yield dict(kind='dict', data=data, items=items, src=src, strategies=sts)


def has_rebatch(case):
  return any(it.get('op') == 'rebatch' for it in case['items'])


def upstream_agg(items, cuts):
  """a read-modify-write aggregate sits in a stage that is not the last one"""
  stage = L.stage_index_of_items(items, cuts)
  return any(it.get('agg') == 'rmw' and stage[i] < stage[-1] for i, it in enumerate(items))


def filter_first(items, cuts):
  """some filter is the first function of its transform (finding F9, property C08)"""
  for attach, its in L.split_transforms(items, cuts):
    if its and its[0].get('op') == 'filter':
      return True
  return False


def gen_cases(ctx):
  def counted(it):
    for case in it:
      ctx.count('kind', case['kind'])
      ctx.count('src', case['src'])
      ctx.count('n_items', len(case['items']))
      ctx.count('n_elements', min(len(case['data']), 12))
      for item in case['items']:
        ctx.count('item', item.get('op') or 'agg:' + item['agg'])
      for st in case['strategies']:
        ctx.count('strategy', st['s'] + (':' + st['via'] if st['s'] == 'shards' else ''))
        ctx.count('stages', 1 + st['cuts'].count('c'))
        if st['s'] == 'shards':
          ctx.count('merge_states', f"{st.get('states_as', 'list')}{'+strict' if st.get('strict') else ''}/{st.get('runner', 'default')}")
          nagg_stages = len({sidx for sidx, it in zip(L.stage_index_of_items(case['items'], st['cuts']), case['items']) if 'agg' in it})
          if nagg_stages >= 2 and st.get('states_as', 'list') != 'list':
            ctx.count('class', 'two aggregating stages, states as generator/iterator')
        if st['s'] in ('threads', 'sched') and st['n'] >= 2 and upstream_agg(case['items'], st['cuts']):
          ctx.count('class', f"upstream aggregate, downstream threads ({st['s']})")
        if 'f' in st['cuts']:
          ctx.count('grouping', 'uses _chain_and_fuse')
        if not valid_cuts(case['items'], st['cuts']):
          ctx.count('grouping', 'refused (function behind aggregation)')
      if has_rebatch(case):
        ctx.count('class', 're-batching pipeline')
      yield case
  def fam_counted(it):
    for case in it:
      {'sizes': X.sz_counts, 'sliced': X.sl_counts, 'pool': X.pool_counts, 'obs': Y.ob_counts}[case['fam']](ctx, case)
      yield case
  corpus = ctx.corpus()
  yield from counted(c for c in corpus if not c.get('fam'))
  yield from fam_counted(c for c in corpus if c.get('fam'))
  yield from counted(gen_directed(ctx))
  # the families are dealt between the random cases (long streams must not sit in one chunk of the pool)
  fams = X.gen_sliced(ctx) + X.gen_sizes(ctx) + Y.gen_obs(ctx)
  ctx.rng.shuffle(fams)
  fams = X.gen_pool(ctx) + fams          # the worker-pool case first: its process starts early
  fams = iter(fam_counted(fams))
  for case in counted(gen_random(ctx)):
    yield case
    nxt = next(fams, None)
    if nxt is not None:
      yield nxt
  yield from fams


def extra(ctx):
  from harness.core import InfraError
  need = {'strategy': ['seq', 'threads', 'sched', 'shards:make', 'shards:source', 'interleaved'],
          'item': ['apply', 'assign', 'filter', 'rebatch', 'agg:moments', 'agg:collect', 'agg:rmw'],
          'src': ['seq', 'rr', 'plain'], 'kind': ['dict', 'scalar'],
          'grouping': ['uses _chain_and_fuse', 'refused (function behind aggregation)'],
          'class': ['re-batching pipeline', 'two aggregating stages, states as generator/iterator',
                    'upstream aggregate, downstream threads (threads)', 'upstream aggregate, downstream threads (sched)'],
          'merge_states': ['list/default', 'gen/default', 'iter/default', 'gen+strict/default', 'gen/aggregate']}
  X.deque_selfcheck(ctx)
  need.update(X.SL_REQUIRED)
  need.update(Y.ob_required())      # generator-side classes: they do not depend on the tree under test
  need['sizes:deque-selfcheck'] = ['bounded cache smaller than a refill']
  need['sizes:longer-than-every-bound'] = ['q_iter', 'q_batch', 'interleaved', 'threads']
  need['sizes:strategy'] = ['q_iter', 'q_batch', 'interleaved', 'threads', 'q_iter:bounded', 'interleaved:bounded']
  for k, v in _OBS_COV.items():          # coverage that is only known after the runs (collected by nontrivial())
    ctx.hist.setdefault('sizes:observed', {})[k] = v
  ctx.hist['sizes:constants'] = {str(k): len(v) for k, v in X.constants().items()}
  need['sizes:observed'] = ['interleaved: upstream ahead of its consumer by more than every constant',
                            'queue: producer finished before the consumer started, stream longer than every constant']
  missing = [f'{k}:{v}' for k, vs in need.items() for v in vs if v not in ctx.hist.get(k, {})]
  if missing:
    raise InfraError(f'generator missed promised classes: {missing}')


# ------------------------------------------------------------------ implementation side

_HANGS = 0
_OBS_COV = {}


def run_fam(case):
  """a case of a round-7 family: one request to the child process (hard timeout)"""
  global _HANGS
  if case['fam'] == 'pool':
    from harness import lib_c16x
    return lib_c16x.run(case['items'], timeout=TIMEOUT)
  o = L.child().run(case, case['strats'] if case['fam'] == 'obs' else case['strat'], TIMEOUT if _HANGS == 0 else min(TIMEOUT, 5.0))
  if o.get('hang'):
    _HANGS += 1
  return o


def run_impl(case):
  """Every strategy in the child process, under a hard timeout.  A hang is an observation ({"hang": true}); once this
  worker process has seen 3 hangs the verdict is settled, so further strategies that use OS threads are not waited
  for again ({"skipped": true}) — a broken tree is reported in minutes, not suffered for hours."""
  global _HANGS
  if case.get('fam'):
    return run_fam(case)
  ch = L.child()
  core = {k: case[k] for k in ('kind', 'data', 'items', 'src')}
  out = []
  for st in case['strategies']:
    if _HANGS >= 3 and st['s'] in ('threads', 'interleaved'):
      out.append(dict(skipped=True, err=None))
      continue
    o = ch.run(core, st, TIMEOUT if _HANGS == 0 else min(TIMEOUT, 5.0))
    if o.get('hang'):
      _HANGS += 1
    out.append(o)
  return out


# ------------------------------------------------------------------ oracle (the property, on the real outputs)

def tag(st):
  extra_ = ''.join(f' {k}={st[k]}' for k in ('n', 'k', 'via', 'chooser', 'seed', 'states_as', 'strict', 'runner') if k in st)
  return f"[{st['s']} cuts={''.join(st['cuts']) or '-'}{extra_}]"


def ms(batches):
  return collections.Counter(json.dumps(b) for b in batches)


def rows_ms(batches):
  return collections.Counter(json.dumps(r) for b in batches for r in b)


def agg_equal(a, b, as_multiset):
  if isinstance(a, list) and isinstance(b, list):
    return sorted(a) == sorted(b) if as_multiset else a == b
  if isinstance(a, dict) and isinstance(b, dict):
    if set(a) != set(b) or a.get('count') != b.get('count'):
      return False
    return all(close(a[k], b[k], rel=1e-9, abs_=1e-9) for k in ('mean', 'var') if k in a)
  return False


def strategy_failure(case, st, base, obs):
  """None, or how the strategy's observables differ from the sequential run's."""
  if obs.get('skipped'):
    return None
  if obs.get('hang'):
    return f"did not finish within {obs.get('timeout')} s (hang)"
  if base.get('err'):
    # the sequential run itself fails: every strategy has to fail too (how is C12's business)
    if not obs.get('err'):
      return f"baseline fails with {base['err']} but this strategy gives a result"
    return None
  if obs.get('err'):
    if obs.get('phase') == 'build' and obs['err'] == 'ValueError' and not valid_cuts(case['items'], st['cuts']):
      return None      # the grouping is refused: it is not one of "the same operators"
    return f"error {obs['err']} ({obs.get('phase')}): {obs.get('msg', '')[:80]}"
  ordered = st['s'] in ('seq', 'interleaved')
  if rows_ms(obs['out']) != rows_ms(base['out']):
    return f"rows differ: {obs['out']} vs sequential {base['out']}"
  if (obs['out'] != base['out']) if ordered else (ms(obs['out']) != ms(base['out'])):
    return f"batches differ: {obs['out']} vs sequential {base['out']}"
  if set(obs['aggs']) != set(base['aggs']):
    return f"aggregate keys differ: {sorted(obs['aggs'])} vs {sorted(base['aggs'])}"
  # an order-carrying accumulator: same list where the strategy keeps the order (fused/chained, stage runner,
  # contiguous shards merged in shard order), same multiset where it cannot (threads, round-robin shards)
  as_ms = st['s'] in ('threads', 'sched') or (st['s'] == 'shards' and case['src'] != 'seq')
  for k in sorted(base['aggs']):
    if not agg_equal(obs['aggs'][k], base['aggs'][k], as_ms):
      return f"agg_result {k} differs: {obs['aggs'][k]} vs sequential {base['aggs'][k]}"
  if obs.get('live_same') is False:
    return 'AggregateResult returned through StopIteration differs from iterator.agg_result'
  if st['s'] == 'shards' and base['aggs'] and obs.get('nstates') != st['k']:
    return f"{obs.get('nstates')} shard states for {st['k']} shards"
  if st['s'] == 'interleaved' and base['aggs'] and sum(obs.get('nret', [])) < 1:
    return 'no AggregateResult in any stage result queue'
  return None


def classify(case, st, why):
  """known input classes (predicates over the case/strategy, not over the property id)"""
  if why.startswith('batches differ') and has_rebatch(case) and (
      (st['s'] in ('threads', 'sched') and st['n'] > 0) or (st['s'] == 'shards' and st['k'] > 1)):
    return 'F18'
  if filter_first(case['items'], st['cuts']) and (
      'IndexError' in why or (st['s'] == 'interleaved' and re.search(r'stage \d+ failed', why))):
    return 'F9-C03'
  return None


def failures(case, obs):
  base = obs[0]
  out = []
  if base.get('hang'):
    return [(case['strategies'][0], 'did not finish (hang)')]
  if base.get('err') is None and base.get('live_same') is False:
    out.append((case['strategies'][0], 'AggregateResult returned through StopIteration differs from iterator.agg_result'))
  for st, o in zip(case['strategies'][1:], obs[1:]):
    why = strategy_failure(case, st, base, o)
    if why:
      out.append((st, why))
  return out


def fam_oracle(case, o):
  if case['fam'] == 'pool':
    return X.pool_oracle(case, o)
  if case['fam'] == 'obs':
    return Y.ob_oracle(case, o)
  if o.get('err') == 'ChildDied':
    return f"[{case['fam']}] the process running the strategy died"
  return X.sz_oracle(case, o) if case['fam'] == 'sizes' else X.sl_oracle(case, o)


def oracle(case, obs):
  if case.get('fam'):
    return fam_oracle(case, obs)
  fs = failures(case, obs)
  if not fs:
    return None
  fs.sort(key=lambda f: classify(case, f[0], f[1]) is not None)     # unknown classes first
  st, why = fs[0]
  return f'{tag(st)} {why}'


_TAG = re.compile(r'^\[(\w+) cuts=([bfc-]*)((?: \w+=\w+)*)\] (.*)$', re.S)


def finding(case, what):
  m = _TAG.match(what or '')
  if not m:
    return None
  st = dict(s=m.group(1), cuts=[] if m.group(2) == '-' else list(m.group(2)))
  for kv in m.group(3).split():
    k, v = kv.split('=')
    st[k] = int(v) if v.isdigit() else v
  return classify(case, st, m.group(4))


def fam_nontrivial(case, o):
  if case['fam'] == 'pool':
    return any((x.get('merged') or {}).get('err') is None and len((x.get('merged') or {}).get('result', [])) >= 3 for x in o)
  if case['fam'] == 'obs':
    return Y.ob_nontrivial(case, o)
  if case['fam'] == 'sizes':
    big = max(X.constants() or [0])
    ob = o.get('obs') or {}
    st = case['strat']
    if ob.get('err') is None and case['n'] > big and not st.get('buf'):
      if st['s'] == 'interleaved' and (ob.get('ahead') or 0) > big:
        k = 'interleaved: upstream ahead of its consumer by more than every constant'
        _OBS_COV[k] = _OBS_COV.get(k, 0) + 1
      if st['s'] in ('q_iter', 'q_batch') and ob.get('ahead') == case['n']:
        k = 'queue: producer finished before the consumer started, stream longer than every constant'
        _OBS_COV[k] = _OBS_COV.get(k, 0) + 1
    return case['n'] >= 2 and ob.get('err') is None
  m = o.get('merged') or {}
  return m.get('err') is None and len(case['parts'] or [0, 0]) >= 2 and len(m.get('result', [])) >= 3


def nontrivial(case, obs):
  if case.get('fam'):
    return fam_nontrivial(case, obs)
  return (len(case['data']) >= 2 and len(case['items']) >= 2 and
          any(o.get('err') is None and not o.get('hang') and not o.get('skipped') for o in obs[1:]))


# ------------------------------------------------------------------ model side

def model_requests(case):
  if case.get('fam') == 'sizes':
    return X.sz_model_requests(case, None)
  if case.get('fam') == 'sliced':
    return X.sl_model_requests(case)
  if case.get('fam') == 'pool':
    return X.pool_model_requests(case)
  if case.get('fam') == 'obs':
    return Y.ob_model_requests(case)
  width = 2 if case['kind'] == 'dict' else 1
  by_cuts = {}
  for st in case['strategies']:
    r = by_cuts.setdefault(tuple(st['cuts']), dict(shards=set(), rr=set()))
    n = st.get('k') if st['s'] == 'shards' else (st.get('n') if st['s'] in ('threads', 'sched') else None)
    if n and case['src'] in ('seq', 'rr'):
      r['shards' if case['src'] == 'seq' else 'rr'].add(n)
  reqs = []
  for cuts, r in by_cuts.items():
    reqs.append(dict(model='strategy', width=width, data=case['data'],
                     transforms=[dict(attach=a, items=[({'agg': 'collect'} if it.get('agg') == 'rmw' else it) for it in its])
                                 for a, its in L.split_transforms(case['items'], list(cuts))],
                     shards=sorted(r['shards']), rr=sorted(r['rr'])))
  return reqs


def moments_obs(m):
  n, s, q = m
  if n == 0:
    return {'count': 0}
  mean = s / n
  return {'count': n, 'mean': mean, 'var': q / n - mean * mean}


def model_aggs(case, lst):
  keys = [f'A{i}' for i, it in enumerate(case['items']) if 'agg' in it]
  kinds = [it['agg'] for it in case['items'] if 'agg' in it]
  return {k: (moments_obs(v) if kd == 'moments' else v) for k, kd, v in zip(keys, kinds, lst)}


def model_obs(case, resps):
  if case.get('fam'):
    return dict(fam=case['fam'], case=case, resps=resps)
  order = []
  for st in case['strategies']:
    if tuple(st['cuts']) not in order:
      order.append(tuple(st['cuts']))
  by_cuts = dict(zip(order, resps))
  out = []
  for st in case['strategies']:
    r = by_cuts[tuple(st['cuts'])]
    if r.get('err'):
      out.append(dict(err=r['err']))
      continue
    seq = dict(err=None, out=r['out'], aggs=model_aggs(case, r['aggs']), cmp='list')
    s = st['s']
    if s in ('seq', 'interleaved'):
      out.append(seq)
      continue
    n = st['k'] if s == 'shards' else st['n']
    part = None
    if case['src'] in ('seq', 'rr'):
      part = next(x['r'] for x in r['shards' if case['src'] == 'seq' else 'rr'] if x['k'] == n)
    if s == 'shards':
      out.append(dict(err=None, out=part['out'], aggs=model_aggs(case, part['aggs']), cmp='list'))
      continue
    # threads: producer j runs the first stage over shard(j, n) (shardable source); a later stage, or a plain
    # source, reads a shared locked iterator — then only a row-wise pipeline has a schedule-independent answer
    stage_of = L.stage_index_of_items(case['items'], st['cuts'])
    rebatch_stages = {stage_of[i] for i, it in enumerate(case['items']) if it.get('op') == 'rebatch'}
    if not rebatch_stages:
      out.append(dict(seq, cmp='multiset'))
    elif part is not None and rebatch_stages == {0} and max(stage_of) == 0:
      out.append(dict(err=None, out=part['out'], aggs=model_aggs(case, part['aggs']), cmp='multiset'))
    else:
      out.append(dict(seq, cmp='rows'))
  return out


def compare(impl_obs, mobs):
  if isinstance(mobs, dict) and mobs.get('fam'):
    if mobs['fam'] == 'pool':
      return X.pool_compare(mobs['case'], impl_obs, mobs['resps'])
    if mobs['fam'] == 'obs':
      return Y.ob_compare(mobs['case'], impl_obs, mobs['resps'][0])
    if impl_obs.get('err') == 'ChildDied':
      return None
    if mobs['fam'] == 'sizes':
      return X.sz_compare(mobs['case'], impl_obs, mobs['resps'][0])
    return X.sl_compare(mobs['case'], impl_obs, mobs['resps'])
  for i, (o, m) in enumerate(zip(impl_obs, mobs)):
    if o.get('hang') or o.get('skipped') or (o.get('err') and o.get('phase') == 'run'):
      continue            # run-time failures are the oracle's business (error paths are not modelled here)
    if m.get('err') or o.get('err'):
      if m.get('err') != o.get('err'):
        return f"strategy {i}: model says err={m.get('err')}, implementation err={o.get('err')} ({o.get('msg', '')[:60]})"
      continue
    c = m['cmp']
    if c == 'list' and o['out'] != m['out']:
      return f"strategy {i}: output list {o['out']} != model {m['out']}"
    if c == 'multiset' and ms(o['out']) != ms(m['out']):
      return f"strategy {i}: output multiset {o['out']} != model {m['out']}"
    if rows_ms(o['out']) != rows_ms(m['out']):
      return f"strategy {i}: rows {o['out']} != model {m['out']}"
    if set(o['aggs']) != set(m['aggs']):
      return f"strategy {i}: aggregate keys {sorted(o['aggs'])} != model {sorted(m['aggs'])}"
    for k in o['aggs']:
      if not agg_equal(o['aggs'][k], m['aggs'][k], as_multiset=(c != 'list')):
        return f"strategy {i}: agg {k} {o['aggs'][k]} != model {m['aggs'][k]}"
  return None


# ------------------------------------------------------------------ search helpers

class _RngCtx:
  quick = True

  def __init__(self, rng):
    self.rng = rng


def neighbours(case, rng):
  if case.get('fam'):
    yield from (X.gen_sizes(_RngCtx(rng)) if case['fam'] == 'sizes' else
                Y.gen_obs(_RngCtx(rng)) if case['fam'] == 'obs' else X.gen_sliced(_RngCtx(rng)))
    return
  # a disagreement in the grammar family may have its failing input in a round-7 family
  yield from X.gen_sliced(_RngCtx(rng))[:40]
  for _ in range(150):
    kind = rng.choice(['dict', 'scalar'])
    items = gen_items(rng, kind)
    src = rng.choice(['seq', 'rr', 'plain'])
    yield dict(kind=kind, data=gen_data(rng, kind), items=items, src=src, strategies=strategies_for(rng, items, src))
  for _ in range(50):
    c = copy.deepcopy(case)
    c['data'] = gen_data(rng, c['kind'])
    yield c


def shrink(case, fails0):
  try:
    return _shrink(case, fails0)
  except Exception:  # pylint: disable=broad-except
    import sys, traceback
    traceback.print_exc(file=sys.stderr)
    return None


def _shrink_fam(case, fails0):
  cur = json.loads(json.dumps(case))
  if case['fam'] == 'obs':
    return Y.ob_shrink(cur, fails0)
  if case['fam'] == 'pool':
    for item in cur['items']:              # one failing item is enough
      c = dict(fam='pool', items=[item])
      if fails0(c) is not None:
        return c
    return cur
  if case['fam'] == 'sizes':
    # the smallest boundary length that still fails with this strategy
    for n in X.size_points(X.constants()):
      if n >= cur['n']:
        break
      c = dict(cur, n=n)
      if c['strat'].get('steps') is not None:
        c['strat'] = dict(c['strat'], steps=min(c['strat']['steps'], n))
      if fails0(c) is not None:
        return c
    return cur
  changed = True
  while changed:
    changed = False
    sub = cur['sub']
    for i in range(len(sub['batches'])):            # drop a batch (and its index from the partition)
      c = json.loads(json.dumps(cur))
      del c['sub']['batches'][i]
      if c.get('parts') is not None:
        c['parts'] = [[j - (j > i) for j in p if j != i] for p in c['parts']]
      if fails0(c) is not None:
        cur, changed = c, True
        break
    if changed:
      continue
    for key, keep in (('aggs', 1), ('slicers', 1)):
      if len(cur['sub'][key]) > keep:
        for i in range(len(cur['sub'][key])):
          c = json.loads(json.dumps(cur))
          del c['sub'][key][i]
          if fails0(c) is not None:
            cur, changed = c, True
            break
      if changed:
        break
  return cur


def _shrink(case, fails0):
  if case.get('fam'):
    return _shrink_fam(case, fails0)
  first = fails0(case)
  want = finding(case, first) if first else None
  def fails(c):
    w = fails0(c)
    return w is not None and finding(c, w) == want
  cur = json.loads(json.dumps(case))     # no list shared between strategies (the generator reuses the cut vectors)
  # keep the baseline and one failing strategy
  # prefer a seeded schedule of the deterministic scheduler: its replay does not depend on OS timing
  order = sorted(range(1, len(cur['strategies'])), key=lambda i: cur['strategies'][i]['s'] != 'sched')
  for i in order:
    c = dict(cur, strategies=[cur['strategies'][0], cur['strategies'][i]])
    if fails(c):
      cur = c
      break
  changed = True
  while changed:
    changed = False
    for i in range(len(cur['data'])):
      c = copy.deepcopy(cur); del c['data'][i]
      if fails(c):
        cur, changed = c, True
        break
    if changed:
      continue
    for i in range(len(cur['items'])):
      if len(cur['items']) <= 1:
        break
      c = copy.deepcopy(cur); del c['items'][i]
      for st in c['strategies']:
        if st['cuts']:
          del st['cuts'][max(i - 1, 0)]         # the cut that attached item i (item 0: the one after it)
      c['strategies'][0]['cuts'] = base_cuts(c['items'])
      if any(len(st['cuts']) != len(c['items']) - 1 for st in c['strategies']):
        continue
      if fails(c):
        cur, changed = c, True
        break
  return cur
